(* C18 — proofs about the barectf 2 -> barectf 3 conversion model (V2Conv.v). *)
From Coq Require Import List String ZArith Bool Ascii Lia.
Import ListNotations.
From BT.Front Require Import Yaml YamlRes V2Conv V2Sem.
Open Scope string_scope.
Open Scope list_scope.

(* ================================================================== witnesses (replayed by harness/props/c18_probes.py) *)
Definition w_real_byte_order : yaml := (YMap [("version", (YStr "2.2")); ("metadata", (YMap [("trace", (YMap [("byte-order", (YStr "le"))])); ("streams", (YMap [("s", (YMap [("packet-context-type", (YMap [("class", (YStr "struct")); ("fields", (YMap [("packet_size", (YMap [("class", (YStr "int")); ("size", (YInt (32)%Z))])); ("content_size", (YMap [("class", (YStr "int")); ("size", (YInt (32)%Z))]))]))])); ("events", (YMap [("e", (YMap [("payload-type", (YMap [("class", (YStr "struct")); ("fields", (YMap [("x", (YMap [("class", (YStr "float")); ("size", (YMap [("exp", (YInt (8)%Z)); ("mant", (YInt (24)%Z))])); ("byte-order", (YStr "le"))]))]))]))]))]))]))]))]))]).
Definition w_fields_null : yaml := (YMap [("version", (YStr "2.2")); ("metadata", (YMap [("trace", (YMap [("byte-order", (YStr "le"))])); ("streams", (YMap [("s", (YMap [("packet-context-type", (YMap [("class", (YStr "struct")); ("fields", (YMap [("packet_size", (YMap [("class", (YStr "int")); ("size", (YInt (32)%Z))])); ("content_size", (YMap [("class", (YStr "int")); ("size", (YInt (32)%Z))]))]))])); ("event-header-type", (YMap [("class", (YStr "struct")); ("fields", (YMap [("id", (YMap [("class", (YStr "int")); ("size", (YInt (8)%Z))]))]))])); ("events", (YMap [("e", (YMap [("payload-type", (YMap [("class", (YStr "struct")); ("fields", YNull)]))]))]))]))]))]))]).
Definition w_seq_num : yaml := (YMap [("version", (YStr "2.2")); ("metadata", (YMap [("trace", (YMap [("byte-order", (YStr "le"))])); ("streams", (YMap [("s", (YMap [("packet-context-type", (YMap [("class", (YStr "struct")); ("fields", (YMap [("packet_size", (YMap [("class", (YStr "int")); ("size", (YInt (32)%Z))])); ("content_size", (YMap [("class", (YStr "int")); ("size", (YInt (32)%Z))])); ("packet_seq_num", (YMap [("class", (YStr "int")); ("size", (YInt (16)%Z))]))]))])); ("events", (YMap [("e", (YMap [("payload-type", (YMap [("class", (YStr "struct")); ("fields", (YMap [("x", (YMap [("class", (YStr "int")); ("size", (YInt (8)%Z))]))]))]))]))]))]))]))]))]).
Definition w_mixed_clocks : yaml := (YMap [("version", (YStr "2.2")); ("metadata", (YMap [("clocks", (YMap [("A", (YMap [("freq", (YInt (1000)%Z))])); ("B", (YMap [("freq", (YInt (1000)%Z))]))])); ("trace", (YMap [("byte-order", (YStr "le"))])); ("streams", (YMap [("s", (YMap [("packet-context-type", (YMap [("class", (YStr "struct")); ("fields", (YMap [("packet_size", (YMap [("class", (YStr "int")); ("size", (YInt (32)%Z))])); ("content_size", (YMap [("class", (YStr "int")); ("size", (YInt (32)%Z))])); ("timestamp_begin", (YMap [("class", (YStr "int")); ("size", (YInt (64)%Z)); ("property-mappings", (YSeq [(YMap [("type", (YStr "clock")); ("name", (YStr "B")); ("property", (YStr "value"))])]))])); ("timestamp_end", (YMap [("class", (YStr "int")); ("size", (YInt (64)%Z)); ("property-mappings", (YSeq [(YMap [("type", (YStr "clock")); ("name", (YStr "B")); ("property", (YStr "value"))])]))]))]))])); ("event-header-type", (YMap [("class", (YStr "struct")); ("fields", (YMap [("timestamp", (YMap [("class", (YStr "int")); ("size", (YInt (64)%Z)); ("property-mappings", (YSeq [(YMap [("type", (YStr "clock")); ("name", (YStr "A")); ("property", (YStr "value"))])]))]))]))])); ("events", (YMap [("e", (YMap [("payload-type", (YMap [("class", (YStr "struct")); ("fields", (YMap [("x", (YMap [("class", (YStr "int")); ("size", (YInt (8)%Z))]))]))]))]))]))]))]))]))]).
Definition w_header_members : yaml := (YMap [("version", (YStr "2.2")); ("metadata", (YMap [("trace", (YMap [("byte-order", (YStr "le")); ("packet-header-type", (YMap [("class", (YStr "struct")); ("fields", (YMap [("magic", (YMap [("class", (YStr "int")); ("size", (YInt (32)%Z))])); ("stream_instance_id", (YMap [("class", (YStr "int")); ("size", (YInt (8)%Z))]))]))]))])); ("streams", (YMap [("s", (YMap [("packet-context-type", (YMap [("class", (YStr "struct")); ("fields", (YMap [("packet_size", (YMap [("class", (YStr "int")); ("size", (YInt (32)%Z))])); ("content_size", (YMap [("class", (YStr "int")); ("size", (YInt (32)%Z))]))]))])); ("event-header-type", (YMap [("class", (YStr "struct")); ("fields", (YMap [("cpu", (YMap [("class", (YStr "int")); ("size", (YInt (8)%Z))]))]))])); ("events", (YMap [("e", (YMap [("payload-type", (YMap [("class", (YStr "struct")); ("fields", (YMap [("x", (YMap [("class", (YStr "int")); ("size", (YInt (8)%Z))]))]))]))]))]))]))]))]))]).
Definition w_payload_mapping : yaml := (YMap [("version", (YStr "2.2")); ("metadata", (YMap [("clocks", (YMap [("A", (YMap [("freq", (YInt (1000)%Z))]))])); ("trace", (YMap [("byte-order", (YStr "le"))])); ("streams", (YMap [("s", (YMap [("packet-context-type", (YMap [("class", (YStr "struct")); ("fields", (YMap [("packet_size", (YMap [("class", (YStr "int")); ("size", (YInt (32)%Z))])); ("content_size", (YMap [("class", (YStr "int")); ("size", (YInt (32)%Z))]))]))])); ("events", (YMap [("e", (YMap [("payload-type", (YMap [("class", (YStr "struct")); ("fields", (YMap [("x", (YMap [("class", (YStr "int")); ("size", (YInt (64)%Z)); ("property-mappings", (YSeq [(YMap [("type", (YStr "clock")); ("name", (YStr "A")); ("property", (YStr "value"))])]))]))]))]))]))]))]))]))]))]).

(* ================================================================== version detection *)
Lemma version_detect_tagged : forall l, major_version true (YMap l) = Ok 3%Z.
Proof. reflexivity. Qed.

Lemma version_detect_untagged : forall l, major_version false (YMap l) = Ok 2%Z.
Proof. reflexivity. Qed.

(* ================================================================== OrderedDict algebra (lookup after an update) *)
Lemma eqb_sym : forall a b, String.eqb a b = String.eqb b a.
Proof. exact String.eqb_sym. Qed.

Lemma lookup_app : forall k a b,
  lookup k (a ++ b) = match lookup k a with Some v => Some v | None => lookup k b end.
Proof.
  intros k a b. induction a as [|kv a IH]; simpl; [reflexivity|].
  destruct (String.eqb (fst kv) k); [reflexivity|exact IH].
Qed.

Lemma mem_keys : forall k l, mem k (keys l) = match lookup k l with Some _ => true | None => false end.
Proof.
  intros k l. induction l as [|kv l IH]; simpl; [reflexivity|].
  destruct (String.eqb (fst kv) k); simpl; [reflexivity|exact IH].
Qed.

Lemma lookup_set : forall k a v l,
  lookup k (set a v l) = if String.eqb k a then (match lookup a l with Some _ => Some v | None => None end) else lookup k l.
Proof.
  intros k a v l. induction l as [|kv l IH]; simpl.
  - destruct (String.eqb k a); reflexivity.
  - destruct (String.eqb (fst kv) a) eqn:E1; simpl.
    + apply String.eqb_eq in E1. subst a. rewrite (eqb_sym k (fst kv)).
      destruct (String.eqb (fst kv) k); reflexivity.
    + destruct (String.eqb (fst kv) k) eqn:E2.
      * apply String.eqb_eq in E2. subst k. rewrite E1. reflexivity.
      * exact IH.
Qed.

Lemma lookup_put : forall k a v l,
  lookup k (put a v l) = if String.eqb k a then Some v else lookup k l.
Proof.
  intros k a v l. unfold put, has. rewrite mem_keys.
  destruct (lookup a l) eqn:E.
  - rewrite lookup_set, E. reflexivity.
  - rewrite lookup_app. simpl. rewrite (eqb_sym a k).
    destruct (String.eqb k a) eqn:E2.
    + apply String.eqb_eq in E2. subst k. rewrite E. reflexivity.
    + destruct (lookup k l); reflexivity.
Qed.

Lemma lookup_del : forall k a l,
  lookup k (del a l) = if String.eqb k a then None else lookup k l.
Proof.
  intros k a l. induction l as [|kv l IH]; simpl.
  - destruct (String.eqb k a); reflexivity.
  - destruct (String.eqb (fst kv) a) eqn:E1; simpl.
    + rewrite IH. apply String.eqb_eq in E1. subst a. rewrite (eqb_sym k (fst kv)).
      destruct (String.eqb (fst kv) k); reflexivity.
    + destruct (String.eqb (fst kv) k) eqn:E2.
      * apply String.eqb_eq in E2. subst k. rewrite E1. reflexivity.
      * exact IH.
Qed.

Lemma lookup_rename : forall k o n l,
  lookup k (rename o n l) =
    match lookup o l with
    | Some v => if String.eqb k o then None else if String.eqb k n then Some v else lookup k l
    | None => lookup k l
    end.
Proof.
  intros k o n l. unfold rename. destruct (lookup o l) eqn:E; [|reflexivity].
  rewrite lookup_del, lookup_put. reflexivity.
Qed.

Lemma lookup_copy_prop : forall k dst src sk dk,
  lookup k (copy_prop dst src sk dk) =
    match lookup sk src with
    | Some v => if String.eqb k dk then Some v else lookup k dst
    | None => lookup k dst
    end.
Proof.
  intros. unfold copy_prop. destruct (lookup sk src); [apply lookup_put|reflexivity].
Qed.

(* a whitelist of keys, semantically *)
Lemma keys_in_spec : forall W l,
  keys_in W l = true <-> (forall k, one_of k W = false -> lookup k l = None).
Proof.
  intros W l. unfold keys_in. induction l as [|kv l IH]; simpl.
  - split; auto.
  - split.
    + intros H k Hk. apply andb_prop in H. destruct H as [H1 H2].
      destruct (String.eqb (fst kv) k) eqn:E.
      * apply String.eqb_eq in E. subst k. congruence.
      * apply IH; assumption.
    + intros H. apply andb_true_intro. split.
      * destruct (one_of (fst kv) W) eqn:E; [reflexivity|].
        specialize (H _ E). rewrite String.eqb_refl in H. discriminate.
      * apply IH. intros k Hk. specialize (H k Hk).
        destruct (String.eqb (fst kv) k); [discriminate|exact H].
Qed.

Lemma keys_in_none : forall W l k, keys_in W l = true -> one_of k W = false -> lookup k l = None.
Proof. intros W l k H. apply keys_in_spec. exact H. Qed.

Lemma opt_of_lookup : forall k l, opt_of k l = match lookup k l with Some YNull | None => None | Some y => Some y end.
Proof. reflexivity. Qed.

(* ================================================================== prefix_split *)
Fixpoint underscores (n : nat) : string :=
  match n with O => EmptyString | S n' => String underscore (underscores n') end.

Definition ends_with_us (s : string) : bool :=
  match rev (list_ascii_of_string s) with
  | c :: _ => Ascii.eqb c underscore
  | [] => false
  end.

Lemma rstrip_us_empty_all : forall s, rstrip_us s = EmptyString -> exists n, s = underscores n.
Proof.
  induction s as [|c s IH]; simpl; intros H.
  - exists 0. reflexivity.
  - destruct (rstrip_us s) eqn:E.
    + destruct (Ascii.eqb c underscore) eqn:Ec; [|discriminate].
      apply Ascii.eqb_eq in Ec. subst c. destruct (IH eq_refl) as [n Hn]. exists (S n). simpl. now rewrite Hn.
    + discriminate.
Qed.

(* p = (p without its trailing underscores) ++ the trailing underscores *)
Lemma rstrip_us_split : forall p, exists n, p = (rstrip_us p ++ underscores n)%string.
Proof.
  induction p as [|c p IH]; simpl.
  - exists 0. reflexivity.
  - destruct (rstrip_us p) eqn:E.
    + destruct (rstrip_us_empty_all p E) as [n Hn].
      destruct (Ascii.eqb c underscore) eqn:Ec.
      * apply Ascii.eqb_eq in Ec. subst c. exists (S n). simpl. now rewrite Hn.
      * exists n. simpl. now rewrite Hn.
    + destruct IH as [n Hn]. exists n. simpl. simpl in Hn. now rewrite <- Hn.
Qed.

Lemma list_ascii_app : forall a b, list_ascii_of_string (a ++ b)%string = list_ascii_of_string a ++ list_ascii_of_string b.
Proof. induction a as [|c a IH]; simpl; intros; [reflexivity|now rewrite IH]. Qed.

(* ... and what is kept does not end with an underscore *)
Lemma rstrip_us_no_trailing : forall p, ends_with_us (rstrip_us p) = false.
Proof.
  unfold ends_with_us. induction p as [|c p IH]; simpl; [reflexivity|].
  destruct (rstrip_us p) as [|c' r] eqn:E.
  - destruct (Ascii.eqb c underscore) eqn:Ec; simpl; [reflexivity|exact Ec].
  - simpl. simpl in IH.
    destruct (rev (list_ascii_of_string r) ++ [c']) as [|x xs] eqn:E2.
    + destruct (rev (list_ascii_of_string r)); discriminate.
    + simpl. exact IH.
Qed.

(* the model's rstrip is the independent definition of V2Sem (reverse, drop, reverse) *)
Lemma drop_us_all : forall n, drop_us (list_ascii_of_string (underscores n)) = [].
Proof. induction n; simpl; [reflexivity|]. exact IHn. Qed.

Lemma rev_underscores : forall n, rev (list_ascii_of_string (underscores n)) = list_ascii_of_string (underscores n).
Proof.
  induction n; simpl; [reflexivity|]. rewrite IHn.
  clear IHn. induction n; simpl; [reflexivity|]. now rewrite IHn.
Qed.

Lemma drop_us_underscores_app : forall n l, drop_us (list_ascii_of_string (underscores n) ++ l) = drop_us l.
Proof. induction n; intros l; simpl; [reflexivity|]. apply IHn. Qed.

Lemma drop_us_not_us : forall l, (match l with c :: _ => Ascii.eqb c underscore | [] => false end) = false -> drop_us l = l.
Proof. intros [|c l] H; simpl; [reflexivity|]. unfold underscore in H. now rewrite H. Qed.

Lemma file_prefix_of_rstrip : forall p, file_prefix_of p = rstrip_us p.
Proof.
  intros p. unfold file_prefix_of.
  destruct (rstrip_us_split p) as [n Hn].
  pose proof (rstrip_us_no_trailing p) as Hnt. unfold ends_with_us in Hnt.
  rewrite Hn at 1. rewrite list_ascii_app, rev_app_distr, rev_underscores, drop_us_underscores_app.
  rewrite drop_us_not_us by exact Hnt.
  rewrite rev_involutive. apply string_of_list_ascii_of_string.
Qed.

Theorem prefix_split_thm : forall p,
  fst (v3_prefixes p) = p
  /\ (exists n, p = (snd (v3_prefixes p) ++ underscores n)%string)
  /\ ends_with_us (snd (v3_prefixes p)) = false
  /\ snd (v3_prefixes p) = file_prefix_of p.
Proof.
  intros p. simpl. repeat split.
  - apply rstrip_us_split.
  - apply rstrip_us_no_trailing.
  - symmetry. apply file_prefix_of_rstrip.
Qed.

(* ================================================================== enum_members_autoinc *)
(* Declarative statement of the barectf 2 rule: each member's range is `m_range` of the range of the
   member written just before it (None for the first). *)
Inductive Ranges : option (Z * Z) -> list member -> list (string * (Z * Z)) -> Prop :=
| Ranges_nil : forall prev, Ranges prev [] []
| Ranges_cons : forall prev m ms rs,
    Ranges (Some (m_range prev m)) ms rs ->
    Ranges prev (m :: ms) ((m_label m, m_range prev m) :: rs).

Definition prev_of (d : list (string * (Z * Z))) : option (Z * Z) :=
  match d with [] => None | p :: _ => Some (snd p) end.

Lemma ranges_from_spec : forall ms d,
  exists rs, ranges_from d ms = rev d ++ rs /\ Ranges (prev_of d) ms rs.
Proof.
  induction ms as [|m ms IH]; intros d; simpl.
  - exists []. split; [now rewrite app_nil_r|constructor].
  - destruct (IH ((m_label m, m_range (prev_of d) m) :: d)) as [rs [H1 H2]].
    exists ((m_label m, m_range (prev_of d) m) :: rs). split.
    + unfold prev_of in H1. rewrite H1. simpl. now rewrite <- app_assoc.
    + constructor. exact H2.
Qed.

Lemma ranges_of_spec : forall ms, Ranges None ms (ranges_of ms).
Proof.
  intros ms. destruct (ranges_from_spec ms []) as [rs [H1 H2]]. unfold ranges_of. rewrite H1. exact H2.
Qed.

(* the model's loop, on parsed members *)
Fixpoint loop_ranges (ms : list member) (cur : Z) : list (string * (Z * Z)) :=
  match ms with
  | [] => []
  | MAuto l :: r => (l, (cur, cur)) :: loop_ranges r (cur + 1)%Z
  | MVal l v :: r => (l, (v, v)) :: loop_ranges r (v + 1)%Z
  | MRange l lo hi :: r => (l, (lo, hi)) :: loop_ranges r (hi + 1)%Z
  end.

Definition next_of (d : list (string * (Z * Z))) : Z :=
  match d with [] => 0%Z | p :: _ => (snd (snd p) + 1)%Z end.

Lemma ranges_from_loop : forall ms d, ranges_from d ms = rev d ++ loop_ranges ms (next_of d).
Proof.
  induction ms as [|m ms IH]; intros d; simpl.
  - now rewrite app_nil_r.
  - rewrite IH. simpl. rewrite <- app_assoc. simpl. f_equal.
    destruct m as [l|l v|l lo hi]; simpl.
    + destruct d as [|[l' [lo' hi']] d]; simpl; reflexivity.
    + reflexivity.
    + reflexivity.
Qed.

Lemma ranges_of_loop : forall ms, ranges_of ms = loop_ranges ms 0%Z.
Proof. intros. unfold ranges_of. now rewrite ranges_from_loop. Qed.

(* printing a range the way the converter does *)
Definition pr_range (m : member) (cur : Z) : yaml :=
  match m with
  | MAuto _ => YInt cur
  | MVal _ v => YInt v
  | MRange _ lo hi => YSeq [YInt lo; YInt hi]
  end.

(* grouped insertion *)
Fixpoint ins (g : list (string * list (Z * Z))) (l : string) (r : Z * Z) : list (string * list (Z * Z)) :=
  match g with
  | [] => [(l, [r])]
  | (l', rs) :: g' => if String.eqb l' l then (l', rs ++ [r]) :: g' else (l', rs) :: ins g' l r
  end.

Fixpoint add_rec (label : string) (v : yaml) (acc : entries) : entries :=
  match acc with
  | [] => [(label, YSeq [v])]
  | (k, y) :: acc' =>
      if String.eqb k label
      then (k, match y with YSeq vs => YSeq (vs ++ [v]) | _ => y end) :: acc'
      else (k, y) :: add_rec label v acc'
  end.

Definition all_seq (acc : entries) : bool :=
  forallb (fun kv => match snd kv with YSeq _ => true | _ => false end) acc.

Lemma add_mapping_rec : forall acc label v, all_seq acc = true -> add_mapping label v acc = add_rec label v acc.
Proof.
  induction acc as [|[k y] acc IH]; intros label v H.
  - reflexivity.
  - simpl in H. apply andb_prop in H. destruct H as [Hy Hacc].
    destruct y as [| | | | |vs|]; try discriminate.
    specialize (IH label v Hacc).
    unfold add_mapping in *. simpl.
    destruct (String.eqb k label) eqn:Ek.
    + apply String.eqb_eq in Ek. now subst.
    + destruct (lookup label acc) as [y'|] eqn:El.
      * destruct y' as [| | | | |vs'|].
        6:{ now rewrite IH. }
        all: exfalso; clear -Hacc El; induction acc as [|[k' y''] acc IHa]; [discriminate|];
          simpl in *; apply andb_prop in Hacc; destruct Hacc as [H1 H2];
          destruct (String.eqb k' label); [inversion El; subst; discriminate|auto].
      * unfold put, has in *. rewrite mem_keys in *. simpl. rewrite Ek. rewrite El in *.
        simpl. now rewrite IH.
Qed.

Lemma v3_mappings_all_seq : forall acc g, v3_mappings acc = Some g -> all_seq acc = true.
Proof.
  induction acc as [|[k y] acc IH]; intros g H; [reflexivity|].
  unfold v3_mappings in H. simpl in H. destruct y; try discriminate.
  destruct (omapM v3_range items); simpl in H; [|discriminate].
  fold (v3_mappings acc) in H. destruct (v3_mappings acc) eqn:E; simpl in H; [|discriminate].
  simpl. eapply IH. reflexivity.
Qed.

Lemma omapM_snoc : forall {A B} (f : A -> option B) l x rs r,
  omapM f l = Some rs -> f x = Some r -> omapM f (l ++ [x]) = Some (rs ++ [r]).
Proof.
  intros A B f. induction l as [|a l IH]; intros x rs r H1 H2; simpl in *.
  - inversion H1; subst. now rewrite H2.
  - destruct (f a); simpl in *; [|discriminate].
    destruct (omapM f l) eqn:E; simpl in *; [|discriminate].
    inversion H1; subst. now rewrite (IH _ _ _ eq_refl H2).
Qed.

Lemma add_mapping_ins : forall acc g label v r,
  v3_mappings acc = Some g -> v3_range v = Some r ->
  v3_mappings (add_mapping label v acc) = Some (ins g label r).
Proof.
  intros acc g label v r Hacc Hv.
  rewrite add_mapping_rec by (eapply v3_mappings_all_seq; eauto).
  revert g Hacc. induction acc as [|[k y] acc IH]; intros g Hacc.
  - inversion Hacc; subst. unfold v3_mappings. simpl. now rewrite Hv.
  - unfold v3_mappings in Hacc. simpl in Hacc.
    destruct y as [| | | | |vs|]; try discriminate.
    destruct (omapM v3_range vs) as [rs|] eqn:Ers; simpl in Hacc; [|discriminate].
    fold (v3_mappings acc) in Hacc.
    destruct (v3_mappings acc) as [g'|] eqn:Eg; simpl in Hacc; [|discriminate].
    inversion Hacc; subst g. clear Hacc.
    simpl. destruct (String.eqb k label) eqn:Ek.
    + unfold v3_mappings. simpl. rewrite (omapM_snoc _ _ _ _ _ Ers Hv). simpl.
      fold (v3_mappings acc). now rewrite Eg.
    + unfold v3_mappings. simpl. rewrite Ers. simpl.
      fold (v3_mappings (add_rec label v acc)). now rewrite (IH g' eq_refl).
Qed.

(* the converter's loop inserts, one by one, the ranges `loop_ranges` computes *)
Lemma enum_loop_ins : forall ms mems cur acc g,
  omapM member_of ms = Some mems -> v3_mappings acc = Some g ->
  exists mp, enum_loop ms cur acc = Ok mp
             /\ v3_mappings mp = Some (fold_left (fun g x => ins g (fst x) (snd x)) (loop_ranges mems cur) g).
Proof.
  induction ms as [|y ms IH]; intros mems cur acc g Hm Hacc; simpl in Hm.
  - inversion Hm; subst. simpl. eauto.
  - destruct (member_of y) as [m|] eqn:Ey; simpl in Hm; [|discriminate].
    destruct (omapM member_of ms) as [mems'|] eqn:Ems; simpl in Hm; [|discriminate].
    inversion Hm; subst mems. clear Hm.
    destruct y as [| | | |s| |ml]; simpl in Ey; try discriminate.
    + inversion Ey; subst m. simpl.
      apply (IH mems' (cur + 1)%Z _ (ins g s (cur, cur)) eq_refl).
      apply add_mapping_ins; [exact Hacc|reflexivity].
    + destruct (negb (keys_in ["label"; "value"] ml)); [discriminate|].
      destruct (lookup "label" ml) as [[| | | |s| |]|] eqn:El; try discriminate.
      destruct (lookup "value" ml) as [[| |v| | |vs|]|] eqn:Ev; try discriminate.
      * inversion Ey; subst m. simpl. rewrite El, Ev.
        apply (IH mems' (v + 1)%Z _ (ins g s (v, v)) eq_refl).
        apply add_mapping_ins; [exact Hacc|reflexivity].
      * destruct vs as [|[| |lo| | | |] [|[| |hi| | | |] [|? ?]]]; try discriminate.
        inversion Ey; subst m. simpl. rewrite El, Ev.
        apply (IH mems' (hi + 1)%Z _ (ins g s (lo, hi)) eq_refl).
        apply add_mapping_ins; [exact Hacc|reflexivity].
Qed.

(* ---- grouping by filtering = inserting one by one *)
Lemma first_labels_fresh : forall ls seen x, In x (first_labels seen ls) -> one_of x seen = false.
Proof.
  induction ls as [|y ls IH]; intros seen x H; simpl in H; [contradiction|].
  destruct (one_of y seen) eqn:E.
  - apply IH. exact H.
  - destruct H as [->|H]; [exact E|].
    apply IH in H. simpl in H. apply orb_false_elim in H. tauto.
Qed.

Lemma first_labels_nodup : forall ls seen, NoDup (first_labels seen ls).
Proof.
  induction ls as [|y ls IH]; intros seen; simpl; [constructor|].
  destruct (one_of y seen) eqn:E; [apply IH|].
  constructor; [|apply IH].
  intros H. apply first_labels_fresh in H. simpl in H. rewrite String.eqb_refl in H. discriminate.
Qed.

Lemma one_of_app : forall x a b, one_of x (a ++ b) = one_of x a || one_of x b.
Proof. intros. unfold one_of. apply existsb_app. Qed.

Lemma first_labels_snoc : forall ls seen l,
  first_labels seen (ls ++ [l]) = first_labels seen ls ++ (if one_of l seen || one_of l ls then [] else [l]).
Proof.
  induction ls as [|y ls IH]; intros seen l; simpl.
  - rewrite orb_false_r. destruct (one_of l seen); reflexivity.
  - destruct (one_of y seen) eqn:E.
    + rewrite IH. f_equal. destruct (one_of l seen) eqn:E2; simpl; [reflexivity|].
      destruct (String.eqb l y) eqn:E3; simpl; [|reflexivity].
      apply String.eqb_eq in E3. subst. congruence.
    + simpl. rewrite IH. simpl. f_equal. f_equal.
      destruct (String.eqb l y); destruct (one_of l seen); destruct (one_of l ls); reflexivity.
Qed.

Lemma first_labels_in : forall ls seen x, In x (first_labels seen ls) -> one_of x ls = true.
Proof.
  induction ls as [|y ls IH]; intros seen x H; simpl in *; [contradiction|].
  destruct (one_of y seen).
  - apply IH in H. rewrite H. apply orb_true_r.
  - destruct H as [->|H]; [now rewrite String.eqb_refl|].
    apply IH in H. rewrite H. apply orb_true_r.
Qed.

Definition ranges_for (rs : list (string * (Z * Z))) (lab : string) : list (Z * Z) :=
  map snd (filter (fun r => String.eqb (fst r) lab) rs).

Lemma ins_absent : forall L (F : string -> list (Z * Z)) l r,
  ~ In l L -> ins (map (fun lab => (lab, F lab)) L) l r = map (fun lab => (lab, F lab)) L ++ [(l, [r])].
Proof.
  induction L as [|x L IH]; intros F l r H; simpl; [reflexivity|].
  destruct (String.eqb x l) eqn:E.
  - apply String.eqb_eq in E. subst. exfalso. apply H. now left.
  - f_equal. apply IH. intros H'. apply H. now right.
Qed.

Lemma ins_present : forall L (F : string -> list (Z * Z)) l r,
  NoDup L -> In l L ->
  ins (map (fun lab => (lab, F lab)) L) l r
  = map (fun lab => (lab, F lab ++ (if String.eqb l lab then [r] else []))) L.
Proof.
  induction L as [|x L IH]; intros F l r Hnd Hin; simpl; [contradiction|].
  inversion Hnd as [|? ? Hx Hnd']; subst.
  destruct (String.eqb x l) eqn:E.
  - apply String.eqb_eq in E. subst x. rewrite String.eqb_refl. f_equal.
    apply map_ext_in. intros a Ha. destruct (String.eqb l a) eqn:E2.
    + apply String.eqb_eq in E2. subst. contradiction.
    + now rewrite app_nil_r.
  - rewrite (String.eqb_sym l x), E, app_nil_r. f_equal.
    apply IH; [exact Hnd'|]. destruct Hin as [->|Hin]; [rewrite String.eqb_refl in E; discriminate|exact Hin].
Qed.

Lemma one_of_In : forall x l, one_of x l = true <-> In x l.
Proof.
  intros x l. unfold one_of. rewrite existsb_exists. split.
  - intros [y [H1 H2]]. apply String.eqb_eq in H2. now subst.
  - intros H. exists x. split; [exact H|apply String.eqb_refl].
Qed.

Lemma group_snoc : forall rs l r, group (rs ++ [(l, r)]) = ins (group rs) l r.
Proof.
  intros rs l r.
  assert (Hg : forall xs, group xs = map (fun lab => (lab, ranges_for xs lab)) (first_labels [] (map fst xs))) by reflexivity.
  rewrite !Hg. rewrite map_app. change (map fst [(l, r)]) with [l]. rewrite first_labels_snoc. change (one_of l []) with false. rewrite orb_false_l.
  assert (Hf : forall lab, ranges_for (rs ++ [(l, r)]) lab = ranges_for rs lab ++ (if String.eqb l lab then [r] else [])).
  { intros lab. unfold ranges_for. rewrite filter_app, map_app. simpl. destruct (String.eqb l lab); reflexivity. }
  destruct (one_of l (map fst rs)) eqn:E.
  - rewrite app_nil_r.
    rewrite ins_present.
    + apply map_ext. intros a. now rewrite Hf.
    + apply first_labels_nodup.
    + (* l is among the first labels *)
      clear -E. assert (G : forall ls seen, one_of l ls = true -> one_of l seen = false -> In l (first_labels seen ls)).
      { induction ls as [|y ls IH]; intros seen H1 H2; simpl in *; [discriminate|].
        destruct (String.eqb l y) eqn:E1.
        - apply String.eqb_eq in E1. subst y. rewrite H2. now left.
        - simpl in H1. destruct (one_of y seen); [apply IH; assumption|].
          right. apply IH; [assumption|]. simpl. now rewrite E1. }
      apply G; [exact E|reflexivity].
  - rewrite map_app. simpl.
    rewrite ins_absent.
    + f_equal.
      * apply map_ext_in. intros a Ha. rewrite Hf.
        destruct (String.eqb l a) eqn:E2; [|now rewrite app_nil_r].
        apply String.eqb_eq in E2. subst a. apply first_labels_in in Ha. congruence.
      * rewrite Hf, String.eqb_refl. unfold ranges_for.
        assert (G : filter (fun r0 : string * (Z * Z) => String.eqb (fst r0) l) rs = []).
        { clear -E. induction rs as [|[a b] rs IH]; simpl in *; [reflexivity|].
          apply orb_false_elim in E. destruct E as [E1 E2]. rewrite String.eqb_sym, E1. now apply IH. }
        rewrite G. reflexivity.
    + intros H. apply first_labels_in in H. congruence.
Qed.

Lemma fold_ins_group : forall xs done,
  fold_left (fun g x => ins g (fst x) (snd x)) xs (group done) = group (done ++ xs).
Proof.
  induction xs as [|[l r] xs IH]; intros done; simpl.
  - now rewrite app_nil_r.
  - rewrite <- group_snoc, IH, <- app_assoc. reflexivity.
Qed.

(* The converter's `mappings` of a well-shaped `members` list, read as barectf 3 says, are the
   ranges the barectf 2 rule gives (Ranges: implicit values continue from the previous member's
   upper bound + 1, starting at 0), grouped by label in order of first appearance. *)
Theorem enum_members_autoinc_thm : forall ms mems,
  omapM member_of ms = Some mems ->
  exists mp, enum_loop ms 0%Z [] = Ok mp
             /\ v3_mappings mp = Some (group (ranges_of mems))
             /\ Ranges None mems (ranges_of mems).
Proof.
  intros ms mems H.
  destruct (enum_loop_ins ms mems 0%Z [] [] H eq_refl) as [mp [H1 H2]].
  exists mp. split; [exact H1|]. split; [|apply ranges_of_spec].
  rewrite H2. change (@nil (string * list (Z * Z))) with (group []).
  rewrite fold_ins_group. simpl. now rewrite ranges_of_loop.
Qed.

(* ================================================================== more OrderedDict algebra *)
Lemma lookup_rename_other : forall k o n l,
  String.eqb k o = false -> String.eqb k n = false -> lookup k (rename o n l) = lookup k l.
Proof. intros k o n l H1 H2. rewrite lookup_rename, H1, H2. destruct (lookup o l); reflexivity. Qed.

Lemma lookup_rename_new : forall o n l,
  String.eqb n o = false ->
  lookup n (rename o n l) = match lookup o l with Some v => Some v | None => lookup n l end.
Proof. intros o n l H. rewrite lookup_rename, H, String.eqb_refl. reflexivity. Qed.

Lemma lookup_rename_old : forall o n l, String.eqb o n = false -> lookup o (rename o n l) = None.
Proof.
  intros o n l H. rewrite lookup_rename, String.eqb_refl.
  destruct (lookup o l) eqn:E; [reflexivity|assumption || reflexivity].
Qed.

Ltac lk :=
  repeat first
    [ rewrite lookup_del
    | rewrite lookup_put
    | rewrite lookup_rename_other by reflexivity
    | rewrite lookup_rename_new by reflexivity
    | rewrite lookup_rename_old by reflexivity
    | rewrite lookup_copy_prop
    | rewrite lookup_app ];
  cbn [String.eqb Ascii.eqb Bool.eqb lookup fst snd].

Definition subset (a b : list string) : bool := forallb (fun k => one_of k b) a.

Lemma one_of_subset : forall a b k, subset a b = true -> one_of k a = true -> one_of k b = true.
Proof.
  intros a b k Hs Hk. apply one_of_In in Hk. unfold subset in Hs. rewrite forallb_forall in Hs.
  apply Hs. exact Hk.
Qed.

Lemma keys_in_weaken : forall W W' l, subset W W' = true -> keys_in W l = true -> keys_in W' l = true.
Proof.
  intros W W' l Hs H. apply keys_in_spec. intros k Hk. eapply keys_in_none; [exact H|].
  destruct (one_of k W) eqn:E; [|reflexivity]. rewrite (one_of_subset _ _ _ Hs E) in Hk. discriminate.
Qed.

Lemma keys_in_del_strong : forall W k l, keys_in (k :: W) l = true -> keys_in W (del k l) = true.
Proof.
  intros W k l H. apply keys_in_spec. intros x Hx. rewrite lookup_del.
  destruct (String.eqb x k) eqn:E; [reflexivity|].
  eapply keys_in_none; [exact H|]. simpl. now rewrite E, Hx.
Qed.

Lemma keys_in_put : forall W k v l, one_of k W = true -> keys_in W l = true -> keys_in W (put k v l) = true.
Proof.
  intros W k v l Hk H. apply keys_in_spec. intros x Hx. rewrite lookup_put.
  destruct (String.eqb x k) eqn:E.
  - apply String.eqb_eq in E. subst. congruence.
  - eapply keys_in_none; eauto.
Qed.

Lemma keys_in_rename : forall W o n l,
  one_of n W = true -> keys_in (o :: W) l = true -> keys_in W (rename o n l) = true.
Proof.
  intros W o n l Hn H. apply keys_in_spec. intros x Hx. rewrite lookup_rename.
  assert (Hxn : String.eqb x n = false).
  { destruct (String.eqb x n) eqn:E; [|reflexivity]. apply String.eqb_eq in E. subst. congruence. }
  destruct (String.eqb x o) eqn:Exo.
  - destruct (lookup o l) eqn:El; [reflexivity|]. apply String.eqb_eq in Exo. now subst.
  - assert (lookup x l = None). { eapply keys_in_none; [exact H|]. simpl. now rewrite Exo, Hx. }
    rewrite Hxn. destruct (lookup o l); assumption.
Qed.

Lemma keys_in_copy_prop : forall W dst src sk dk,
  one_of dk W = true -> keys_in W dst = true -> keys_in W (copy_prop dst src sk dk) = true.
Proof. intros. unfold copy_prop. destruct (lookup sk src); [now apply keys_in_put|assumption]. Qed.

Lemma keys_in_app : forall W a b, keys_in W a = true -> keys_in W b = true -> keys_in W (a ++ b) = true.
Proof. intros W a b Ha Hb. unfold keys_in, keys in *. now rewrite map_app, forallb_app, Ha, Hb. Qed.

Ltac kin :=
  first
    [ reflexivity
    | (eapply keys_in_weaken; [|eassumption]; reflexivity)
    | (apply keys_in_del_strong; kin)
    | (apply keys_in_put; [reflexivity|kin])
    | (apply keys_in_rename; [reflexivity|kin])
    | (apply keys_in_copy_prop; [reflexivity|kin])
    | (apply keys_in_app; kin) ].

(* readers only depend on the looked-up value *)
Lemma opt_of_ext : forall k l k' l', lookup k l = lookup k' l' -> opt_of k l = opt_of k' l'.
Proof. intros. unfold opt_of. now rewrite H. Qed.
Lemma rd_z_ext : forall k l k' l', lookup k l = lookup k' l' -> rd_z k l = rd_z k' l'.
Proof. intros. unfold rd_z. now rewrite (opt_of_ext _ _ _ _ H). Qed.
Lemma rd_b_ext : forall k l k' l', lookup k l = lookup k' l' -> rd_b k l = rd_b k' l'.
Proof. intros. unfold rd_b. now rewrite (opt_of_ext _ _ _ _ H). Qed.
Lemma rd_s_ext : forall k l k' l', lookup k l = lookup k' l' -> rd_s k l = rd_s k' l'.
Proof. intros. unfold rd_s. now rewrite (opt_of_ext _ _ _ _ H). Qed.
Lemma rd_base_ext : forall k l k' l', lookup k l = lookup k' l' -> rd_base k l = rd_base k' l'.
Proof. intros. unfold rd_base. now rewrite (opt_of_ext _ _ _ _ H). Qed.

Lemma obind_some : forall {A B} (o : option A) (f : A -> option B) b,
  obind o f = Some b -> exists a, o = Some a /\ f a = Some b.
Proof. intros A B [a|] f b H; [eauto|discriminate]. Qed.

Ltac inv_obind H :=
  let a := fresh "a" in let H1 := fresh "E" in
  apply obind_some in H; destruct H as [a [H1 H]].

(* ================================================================== integers *)
Definition erase_attrs (a : int_attrs) : int_attrs :=
  match a with (sz, sg, al, b, _) => (sz, sg, al, b, None) end.

Definition v3_int_keys := ["class"; "size"; "alignment"; "preferred-display-base"].

Lemma conv_int_class : forall l,
  lookup "class" (conv_int l)
  = Some (YStr (match lookup "signed" l with Some (YBool true) => "sint" | _ => "uint" end)).
Proof. intros l. unfold conv_int. lk. reflexivity. Qed.

Lemma conv_int_size : forall l, lookup "size" (conv_int l) = lookup "size" l.
Proof. intros l. unfold conv_int. lk. reflexivity. Qed.

Lemma conv_int_alignment : forall l, keys_in v2_int_keys l = true ->
  lookup "alignment" (conv_int l) = lookup "align" l.
Proof.
  intros l H. unfold conv_int. lk.
  rewrite (keys_in_none _ _ "alignment" H eq_refl). destruct (lookup "align" l); reflexivity.
Qed.

Lemma conv_int_base : forall l, keys_in v2_int_keys l = true ->
  lookup "preferred-display-base" (conv_int l) = lookup "base" l.
Proof.
  intros l H. unfold conv_int. lk.
  rewrite (keys_in_none _ _ "preferred-display-base" H eq_refl). destruct (lookup "base" l); reflexivity.
Qed.

Lemma conv_int_keys : forall l, keys_in v2_int_keys l = true -> keys_in v3_int_keys (conv_int l) = true.
Proof. intros l H. unfold conv_int. kin. Qed.

(* An integer field type: the converter's node read as barectf 3 says = the barectf 2 node read as
   barectf 2 says, minus the clock mapping (which barectf 3 cannot carry in a field type). *)
Lemma int_equiv : forall l a,
  v2_int l = Some a ->
  exists c, lookup "class" (conv_int l) = Some (YStr c)
            /\ (c = "uint" \/ c = "sint")
            /\ keys_in v3_int_keys (conv_int l) = true
            /\ v3_int_attrs (String.eqb c "sint") (conv_int l) = Some (erase_attrs a).
Proof.
  intros l a H. unfold v2_int in H.
  destruct (keys_in v2_int_keys l) eqn:Hk; [|discriminate]. cbn [negb] in H.
  destruct (lookup "class" l) as [[| | | |c| |]|] eqn:Ec; try discriminate.
  destruct (negb (one_of c ["int"; "integer"])); [discriminate|].
  destruct (lookup "size" l) as [[| |sz| | | |]|] eqn:Es; try discriminate.
  inv_obind H. inv_obind H. inv_obind H. inv_obind H. inversion H; subst a. clear H.
  rename a0 into sg, a1 into al, a2 into b, a3 into ck.
  rewrite conv_int_class.
  assert (Hsg : (match lookup "signed" l with Some (YBool true) => "sint" | _ => "uint" end)
                = if (match sg with Some true => true | _ => false end) then "sint" else "uint").
  { unfold rd_b, opt_of in E. destruct (lookup "signed" l) as [[|[|]| | | | |]|]; inversion E; reflexivity. }
  rewrite Hsg.
  eexists. split; [reflexivity|]. split; [destruct (match sg with Some true => true | _ => false end); auto|].
  split; [now apply conv_int_keys|].
  unfold v3_int_attrs. rewrite conv_int_size, Es.
  rewrite (rd_z_ext _ _ _ _ (conv_int_alignment l Hk)), E0. simpl.
  rewrite (rd_base_ext _ _ _ _ (conv_int_base l Hk)), E1. simpl.
  destruct (match sg with Some true => true | _ => false end); reflexivity.
Qed.


(* ================================================================== field types, all nesting depths *)
Lemma klookup_kids : forall (g : yaml -> kid) k l,
  klookup k (map (fun kv => (fst kv, g (snd kv))) l) = option_map g (lookup k l).
Proof.
  intros g k l. induction l as [|kv l IH]; simpl; [reflexivity|].
  destruct (String.eqb (fst kv) k); [reflexivity|exact IH].
Qed.

Lemma conv_ft_map : forall l,
  conv_ft (YMap l) = conv_node l (map (fun kv => (fst kv, conv_cata (snd kv))) l).
Proof. reflexivity. Qed.

Lemma conv_cata_snd : forall fl, snd (conv_cata (YMap fl)) = map (fun kv => (fst kv, conv_ft (snd kv))) fl.
Proof. intros. simpl. rewrite map_map. reflexivity. Qed.

Lemma one_of_2 : forall c a b, one_of c [a; b] = true -> c = a \/ c = b.
Proof.
  intros c a b H. unfold one_of in H. simpl in H.
  destruct (String.eqb c a) eqn:E1; [left; now apply String.eqb_eq|].
  destruct (String.eqb c b) eqn:E2; [right; now apply String.eqb_eq|discriminate].
Qed.

Lemma v3_int_attrs_ext : forall sg l l',
  lookup "size" l = lookup "size" l' -> lookup "alignment" l = lookup "alignment" l' ->
  lookup "preferred-display-base" l = lookup "preferred-display-base" l' ->
  v3_int_attrs sg l = v3_int_attrs sg l'.
Proof.
  intros sg l l' H1 H2 H3. unfold v3_int_attrs.
  now rewrite H1, (rd_z_ext _ _ _ _ H2), (rd_base_ext _ _ _ _ H3).
Qed.

Lemma keys_in_drop : forall W k l, keys_in (k :: W) l = true -> mem k (keys l) = false -> keys_in W l = true.
Proof.
  intros W k l H Hm. apply keys_in_spec. intros x Hx.
  destruct (String.eqb x k) eqn:E.
  - apply String.eqb_eq in E. subst. rewrite mem_keys in Hm. destruct (lookup k l); [discriminate|reflexivity].
  - eapply keys_in_none; [exact H|]. simpl. now rewrite E, Hx.
Qed.

Lemma class_of_lookup : forall l c, class_of l = Some c <-> lookup "class" l = Some (YStr c).
Proof.
  intros l c. unfold class_of. split; intros H.
  - destruct (lookup "class" l) as [[| | | |s| |]|]; inversion H; reflexivity.
  - now rewrite H.
Qed.

Ltac ev := cbn [one_of existsb orb String.eqb Ascii.eqb Bool.eqb negb obind option_map].

(* ---- how the barectf 3 reading recognises each kind of node *)
Lemma v3_ft_int : forall n l c a,
  class_of l = Some c -> (c = "uint" \/ c = "sint") -> keys_in v3_int_keys l = true ->
  v3_int_attrs (String.eqb c "sint") l = Some a -> v3_ft (S n) (YMap l) = Some (mk_int a).
Proof.
  intros n l c a H1 H2 H3 H4. unfold v3_int_keys in H3. cbn [v3_ft]. rewrite H1. cbn [obind].
  destruct H2; subst c; ev; rewrite H3; ev; cbn [String.eqb Ascii.eqb Bool.eqb] in H4; rewrite H4; reflexivity.
Qed.

Lemma v3_ft_enum : forall n l c a mp r,
  class_of l = Some c -> (c = "uenum" \/ c = "senum") ->
  keys_in ["class"; "size"; "alignment"; "preferred-display-base"; "mappings"] l = true ->
  lookup "mappings" l = Some (YMap mp) ->
  v3_int_attrs (String.eqb c "senum") l = Some a -> v3_mappings mp = Some r ->
  v3_ft (S n) (YMap l) = Some (mk_enum a r).
Proof.
  intros n l c a mp r H1 H2 H3 H4 H5 H6. cbn [v3_ft]. rewrite H1. cbn [obind].
  destruct H2; subst c; ev; rewrite H3; ev; rewrite H4; cbn [String.eqb Ascii.eqb Bool.eqb] in H5; rewrite H5; ev;
    rewrite H6; reflexivity.
Qed.

Lemma v3_ft_real : forall n l sz al,
  class_of l = Some "real" -> keys_in ["class"; "size"; "alignment"] l = true ->
  lookup "size" l = Some (YInt sz) -> rd_z "alignment" l = Some al ->
  v3_ft (S n) (YMap l) = Some (FReal sz al).
Proof.
  intros n l sz al H1 H2 H3 H4. cbn [v3_ft]. rewrite H1. ev. rewrite H2. ev. rewrite H3, H4. reflexivity.
Qed.

Lemma v3_ft_str : forall n l c,
  class_of l = Some c -> (c = "str" \/ c = "string") -> keys_in ["class"] l = true ->
  v3_ft (S n) (YMap l) = Some FStr.
Proof.
  intros n l c H1 H2 H3. cbn [v3_ft]. rewrite H1. cbn [obind].
  destruct H2; subst c; ev; rewrite H3; reflexivity.
Qed.

Lemma v3_ft_struct : forall n l c ma ms,
  class_of l = Some c -> (c = "struct" \/ c = "structure") ->
  keys_in ["class"; "minimum-alignment"; "members"] l = true ->
  rd_z "minimum-alignment" l = Some ma ->
  ((opt_of "members" l = None /\ ms = []) \/
   (exists items, opt_of "members" l = Some (YSeq items) /\ omapM (v3_member (v3_ft n)) items = Some ms)) ->
  v3_ft (S n) (YMap l) = Some (FStruct ma ms).
Proof.
  intros n l c ma ms H1 H2 H3 H4 H5. cbn [v3_ft]. rewrite H1. cbn [obind].
  destruct H2; subst c; ev; rewrite H3; ev; rewrite H4; ev;
    (destruct H5 as [[H5 ->]|[items [H5 H6]]]; rewrite H5; [reflexivity|rewrite H6; reflexivity]).
Qed.

Definition erase_member (m : string * ft) : string * ft := (fst m, erase_clk (snd m)).

(* the members of a structure, given the statement for every member's type *)
Lemma fields_equiv : forall n fl fs,
  (forall y f, v2_ft n y = Some f -> ft_conv_ok n y = true ->
               exists y', conv_ft y = Ok y' /\ v3_ft n y' = Some (erase_clk f)) ->
  omapM (fun kv => option_map (pair (fst kv)) (v2_ft n (snd kv))) fl = Some fs ->
  forallb (fun kv => ft_conv_ok n (snd kv)) fl = true ->
  exists ms, seq_fields (map (fun kv => (fst kv, conv_ft (snd kv))) fl) = Ok ms
             /\ omapM (v3_member (v3_ft n)) ms = Some (map erase_member fs).
Proof.
  intros n fl. induction fl as [|[name t] fl IHl]; intros fs IH Hm Hok; simpl in *.
  - inversion Hm; subst. exists []. split; reflexivity.
  - apply andb_prop in Hok. destruct Hok as [Hok1 Hok2].
    destruct (v2_ft n t) as [f|] eqn:Ef; simpl in Hm; [|discriminate].
    destruct (omapM (fun kv => option_map (pair (fst kv)) (v2_ft n (snd kv))) fl) as [fs'|] eqn:Efs; simpl in Hm; [|discriminate].
    inversion Hm; subst fs. clear Hm.
    destruct (IH t f Ef Hok1) as [t' [Ht1 Ht2]].
    destruct (IHl fs' IH eq_refl Hok2) as [ms [Hms1 Hms2]].
    rewrite Ht1. simpl. rewrite Hms1. simpl.
    eexists. split; [reflexivity|]. simpl. rewrite Ht2. simpl. rewrite Hms2. reflexivity.
Qed.

Lemma conv_ft_int_node : forall vl a, v2_int vl = Some a -> conv_ft (YMap vl) = Ok (YMap (conv_int vl)).
Proof.
  intros vl a E. rewrite conv_ft_map. unfold conv_node.
  unfold v2_int in E. destruct (negb (keys_in v2_int_keys vl)); [discriminate|].
  destruct (lookup "class" vl) as [[| | | |cv| |]|]; try discriminate.
  unfold in_list, int_classes. fold (one_of cv ["int"; "integer"]).
  destruct (one_of cv ["int"; "integer"]); [reflexivity|discriminate].
Qed.

Lemma erase_mk_int : forall a, erase_clk (mk_int a) = mk_int (erase_attrs a).
Proof. intros [[[[sz sg] al] b] ck]. reflexivity. Qed.
Lemma erase_mk_enum : forall a r, erase_clk (mk_enum a r) = mk_enum (erase_attrs a) r.
Proof. intros [[[[sz sg] al] b] ck] r. reflexivity. Qed.

Lemma real_size_cases : forall (oe om : option yaml) al f,
  match oe, om with
  | Some (YInt 8), Some (YInt 24) => Some (FReal 32 al)
  | Some (YInt 11), Some (YInt 53) => Some (FReal 64 al)
  | _, _ => None
  end = Some f ->
  exists e m, oe = Some (YInt e) /\ om = Some (YInt m) /\ f = FReal (e + m) al.
Proof.
  intros oe om al f H.
  destruct oe as [[| |e| | | |]|]; try discriminate.
  destruct e as [|p|p]; try discriminate.
  repeat (destruct p as [p|p|]; try discriminate).
  - destruct om as [[| |m| | | |]|]; try discriminate.
    destruct m as [|p|p]; try discriminate.
    repeat (destruct p as [p|p|]; try discriminate).
    inversion H. eexists. eexists. repeat split.
  - destruct om as [[| |m| | | |]|]; try discriminate.
    destruct m as [|p|p]; try discriminate.
    repeat (destruct p as [p|p|]; try discriminate).
    inversion H. eexists. eexists. repeat split.
Qed.

Theorem ft_equiv : forall fuel y f,
  v2_ft fuel y = Some f -> ft_conv_ok fuel y = true ->
  exists y', conv_ft y = Ok y' /\ v3_ft fuel y' = Some (erase_clk f).
Proof.
  induction fuel as [|n IH]; intros y f H Hok; [discriminate|].
  destruct y as [| | | | | |l]; try discriminate.
  cbn [v2_ft] in H. cbn [ft_conv_ok] in Hok.
  destruct (class_of l) as [c|] eqn:Ec; [|discriminate]. cbn [obind] in H.
  pose proof (proj1 (class_of_lookup l c) Ec) as Hcl.
  rewrite conv_ft_map. unfold conv_node. rewrite Hcl. unfold in_list, int_classes, enum_classes, real_classes,
    string_classes, array_classes, struct_classes.
  fold (one_of c ["int"; "integer"]). fold (one_of c ["enum"; "enumeration"]).
  fold (one_of c ["flt"; "float"; "floating-point"]). fold (one_of c ["str"; "string"]).
  fold (one_of c ["array"]). fold (one_of c ["struct"; "structure"]).
  destruct (one_of c ["int"; "integer"]) eqn:C1.
  { (* integer *)
    destruct (v2_int l) as [a|] eqn:Ea; [|discriminate]. inversion H; subst f. clear H.
    destruct (int_equiv l a Ea) as [c' [K1 [K2 [K3 K4]]]].
    eexists. split; [reflexivity|]. rewrite erase_mk_int.
    eapply v3_ft_int; eauto. now apply class_of_lookup. }
  destruct (one_of c ["enum"; "enumeration"]) eqn:C2.
  { (* enumeration *)
    destruct (negb (keys_in ["class"; "value-type"; "members"] l)); [discriminate|].
    destruct (lookup "value-type" l) as [[| | | | | |vl]|] eqn:Ev; try discriminate.
    destruct (lookup "members" l) as [[| | | | |ms|]|] eqn:Em; try discriminate.
    inv_obind H. inv_obind H. inversion H; subst f. clear H. rename a into ia, a0 into mems.
    destruct (int_equiv vl ia E) as [c' [K1 [K2 [K3 K4]]]].
    destruct (enum_members_autoinc_thm ms mems E0) as [mp [M1 [M2 _]]].
    unfold conv_enum. rewrite klookup_kids, Ev. cbn [option_map].
    pose proof (conv_ft_int_node vl ia E) as Hvt. unfold conv_ft in Hvt.
    destruct (conv_cata (YMap vl)) as [rv kv]. cbn [fst] in Hvt. subst rv. cbn [rbind].
    unfold getn. rewrite Em. rewrite M1. cbn [rbind]. rewrite K1.
    eexists. split; [reflexivity|]. rewrite erase_mk_enum.
    set (cls := match c' with "sint" => "senum" | _ => "uenum" end).
    assert (Hcls : (cls = "uenum" \/ cls = "senum") /\ String.eqb cls "senum" = String.eqb c' "sint").
    { destruct K2; subst c' cls; cbn; auto. }
    destruct Hcls as [Hc1 Hc2].
    eapply v3_ft_enum with (c := cls) (mp := mp).
    - apply class_of_lookup. lk. reflexivity.
    - exact Hc1.
    - unfold v3_int_keys in K3. kin.
    - lk. reflexivity.
    - rewrite Hc2, <- K4. apply v3_int_attrs_ext; lk; reflexivity.
    - exact M2. }
  destruct (one_of c ["flt"; "float"; "floating-point"]) eqn:C3.
  { (* real *)
    destruct (keys_in ["class"; "size"; "align"; "byte-order"] l) eqn:Hk; [|discriminate]. cbn [negb] in H.
    destruct (lookup "size" l) as [[| | | | | |sl]|] eqn:Es; try discriminate.
    inv_obind H. rename a into al.
    apply negb_true_iff in Hok.
    assert (Hk' : keys_in ["byte-order"; "class"; "size"; "align"] l = true) by kin.
    apply keys_in_drop in Hk'; [|exact Hok].
    unfold conv_real.
    assert (Hsz : lookup "size" (rename "align" "alignment" (put "class" (YStr "real") l)) = Some (YMap sl)).
    { lk. exact Es. }
    rewrite Hsz.
    assert (Hres : forall e m,
               v3_ft (S n) (YMap (put "size" (YInt (e + m)) (rename "align" "alignment" (put "class" (YStr "real") l))))
               = Some (FReal (e + m) al)).
    { intros e m. apply v3_ft_real.
      - apply class_of_lookup. lk. reflexivity.
      - kin.
      - lk. reflexivity.
      - rewrite <- E. apply rd_z_ext. lk.
        rewrite (keys_in_none _ _ "alignment" Hk' eq_refl). destruct (lookup "align" l); reflexivity. }
    destruct (real_size_cases _ _ _ _ H) as [e [m [He [Hm ->]]]]. rewrite He, Hm.
    eexists. split; [reflexivity|]. apply Hres. }
  destruct (one_of c ["str"; "string"]) eqn:C4.
  { (* string *)
    destruct (keys_in ["class"; "encoding"] l) eqn:Hk; [|discriminate]. inversion H; subst f. clear H.
    eexists. split; [reflexivity|]. unfold conv_string.
    eapply v3_ft_str with (c := c).
    - apply class_of_lookup. lk. exact Hcl.
    - now apply one_of_2.
    - kin. }
  destruct (one_of c ["array"]) eqn:C5.
  { (* array *)
    assert (c = "array") as ->.
    { unfold one_of in C5. simpl in C5. rewrite orb_false_r in C5. now apply String.eqb_eq. }
    cbn [String.eqb Ascii.eqb Bool.eqb] in H, Hok.
    destruct (negb (keys_in ["class"; "length"; "element-type"] l)); [discriminate|].
    destruct (lookup "element-type" l) as [e|] eqn:Ee; [|discriminate].
    unfold conv_array. rewrite klookup_kids, Ee. cbn [option_map].
    change (fst (conv_cata e)) with (conv_ft e).
    destruct (lookup "length" l) as [[| |len| |s| |]|] eqn:El; try discriminate.
    - destruct (v2_ft n e) as [fe|] eqn:Efe; [|discriminate]. inversion H; subst f. clear H.
      destruct (IH e fe Efe Hok) as [e' [R1 R2]].
      unfold conv_ft in R1. destruct (conv_cata e) as [re ke]. cbn [fst] in R1. subst re.
      cbn. eexists. split; [reflexivity|]. cbn [v3_ft]. cbn. rewrite R2. reflexivity.
    - destruct (String.eqb s "dynamic") eqn:Es; [|destruct s as [|[[|] [|] [|] [|] [|] [|] [|] [|]] s]; discriminate].
      apply String.eqb_eq in Es. subst s.
      destruct (v2_ft n e) as [fe|] eqn:Efe; [|discriminate]. inversion H; subst f. clear H.
      destruct (IH e fe Efe Hok) as [e' [R1 R2]].
      unfold conv_ft in R1. destruct (conv_cata e) as [re ke]. cbn [fst] in R1. subst re.
      cbn. eexists. split; [reflexivity|]. cbn [v3_ft]. cbn. rewrite R2. reflexivity. }
  destruct (one_of c ["struct"; "structure"]) eqn:C6; [|discriminate].
  { (* structure *)
    destruct (keys_in ["class"; "min-align"; "fields"] l) eqn:Hk; [|discriminate]. cbn [negb] in H.
    inv_obind H. rename a into ma.
    unfold conv_struct.
    set (n0 := copy_prop [("class", YStr c)] l "min-align" "minimum-alignment").
    assert (Hn0c : lookup "class" n0 = Some (YStr c)).
    { unfold n0. lk. destruct (lookup "min-align" l); reflexivity. }
    assert (Hn0k : keys_in ["class"; "minimum-alignment"; "members"] n0 = true) by (unfold n0; kin).
    assert (Hn0m : lookup "members" n0 = None).
    { unfold n0. lk. destruct (lookup "min-align" l); reflexivity. }
    assert (Hn0a : lookup "minimum-alignment" n0 = lookup "min-align" l).
    { unfold n0. lk. destruct (lookup "min-align" l); reflexivity. }
    unfold opt_of in H.
    destruct (lookup "fields" l) as [[| | | | | |fl]|] eqn:Ef; try discriminate.
    - (* a mapping of fields *)
      destruct (omapM (fun kv => option_map (pair (fst kv)) (v2_ft n (snd kv))) fl) as [fs|] eqn:Efs; [|discriminate].
      inversion H; subst f. clear H.
      rewrite klookup_kids, Ef. cbn [option_map]. rewrite conv_cata_snd.
      destruct (conv_cata (YMap fl)) as [rf kf] eqn:Ecf.
      assert (kf = map (fun kv => (fst kv, conv_ft (snd kv))) fl) as ->.
      { rewrite <- conv_cata_snd, Ecf. reflexivity. }
      destruct (fields_equiv n fl fs IH Efs Hok) as [ms [S1 S2]].
      rewrite S1. cbn [rbind].
      eexists. split; [reflexivity|]. cbn [erase_clk]. fold erase_member.
      eapply v3_ft_struct with (c := c).
      + apply class_of_lookup. rewrite lookup_app, Hn0c. reflexivity.
      + now apply one_of_2.
      + kin.
      + rewrite <- E. apply rd_z_ext. rewrite lookup_app, Hn0a. destruct (lookup "min-align" l); reflexivity.
      + right. exists ms. split; [|exact S2]. unfold opt_of. rewrite lookup_app, Hn0m. reflexivity.
    - (* no `fields` *)
      inversion H; subst f. clear H.
      eexists. split; [reflexivity|]. cbn [erase_clk map].
      eapply v3_ft_struct with (c := c).
      + now apply class_of_lookup.
      + now apply one_of_2.
      + exact Hn0k.
      + rewrite <- E. apply rd_z_ext. exact Hn0a.
      + left. split; [|reflexivity]. unfold opt_of. now rewrite Hn0m. }
Qed.
