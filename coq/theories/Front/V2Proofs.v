(* C18 — proofs about the barectf 2 -> barectf 3 conversion model (V2Conv.v). *)
From Coq Require Import List String ZArith Bool Ascii Lia.
Import ListNotations.
From BT.Front Require Import Yaml YamlRes V2Conv V2Sem.
Open Scope string_scope.
Open Scope list_scope.

(* ================================================================== witnesses (replayed by harness/props/c18_probes.py) *)
Definition w_real_byte_order : yaml := (YMap [("version", (YStr "2.2")); ("metadata", (YMap [("trace", (YMap [("byte-order", (YStr "le"))])); ("streams", (YMap [("s", (YMap [("packet-context-type", (YMap [("class", (YStr "struct")); ("fields", (YMap [("packet_size", (YMap [("class", (YStr "int")); ("size", (YInt (32)%Z))])); ("content_size", (YMap [("class", (YStr "int")); ("size", (YInt (32)%Z))]))]))])); ("events", (YMap [("e", (YMap [("payload-type", (YMap [("class", (YStr "struct")); ("fields", (YMap [("x", (YMap [("class", (YStr "float")); ("size", (YMap [("exp", (YInt (8)%Z)); ("mant", (YInt (24)%Z))])); ("byte-order", (YStr "le"))]))]))]))]))]))]))]))]))]).
Definition w_fields_null : yaml := (YMap [("version", (YStr "2.2")); ("metadata", (YMap [("trace", (YMap [("byte-order", (YStr "le"))])); ("streams", (YMap [("s", (YMap [("packet-context-type", (YMap [("class", (YStr "struct")); ("fields", (YMap [("packet_size", (YMap [("class", (YStr "int")); ("size", (YInt (32)%Z))])); ("content_size", (YMap [("class", (YStr "int")); ("size", (YInt (32)%Z))]))]))])); ("event-header-type", (YMap [("class", (YStr "struct")); ("fields", (YMap [("id", (YMap [("class", (YStr "int")); ("size", (YInt (8)%Z))]))]))])); ("events", (YMap [("e", (YMap [("payload-type", (YMap [("class", (YStr "struct")); ("fields", YNull)]))]))]))]))]))]))]).
Definition w_seq_num : yaml := (YMap [("version", (YStr "2.2")); ("metadata", (YMap [("trace", (YMap [("byte-order", (YStr "le"))])); ("streams", (YMap [("s", (YMap [("packet-context-type", (YMap [("class", (YStr "struct")); ("fields", (YMap [("packet_size", (YMap [("class", (YStr "int")); ("size", (YInt (32)%Z))])); ("content_size", (YMap [("class", (YStr "int")); ("size", (YInt (32)%Z))])); ("packet_seq_num", (YMap [("class", (YStr "int")); ("size", (YInt (16)%Z))]))]))])); ("events", (YMap [("e", (YMap [("payload-type", (YMap [("class", (YStr "struct")); ("fields", (YMap [("x", (YMap [("class", (YStr "int")); ("size", (YInt (8)%Z))]))]))]))]))]))]))]))]))]).
Definition w_mixed_clocks : yaml := (YMap [("version", (YStr "2.2")); ("metadata", (YMap [("clocks", (YMap [("A", (YMap [("freq", (YInt (1000)%Z))])); ("B", (YMap [("freq", (YInt (1000)%Z))]))])); ("trace", (YMap [("byte-order", (YStr "le"))])); ("streams", (YMap [("s", (YMap [("packet-context-type", (YMap [("class", (YStr "struct")); ("fields", (YMap [("packet_size", (YMap [("class", (YStr "int")); ("size", (YInt (32)%Z))])); ("content_size", (YMap [("class", (YStr "int")); ("size", (YInt (32)%Z))])); ("timestamp_begin", (YMap [("class", (YStr "int")); ("size", (YInt (64)%Z)); ("property-mappings", (YSeq [(YMap [("type", (YStr "clock")); ("name", (YStr "B")); ("property", (YStr "value"))])]))])); ("timestamp_end", (YMap [("class", (YStr "int")); ("size", (YInt (64)%Z)); ("property-mappings", (YSeq [(YMap [("type", (YStr "clock")); ("name", (YStr "B")); ("property", (YStr "value"))])]))]))]))])); ("event-header-type", (YMap [("class", (YStr "struct")); ("fields", (YMap [("timestamp", (YMap [("class", (YStr "int")); ("size", (YInt (64)%Z)); ("property-mappings", (YSeq [(YMap [("type", (YStr "clock")); ("name", (YStr "A")); ("property", (YStr "value"))])]))]))]))])); ("events", (YMap [("e", (YMap [("payload-type", (YMap [("class", (YStr "struct")); ("fields", (YMap [("x", (YMap [("class", (YStr "int")); ("size", (YInt (8)%Z))]))]))]))]))]))]))]))]))]).
Definition w_header_members : yaml := (YMap [("version", (YStr "2.2")); ("metadata", (YMap [("trace", (YMap [("byte-order", (YStr "le")); ("packet-header-type", (YMap [("class", (YStr "struct")); ("fields", (YMap [("magic", (YMap [("class", (YStr "int")); ("size", (YInt (32)%Z))])); ("stream_instance_id", (YMap [("class", (YStr "int")); ("size", (YInt (8)%Z))]))]))]))])); ("streams", (YMap [("s", (YMap [("packet-context-type", (YMap [("class", (YStr "struct")); ("fields", (YMap [("packet_size", (YMap [("class", (YStr "int")); ("size", (YInt (32)%Z))])); ("content_size", (YMap [("class", (YStr "int")); ("size", (YInt (32)%Z))]))]))])); ("event-header-type", (YMap [("class", (YStr "struct")); ("fields", (YMap [("cpu", (YMap [("class", (YStr "int")); ("size", (YInt (8)%Z))]))]))])); ("events", (YMap [("e", (YMap [("payload-type", (YMap [("class", (YStr "struct")); ("fields", (YMap [("x", (YMap [("class", (YStr "int")); ("size", (YInt (8)%Z))]))]))]))]))]))]))]))]))]).
Definition w_payload_mapping : yaml := (YMap [("version", (YStr "2.2")); ("metadata", (YMap [("clocks", (YMap [("A", (YMap [("freq", (YInt (1000)%Z))]))])); ("trace", (YMap [("byte-order", (YStr "le"))])); ("streams", (YMap [("s", (YMap [("packet-context-type", (YMap [("class", (YStr "struct")); ("fields", (YMap [("packet_size", (YMap [("class", (YStr "int")); ("size", (YInt (32)%Z))])); ("content_size", (YMap [("class", (YStr "int")); ("size", (YInt (32)%Z))]))]))])); ("events", (YMap [("e", (YMap [("payload-type", (YMap [("class", (YStr "struct")); ("fields", (YMap [("x", (YMap [("class", (YStr "int")); ("size", (YInt (64)%Z)); ("property-mappings", (YSeq [(YMap [("type", (YStr "clock")); ("name", (YStr "A")); ("property", (YStr "value"))])]))]))]))]))]))]))]))]))]))]).

(* regression input: header structures without `fields` (fixed by /repo 616725c) *)
Definition w_header_no_fields : yaml := (YMap [("version", (YStr "2.2")); ("metadata", (YMap [("trace", (YMap [("byte-order", (YStr "le")); ("packet-header-type", (YMap [("class", (YStr "struct"))]))])); ("streams", (YMap [("s", (YMap [("packet-context-type", (YMap [("class", (YStr "struct")); ("fields", (YMap [("packet_size", (YMap [("class", (YStr "int")); ("size", (YInt (32)%Z))])); ("content_size", (YMap [("class", (YStr "int")); ("size", (YInt (32)%Z))]))]))])); ("event-header-type", (YMap [("class", (YStr "struct"))])); ("events", (YMap [("e", (YMap [("payload-type", (YMap [("class", (YStr "struct")); ("fields", (YMap [("x", (YMap [("class", (YStr "int")); ("size", (YInt (8)%Z))]))]))]))]))]))]))]))]))]).

(* the non-vacuity example of Props/C18.v (harness/props/c18_probes.py example_tree, loaded by the real barectf on every run) *)
Definition ex_valid_doc : yaml := (YMap [("version", (YStr "2.1")); ("prefix", (YStr "my_tr__")); ("options", (YMap [("gen-prefix-def", (YBool true))])); ("metadata", (YMap [("$log-levels", (YMap [("WARN", (YInt (4)%Z))])); ("env", (YMap [("host", (YStr "h1")); ("n", (YInt (3)%Z))])); ("clocks", (YMap [("sys", (YMap [("freq", (YInt (1000000)%Z)); ("error-cycles", (YInt (2)%Z)); ("offset", (YMap [("seconds", (YInt (5)%Z))])); ("absolute", (YBool false)); ("$return-ctype", (YStr "unsigned long"))])); ("other", (YMap [("description", (YStr "unused")); ("return-ctype", YNull)]))])); ("trace", (YMap [("byte-order", (YStr "be")); ("uuid", (YStr "01234567-89ab-cdef-0123-456789abcdef")); ("packet-header-type", (YMap [("class", (YStr "struct")); ("fields", (YMap [("magic", (YMap [("class", (YStr "int")); ("size", (YInt (32)%Z))])); ("uuid", (YMap [("class", (YStr "array")); ("length", (YInt (16)%Z)); ("element-type", (YMap [("class", (YStr "int")); ("size", (YInt (8)%Z))]))])); ("stream_id", (YMap [("class", (YStr "int")); ("size", (YInt (8)%Z))]))]))]))])); ("$default-stream", (YStr "second")); ("streams", (YMap [("first", (YMap [("packet-context-type", (YMap [("class", (YStr "struct")); ("fields", (YMap [("timestamp_begin", (YMap [("class", (YStr "int")); ("size", (YInt (64)%Z)); ("signed", (YBool false)); ("property-mappings", (YSeq [(YMap [("type", (YStr "clock")); ("name", (YStr "sys")); ("property", (YStr "value"))])]))])); ("packet_size", (YMap [("class", (YStr "int")); ("size", (YInt (32)%Z))])); ("content_size", (YMap [("class", (YStr "int")); ("size", (YInt (32)%Z))])); ("my_extra", (YMap [("class", (YStr "int")); ("size", (YInt (5)%Z)); ("signed", YNull)])); ("timestamp_end", (YMap [("class", (YStr "int")); ("size", (YInt (64)%Z)); ("signed", (YBool false)); ("property-mappings", (YSeq [(YMap [("type", (YStr "clock")); ("name", (YStr "sys")); ("property", (YStr "value"))])]))])); ("events_discarded", (YMap [("class", (YStr "int")); ("size", (YInt (16)%Z))]))]))])); ("event-header-type", (YMap [("class", (YStr "struct")); ("fields", (YMap [("timestamp", (YMap [("class", (YStr "int")); ("size", (YInt (32)%Z)); ("signed", (YBool false)); ("property-mappings", (YSeq [(YMap [("type", (YStr "clock")); ("name", (YStr "sys")); ("property", (YStr "value"))])]))])); ("id", (YMap [("class", (YStr "int")); ("size", (YInt (8)%Z))]))]))])); ("event-context-type", (YMap [("class", (YStr "struct")); ("fields", (YMap [("cpu", (YMap [("class", (YStr "int")); ("size", (YInt (8)%Z))]))]))])); ("events", (YMap [("ev1", (YMap [("log-level", (YStr "WARN")); ("payload-type", (YMap [("class", (YStr "struct")); ("min-align", (YInt (16)%Z)); ("fields", (YMap [("e", (YMap [("class", (YStr "enum")); ("value-type", (YMap [("class", (YStr "int")); ("size", (YInt (8)%Z)); ("signed", (YBool true)); ("align", (YInt (8)%Z)); ("base", (YStr "hex"))])); ("members", (YSeq [(YStr "ZERO"); (YMap [("label", (YStr "TEN")); ("value", (YInt (10)%Z))]); (YStr "ELEVEN"); (YMap [("label", (YStr "RNG")); ("value", (YSeq [(YInt (20)%Z); (YInt (29)%Z)]))]); (YStr "THIRTY"); (YMap [("label", (YStr "ZERO")); ("value", (YInt (-1)%Z))])]))])); ("f", (YMap [("class", (YStr "floating-point")); ("size", (YMap [("exp", (YInt (11)%Z)); ("mant", (YInt (53)%Z))])); ("align", (YInt (64)%Z))])); ("s", (YMap [("class", (YStr "string")); ("encoding", (YStr "utf8"))])); ("a", (YMap [("class", (YStr "array")); ("length", (YInt (2)%Z)); ("element-type", (YMap [("class", (YStr "array")); ("length", (YInt (3)%Z)); ("element-type", (YMap [("class", (YStr "int")); ("size", (YInt (3)%Z))]))]))])); ("d", (YMap [("class", (YStr "array")); ("length", (YStr "dynamic")); ("element-type", (YMap [("class", (YStr "int")); ("size", (YInt (16)%Z)); ("align", (YInt (16)%Z))]))]))]))]))])); ("ev2", (YMap [("log-level", (YInt (3)%Z)); ("context-type", (YMap [("class", (YStr "struct")); ("fields", (YMap [("c", (YMap [("class", (YStr "int")); ("size", (YInt (1)%Z))]))]))])); ("payload-type", YNull)]))]))])); ("second", (YMap [("$default", YNull); ("packet-context-type", (YMap [("class", (YStr "struct")); ("fields", (YMap [("packet_size", (YMap [("class", (YStr "int")); ("size", (YInt (16)%Z))])); ("content_size", (YMap [("class", (YStr "int")); ("size", (YInt (16)%Z))]))]))])); ("events", (YMap [("only", (YMap [("payload-type", (YMap [("class", (YStr "struct")); ("fields", (YMap [("x", (YMap [("class", (YStr "int")); ("size", (YInt (64)%Z)); ("signed", (YBool true))]))]))]))]))]))]))]))]))]).

(* ================================================================== version detection *)
Lemma version_detect_tagged : forall l, major_version true (YMap l) = Ok 3%Z.
Proof. reflexivity. Qed.

Lemma version_detect_untagged : forall l, major_version false (YMap l) = Ok 2%Z.
Proof. reflexivity. Qed.

(* ================================================================== OrderedDict algebra (lookup after an update) *)
Lemma eqb_sym : forall a b, String.eqb a b = String.eqb b a.
Proof. exact String.eqb_sym. Qed.

Lemma lookup_app : forall k a b,
  lookup k (a ++ b) = match lookup k a with Some v => Some v | None => lookup k b end.
Proof.
  intros k a b. induction a as [|kv a IH]; simpl; [reflexivity|].
  destruct (String.eqb (fst kv) k); [reflexivity|exact IH].
Qed.

Lemma mem_keys : forall k l, mem k (keys l) = match lookup k l with Some _ => true | None => false end.
Proof.
  intros k l. induction l as [|kv l IH]; simpl; [reflexivity|].
  destruct (String.eqb (fst kv) k); simpl; [reflexivity|exact IH].
Qed.

Lemma lookup_set : forall k a v l,
  lookup k (set a v l) = if String.eqb k a then (match lookup a l with Some _ => Some v | None => None end) else lookup k l.
Proof.
  intros k a v l. induction l as [|kv l IH]; simpl.
  - destruct (String.eqb k a); reflexivity.
  - destruct (String.eqb (fst kv) a) eqn:E1; simpl.
    + apply String.eqb_eq in E1. subst a. rewrite (eqb_sym k (fst kv)).
      destruct (String.eqb (fst kv) k); reflexivity.
    + destruct (String.eqb (fst kv) k) eqn:E2.
      * apply String.eqb_eq in E2. subst k. rewrite E1. reflexivity.
      * exact IH.
Qed.

Lemma lookup_put : forall k a v l,
  lookup k (put a v l) = if String.eqb k a then Some v else lookup k l.
Proof.
  intros k a v l. unfold put, has. rewrite mem_keys.
  destruct (lookup a l) eqn:E.
  - rewrite lookup_set, E. reflexivity.
  - rewrite lookup_app. simpl. rewrite (eqb_sym a k).
    destruct (String.eqb k a) eqn:E2.
    + apply String.eqb_eq in E2. subst k. rewrite E. reflexivity.
    + destruct (lookup k l); reflexivity.
Qed.

Lemma lookup_del : forall k a l,
  lookup k (del a l) = if String.eqb k a then None else lookup k l.
Proof.
  intros k a l. induction l as [|kv l IH]; simpl.
  - destruct (String.eqb k a); reflexivity.
  - destruct (String.eqb (fst kv) a) eqn:E1; simpl.
    + rewrite IH. apply String.eqb_eq in E1. subst a. rewrite (eqb_sym k (fst kv)).
      destruct (String.eqb (fst kv) k); reflexivity.
    + destruct (String.eqb (fst kv) k) eqn:E2.
      * apply String.eqb_eq in E2. subst k. rewrite E1. reflexivity.
      * exact IH.
Qed.

Lemma lookup_rename : forall k o n l,
  lookup k (rename o n l) =
    match lookup o l with
    | Some v => if String.eqb k o then None else if String.eqb k n then Some v else lookup k l
    | None => lookup k l
    end.
Proof.
  intros k o n l. unfold rename. destruct (lookup o l) eqn:E; [|reflexivity].
  rewrite lookup_del, lookup_put. reflexivity.
Qed.

Lemma lookup_copy_prop : forall k dst src sk dk,
  lookup k (copy_prop dst src sk dk) =
    match lookup sk src with
    | Some v => if String.eqb k dk then Some v else lookup k dst
    | None => lookup k dst
    end.
Proof.
  intros. unfold copy_prop. destruct (lookup sk src); [apply lookup_put|reflexivity].
Qed.

(* a whitelist of keys, semantically *)
Lemma keys_in_spec : forall W l,
  keys_in W l = true <-> (forall k, one_of k W = false -> lookup k l = None).
Proof.
  intros W l. unfold keys_in. induction l as [|kv l IH]; simpl.
  - split; auto.
  - split.
    + intros H k Hk. apply andb_prop in H. destruct H as [H1 H2].
      destruct (String.eqb (fst kv) k) eqn:E.
      * apply String.eqb_eq in E. subst k. congruence.
      * apply IH; assumption.
    + intros H. apply andb_true_intro. split.
      * destruct (one_of (fst kv) W) eqn:E; [reflexivity|].
        specialize (H _ E). rewrite String.eqb_refl in H. discriminate.
      * apply IH. intros k Hk. specialize (H k Hk).
        destruct (String.eqb (fst kv) k); [discriminate|exact H].
Qed.

Lemma keys_in_none : forall W l k, keys_in W l = true -> one_of k W = false -> lookup k l = None.
Proof. intros W l k H. apply keys_in_spec. exact H. Qed.

Lemma opt_of_lookup : forall k l, opt_of k l = match lookup k l with Some YNull | None => None | Some y => Some y end.
Proof. reflexivity. Qed.

(* ================================================================== prefix_split *)
Fixpoint underscores (n : nat) : string :=
  match n with O => EmptyString | S n' => String underscore (underscores n') end.

Definition ends_with_us (s : string) : bool :=
  match rev (list_ascii_of_string s) with
  | c :: _ => Ascii.eqb c underscore
  | [] => false
  end.

Lemma rstrip_us_empty_all : forall s, rstrip_us s = EmptyString -> exists n, s = underscores n.
Proof.
  induction s as [|c s IH]; simpl; intros H.
  - exists 0. reflexivity.
  - destruct (rstrip_us s) eqn:E.
    + destruct (Ascii.eqb c underscore) eqn:Ec; [|discriminate].
      apply Ascii.eqb_eq in Ec. subst c. destruct (IH eq_refl) as [n Hn]. exists (S n). simpl. now rewrite Hn.
    + discriminate.
Qed.

(* p = (p without its trailing underscores) ++ the trailing underscores *)
Lemma rstrip_us_split : forall p, exists n, p = (rstrip_us p ++ underscores n)%string.
Proof.
  induction p as [|c p IH]; simpl.
  - exists 0. reflexivity.
  - destruct (rstrip_us p) eqn:E.
    + destruct (rstrip_us_empty_all p E) as [n Hn].
      destruct (Ascii.eqb c underscore) eqn:Ec.
      * apply Ascii.eqb_eq in Ec. subst c. exists (S n). simpl. now rewrite Hn.
      * exists n. simpl. now rewrite Hn.
    + destruct IH as [n Hn]. exists n. simpl. simpl in Hn. now rewrite <- Hn.
Qed.

Lemma list_ascii_app : forall a b, list_ascii_of_string (a ++ b)%string = list_ascii_of_string a ++ list_ascii_of_string b.
Proof. induction a as [|c a IH]; simpl; intros; [reflexivity|now rewrite IH]. Qed.

(* ... and what is kept does not end with an underscore *)
Lemma rstrip_us_no_trailing : forall p, ends_with_us (rstrip_us p) = false.
Proof.
  unfold ends_with_us. induction p as [|c p IH]; simpl; [reflexivity|].
  destruct (rstrip_us p) as [|c' r] eqn:E.
  - destruct (Ascii.eqb c underscore) eqn:Ec; simpl; [reflexivity|exact Ec].
  - simpl. simpl in IH.
    destruct (rev (list_ascii_of_string r) ++ [c']) as [|x xs] eqn:E2.
    + destruct (rev (list_ascii_of_string r)); discriminate.
    + simpl. exact IH.
Qed.

(* the model's rstrip is the independent definition of V2Sem (reverse, drop, reverse) *)
Lemma drop_us_all : forall n, drop_us (list_ascii_of_string (underscores n)) = [].
Proof. induction n; simpl; [reflexivity|]. exact IHn. Qed.

Lemma rev_underscores : forall n, rev (list_ascii_of_string (underscores n)) = list_ascii_of_string (underscores n).
Proof.
  induction n; simpl; [reflexivity|]. rewrite IHn.
  clear IHn. induction n; simpl; [reflexivity|]. now rewrite IHn.
Qed.

Lemma drop_us_underscores_app : forall n l, drop_us (list_ascii_of_string (underscores n) ++ l) = drop_us l.
Proof. induction n; intros l; simpl; [reflexivity|]. apply IHn. Qed.

Lemma drop_us_not_us : forall l, (match l with c :: _ => Ascii.eqb c underscore | [] => false end) = false -> drop_us l = l.
Proof. intros [|c l] H; simpl; [reflexivity|]. unfold underscore in H. now rewrite H. Qed.

Lemma file_prefix_of_rstrip : forall p, file_prefix_of p = rstrip_us p.
Proof.
  intros p. unfold file_prefix_of.
  destruct (rstrip_us_split p) as [n Hn].
  pose proof (rstrip_us_no_trailing p) as Hnt. unfold ends_with_us in Hnt.
  rewrite Hn at 1. rewrite list_ascii_app, rev_app_distr, rev_underscores, drop_us_underscores_app.
  rewrite drop_us_not_us by exact Hnt.
  rewrite rev_involutive. apply string_of_list_ascii_of_string.
Qed.

Theorem prefix_split_thm : forall p,
  fst (v3_prefixes p) = p
  /\ (exists n, p = (snd (v3_prefixes p) ++ underscores n)%string)
  /\ ends_with_us (snd (v3_prefixes p)) = false
  /\ snd (v3_prefixes p) = file_prefix_of p.
Proof.
  intros p. simpl. repeat split.
  - apply rstrip_us_split.
  - apply rstrip_us_no_trailing.
  - symmetry. apply file_prefix_of_rstrip.
Qed.

(* ================================================================== enum_members_autoinc *)
(* Declarative statement of the barectf 2 rule: each member's range is `m_range` of the range of the
   member written just before it (None for the first). *)
Inductive Ranges : option (Z * Z) -> list member -> list (string * (Z * Z)) -> Prop :=
| Ranges_nil : forall prev, Ranges prev [] []
| Ranges_cons : forall prev m ms rs,
    Ranges (Some (m_range prev m)) ms rs ->
    Ranges prev (m :: ms) ((m_label m, m_range prev m) :: rs).

Definition prev_of (d : list (string * (Z * Z))) : option (Z * Z) :=
  match d with [] => None | p :: _ => Some (snd p) end.

Lemma ranges_from_spec : forall ms d,
  exists rs, ranges_from d ms = rev d ++ rs /\ Ranges (prev_of d) ms rs.
Proof.
  induction ms as [|m ms IH]; intros d; simpl.
  - exists []. split; [now rewrite app_nil_r|constructor].
  - destruct (IH ((m_label m, m_range (prev_of d) m) :: d)) as [rs [H1 H2]].
    exists ((m_label m, m_range (prev_of d) m) :: rs). split.
    + unfold prev_of in H1. rewrite H1. simpl. now rewrite <- app_assoc.
    + constructor. exact H2.
Qed.

Lemma ranges_of_spec : forall ms, Ranges None ms (ranges_of ms).
Proof.
  intros ms. destruct (ranges_from_spec ms []) as [rs [H1 H2]]. unfold ranges_of. rewrite H1. exact H2.
Qed.

(* the model's loop, on parsed members *)
Fixpoint loop_ranges (ms : list member) (cur : Z) : list (string * (Z * Z)) :=
  match ms with
  | [] => []
  | MAuto l :: r => (l, (cur, cur)) :: loop_ranges r (cur + 1)%Z
  | MVal l v :: r => (l, (v, v)) :: loop_ranges r (v + 1)%Z
  | MRange l lo hi :: r => (l, (lo, hi)) :: loop_ranges r (hi + 1)%Z
  end.

Definition next_of (d : list (string * (Z * Z))) : Z :=
  match d with [] => 0%Z | p :: _ => (snd (snd p) + 1)%Z end.

Lemma ranges_from_loop : forall ms d, ranges_from d ms = rev d ++ loop_ranges ms (next_of d).
Proof.
  induction ms as [|m ms IH]; intros d; simpl.
  - now rewrite app_nil_r.
  - rewrite IH. simpl. rewrite <- app_assoc. simpl. f_equal.
    destruct m as [l|l v|l lo hi]; simpl.
    + destruct d as [|[l' [lo' hi']] d]; simpl; reflexivity.
    + reflexivity.
    + reflexivity.
Qed.

Lemma ranges_of_loop : forall ms, ranges_of ms = loop_ranges ms 0%Z.
Proof. intros. unfold ranges_of. now rewrite ranges_from_loop. Qed.

(* printing a range the way the converter does *)
Definition pr_range (m : member) (cur : Z) : yaml :=
  match m with
  | MAuto _ => YInt cur
  | MVal _ v => YInt v
  | MRange _ lo hi => YSeq [YInt lo; YInt hi]
  end.

(* grouped insertion *)
Fixpoint ins (g : list (string * list (Z * Z))) (l : string) (r : Z * Z) : list (string * list (Z * Z)) :=
  match g with
  | [] => [(l, [r])]
  | (l', rs) :: g' => if String.eqb l' l then (l', rs ++ [r]) :: g' else (l', rs) :: ins g' l r
  end.

Fixpoint add_rec (label : string) (v : yaml) (acc : entries) : entries :=
  match acc with
  | [] => [(label, YSeq [v])]
  | (k, y) :: acc' =>
      if String.eqb k label
      then (k, match y with YSeq vs => YSeq (vs ++ [v]) | _ => y end) :: acc'
      else (k, y) :: add_rec label v acc'
  end.

Definition all_seq (acc : entries) : bool :=
  forallb (fun kv => match snd kv with YSeq _ => true | _ => false end) acc.

Lemma add_mapping_rec : forall acc label v, all_seq acc = true -> add_mapping label v acc = add_rec label v acc.
Proof.
  induction acc as [|[k y] acc IH]; intros label v H.
  - reflexivity.
  - simpl in H. apply andb_prop in H. destruct H as [Hy Hacc].
    destruct y as [| | | | |vs|]; try discriminate.
    specialize (IH label v Hacc).
    unfold add_mapping in *. simpl.
    destruct (String.eqb k label) eqn:Ek.
    + apply String.eqb_eq in Ek. now subst.
    + destruct (lookup label acc) as [y'|] eqn:El.
      * destruct y' as [| | | | |vs'|].
        6:{ now rewrite IH. }
        all: exfalso; clear -Hacc El; induction acc as [|[k' y''] acc IHa]; [discriminate|];
          simpl in *; apply andb_prop in Hacc; destruct Hacc as [H1 H2];
          destruct (String.eqb k' label); [inversion El; subst; discriminate|auto].
      * unfold put, has in *. rewrite mem_keys in *. simpl. rewrite Ek. rewrite El in *.
        simpl. now rewrite IH.
Qed.

Lemma v3_mappings_all_seq : forall acc g, v3_mappings acc = Some g -> all_seq acc = true.
Proof.
  induction acc as [|[k y] acc IH]; intros g H; [reflexivity|].
  unfold v3_mappings in H. simpl in H. destruct y; try discriminate.
  destruct (omapM v3_range items); simpl in H; [|discriminate].
  fold (v3_mappings acc) in H. destruct (v3_mappings acc) eqn:E; simpl in H; [|discriminate].
  simpl. eapply IH. reflexivity.
Qed.

Lemma omapM_snoc : forall {A B} (f : A -> option B) l x rs r,
  omapM f l = Some rs -> f x = Some r -> omapM f (l ++ [x]) = Some (rs ++ [r]).
Proof.
  intros A B f. induction l as [|a l IH]; intros x rs r H1 H2; simpl in *.
  - inversion H1; subst. now rewrite H2.
  - destruct (f a); simpl in *; [|discriminate].
    destruct (omapM f l) eqn:E; simpl in *; [|discriminate].
    inversion H1; subst. now rewrite (IH _ _ _ eq_refl H2).
Qed.

Lemma add_mapping_ins : forall acc g label v r,
  v3_mappings acc = Some g -> v3_range v = Some r ->
  v3_mappings (add_mapping label v acc) = Some (ins g label r).
Proof.
  intros acc g label v r Hacc Hv.
  rewrite add_mapping_rec by (eapply v3_mappings_all_seq; eauto).
  revert g Hacc. induction acc as [|[k y] acc IH]; intros g Hacc.
  - inversion Hacc; subst. unfold v3_mappings. simpl. now rewrite Hv.
  - unfold v3_mappings in Hacc. simpl in Hacc.
    destruct y as [| | | | |vs|]; try discriminate.
    destruct (omapM v3_range vs) as [rs|] eqn:Ers; simpl in Hacc; [|discriminate].
    fold (v3_mappings acc) in Hacc.
    destruct (v3_mappings acc) as [g'|] eqn:Eg; simpl in Hacc; [|discriminate].
    inversion Hacc; subst g. clear Hacc.
    simpl. destruct (String.eqb k label) eqn:Ek.
    + unfold v3_mappings. simpl. rewrite (omapM_snoc _ _ _ _ _ Ers Hv). simpl.
      fold (v3_mappings acc). now rewrite Eg.
    + unfold v3_mappings. simpl. rewrite Ers. simpl.
      fold (v3_mappings (add_rec label v acc)). now rewrite (IH g' eq_refl).
Qed.

(* the converter's loop inserts, one by one, the ranges `loop_ranges` computes *)
Lemma enum_loop_ins : forall ms mems cur acc g,
  omapM member_of ms = Some mems -> v3_mappings acc = Some g ->
  exists mp, enum_loop ms cur acc = Ok mp
             /\ v3_mappings mp = Some (fold_left (fun g x => ins g (fst x) (snd x)) (loop_ranges mems cur) g).
Proof.
  induction ms as [|y ms IH]; intros mems cur acc g Hm Hacc; simpl in Hm.
  - inversion Hm; subst. simpl. eauto.
  - destruct (member_of y) as [m|] eqn:Ey; simpl in Hm; [|discriminate].
    destruct (omapM member_of ms) as [mems'|] eqn:Ems; simpl in Hm; [|discriminate].
    inversion Hm; subst mems. clear Hm.
    destruct y as [| | | |s| |ml]; simpl in Ey; try discriminate.
    + inversion Ey; subst m. simpl.
      apply (IH mems' (cur + 1)%Z _ (ins g s (cur, cur)) eq_refl).
      apply add_mapping_ins; [exact Hacc|reflexivity].
    + destruct (negb (keys_in ["label"; "value"] ml)); [discriminate|].
      destruct (lookup "label" ml) as [[| | | |s| |]|] eqn:El; try discriminate.
      destruct (lookup "value" ml) as [[| |v| | |vs|]|] eqn:Ev; try discriminate.
      * inversion Ey; subst m. simpl. rewrite El, Ev.
        apply (IH mems' (v + 1)%Z _ (ins g s (v, v)) eq_refl).
        apply add_mapping_ins; [exact Hacc|reflexivity].
      * destruct vs as [|[| |lo| | | |] [|[| |hi| | | |] [|? ?]]]; try discriminate.
        inversion Ey; subst m. simpl. rewrite El, Ev.
        apply (IH mems' (hi + 1)%Z _ (ins g s (lo, hi)) eq_refl).
        apply add_mapping_ins; [exact Hacc|reflexivity].
Qed.

(* ---- grouping by filtering = inserting one by one *)
Lemma first_labels_fresh : forall ls seen x, In x (first_labels seen ls) -> one_of x seen = false.
Proof.
  induction ls as [|y ls IH]; intros seen x H; simpl in H; [contradiction|].
  destruct (one_of y seen) eqn:E.
  - apply IH. exact H.
  - destruct H as [->|H]; [exact E|].
    apply IH in H. simpl in H. apply orb_false_elim in H. tauto.
Qed.

Lemma first_labels_nodup : forall ls seen, NoDup (first_labels seen ls).
Proof.
  induction ls as [|y ls IH]; intros seen; simpl; [constructor|].
  destruct (one_of y seen) eqn:E; [apply IH|].
  constructor; [|apply IH].
  intros H. apply first_labels_fresh in H. simpl in H. rewrite String.eqb_refl in H. discriminate.
Qed.

Lemma one_of_app : forall x a b, one_of x (a ++ b) = one_of x a || one_of x b.
Proof. intros. unfold one_of. apply existsb_app. Qed.

Lemma first_labels_snoc : forall ls seen l,
  first_labels seen (ls ++ [l]) = first_labels seen ls ++ (if one_of l seen || one_of l ls then [] else [l]).
Proof.
  induction ls as [|y ls IH]; intros seen l; simpl.
  - rewrite orb_false_r. destruct (one_of l seen); reflexivity.
  - destruct (one_of y seen) eqn:E.
    + rewrite IH. f_equal. destruct (one_of l seen) eqn:E2; simpl; [reflexivity|].
      destruct (String.eqb l y) eqn:E3; simpl; [|reflexivity].
      apply String.eqb_eq in E3. subst. congruence.
    + simpl. rewrite IH. simpl. f_equal. f_equal.
      destruct (String.eqb l y); destruct (one_of l seen); destruct (one_of l ls); reflexivity.
Qed.

Lemma first_labels_in : forall ls seen x, In x (first_labels seen ls) -> one_of x ls = true.
Proof.
  induction ls as [|y ls IH]; intros seen x H; simpl in *; [contradiction|].
  destruct (one_of y seen).
  - apply IH in H. rewrite H. apply orb_true_r.
  - destruct H as [->|H]; [now rewrite String.eqb_refl|].
    apply IH in H. rewrite H. apply orb_true_r.
Qed.

Definition ranges_for (rs : list (string * (Z * Z))) (lab : string) : list (Z * Z) :=
  map snd (filter (fun r => String.eqb (fst r) lab) rs).

Lemma ins_absent : forall L (F : string -> list (Z * Z)) l r,
  ~ In l L -> ins (map (fun lab => (lab, F lab)) L) l r = map (fun lab => (lab, F lab)) L ++ [(l, [r])].
Proof.
  induction L as [|x L IH]; intros F l r H; simpl; [reflexivity|].
  destruct (String.eqb x l) eqn:E.
  - apply String.eqb_eq in E. subst. exfalso. apply H. now left.
  - f_equal. apply IH. intros H'. apply H. now right.
Qed.

Lemma ins_present : forall L (F : string -> list (Z * Z)) l r,
  NoDup L -> In l L ->
  ins (map (fun lab => (lab, F lab)) L) l r
  = map (fun lab => (lab, F lab ++ (if String.eqb l lab then [r] else []))) L.
Proof.
  induction L as [|x L IH]; intros F l r Hnd Hin; simpl; [contradiction|].
  inversion Hnd as [|? ? Hx Hnd']; subst.
  destruct (String.eqb x l) eqn:E.
  - apply String.eqb_eq in E. subst x. rewrite String.eqb_refl. f_equal.
    apply map_ext_in. intros a Ha. destruct (String.eqb l a) eqn:E2.
    + apply String.eqb_eq in E2. subst. contradiction.
    + now rewrite app_nil_r.
  - rewrite (String.eqb_sym l x), E, app_nil_r. f_equal.
    apply IH; [exact Hnd'|]. destruct Hin as [->|Hin]; [rewrite String.eqb_refl in E; discriminate|exact Hin].
Qed.

Lemma one_of_In : forall x l, one_of x l = true <-> In x l.
Proof.
  intros x l. unfold one_of. rewrite existsb_exists. split.
  - intros [y [H1 H2]]. apply String.eqb_eq in H2. now subst.
  - intros H. exists x. split; [exact H|apply String.eqb_refl].
Qed.

Lemma group_snoc : forall rs l r, group (rs ++ [(l, r)]) = ins (group rs) l r.
Proof.
  intros rs l r.
  assert (Hg : forall xs, group xs = map (fun lab => (lab, ranges_for xs lab)) (first_labels [] (map fst xs))) by reflexivity.
  rewrite !Hg. rewrite map_app. change (map fst [(l, r)]) with [l]. rewrite first_labels_snoc. change (one_of l []) with false. rewrite orb_false_l.
  assert (Hf : forall lab, ranges_for (rs ++ [(l, r)]) lab = ranges_for rs lab ++ (if String.eqb l lab then [r] else [])).
  { intros lab. unfold ranges_for. rewrite filter_app, map_app. simpl. destruct (String.eqb l lab); reflexivity. }
  destruct (one_of l (map fst rs)) eqn:E.
  - rewrite app_nil_r.
    rewrite ins_present.
    + apply map_ext. intros a. now rewrite Hf.
    + apply first_labels_nodup.
    + (* l is among the first labels *)
      clear -E. assert (G : forall ls seen, one_of l ls = true -> one_of l seen = false -> In l (first_labels seen ls)).
      { induction ls as [|y ls IH]; intros seen H1 H2; simpl in *; [discriminate|].
        destruct (String.eqb l y) eqn:E1.
        - apply String.eqb_eq in E1. subst y. rewrite H2. now left.
        - simpl in H1. destruct (one_of y seen); [apply IH; assumption|].
          right. apply IH; [assumption|]. simpl. now rewrite E1. }
      apply G; [exact E|reflexivity].
  - rewrite map_app. simpl.
    rewrite ins_absent.
    + f_equal.
      * apply map_ext_in. intros a Ha. rewrite Hf.
        destruct (String.eqb l a) eqn:E2; [|now rewrite app_nil_r].
        apply String.eqb_eq in E2. subst a. apply first_labels_in in Ha. congruence.
      * rewrite Hf, String.eqb_refl. unfold ranges_for.
        assert (G : filter (fun r0 : string * (Z * Z) => String.eqb (fst r0) l) rs = []).
        { clear -E. induction rs as [|[a b] rs IH]; simpl in *; [reflexivity|].
          apply orb_false_elim in E. destruct E as [E1 E2]. rewrite String.eqb_sym, E1. now apply IH. }
        rewrite G. reflexivity.
    + intros H. apply first_labels_in in H. congruence.
Qed.

Lemma fold_ins_group : forall xs done,
  fold_left (fun g x => ins g (fst x) (snd x)) xs (group done) = group (done ++ xs).
Proof.
  induction xs as [|[l r] xs IH]; intros done; simpl.
  - now rewrite app_nil_r.
  - rewrite <- group_snoc, IH, <- app_assoc. reflexivity.
Qed.

(* The converter's `mappings` of a well-shaped `members` list, read as barectf 3 says, are the
   ranges the barectf 2 rule gives (Ranges: implicit values continue from the previous member's
   upper bound + 1, starting at 0), grouped by label in order of first appearance. *)
Theorem enum_members_autoinc_thm : forall ms mems,
  omapM member_of ms = Some mems ->
  exists mp, enum_loop ms 0%Z [] = Ok mp
             /\ v3_mappings mp = Some (group (ranges_of mems))
             /\ Ranges None mems (ranges_of mems).
Proof.
  intros ms mems H.
  destruct (enum_loop_ins ms mems 0%Z [] [] H eq_refl) as [mp [H1 H2]].
  exists mp. split; [exact H1|]. split; [|apply ranges_of_spec].
  rewrite H2. change (@nil (string * list (Z * Z))) with (group []).
  rewrite fold_ins_group. simpl. now rewrite ranges_of_loop.
Qed.

(* ================================================================== more OrderedDict algebra *)
Lemma lookup_rename_other : forall k o n l,
  String.eqb k o = false -> String.eqb k n = false -> lookup k (rename o n l) = lookup k l.
Proof. intros k o n l H1 H2. rewrite lookup_rename, H1, H2. destruct (lookup o l); reflexivity. Qed.

Lemma lookup_rename_new : forall o n l,
  String.eqb n o = false ->
  lookup n (rename o n l) = match lookup o l with Some v => Some v | None => lookup n l end.
Proof. intros o n l H. rewrite lookup_rename, H, String.eqb_refl. reflexivity. Qed.

Lemma lookup_rename_old : forall o n l, String.eqb o n = false -> lookup o (rename o n l) = None.
Proof.
  intros o n l H. rewrite lookup_rename, String.eqb_refl.
  destruct (lookup o l) eqn:E; [reflexivity|assumption || reflexivity].
Qed.

Ltac lk :=
  repeat first
    [ rewrite lookup_del
    | rewrite lookup_put
    | rewrite lookup_rename_other by reflexivity
    | rewrite lookup_rename_new by reflexivity
    | rewrite lookup_rename_old by reflexivity
    | rewrite lookup_copy_prop
    | rewrite lookup_app ];
  cbn [String.eqb Ascii.eqb Bool.eqb lookup fst snd].

Definition subset (a b : list string) : bool := forallb (fun k => one_of k b) a.

Lemma one_of_subset : forall a b k, subset a b = true -> one_of k a = true -> one_of k b = true.
Proof.
  intros a b k Hs Hk. apply one_of_In in Hk. unfold subset in Hs. rewrite forallb_forall in Hs.
  apply Hs. exact Hk.
Qed.

Lemma keys_in_weaken : forall W W' l, subset W W' = true -> keys_in W l = true -> keys_in W' l = true.
Proof.
  intros W W' l Hs H. apply keys_in_spec. intros k Hk. eapply keys_in_none; [exact H|].
  destruct (one_of k W) eqn:E; [|reflexivity]. rewrite (one_of_subset _ _ _ Hs E) in Hk. discriminate.
Qed.

Lemma keys_in_del_strong : forall W k l, keys_in (k :: W) l = true -> keys_in W (del k l) = true.
Proof.
  intros W k l H. apply keys_in_spec. intros x Hx. rewrite lookup_del.
  destruct (String.eqb x k) eqn:E; [reflexivity|].
  eapply keys_in_none; [exact H|]. simpl. now rewrite E, Hx.
Qed.

Lemma keys_in_put : forall W k v l, one_of k W = true -> keys_in W l = true -> keys_in W (put k v l) = true.
Proof.
  intros W k v l Hk H. apply keys_in_spec. intros x Hx. rewrite lookup_put.
  destruct (String.eqb x k) eqn:E.
  - apply String.eqb_eq in E. subst. congruence.
  - eapply keys_in_none; eauto.
Qed.

Lemma keys_in_rename : forall W o n l,
  one_of n W = true -> keys_in (o :: W) l = true -> keys_in W (rename o n l) = true.
Proof.
  intros W o n l Hn H. apply keys_in_spec. intros x Hx. rewrite lookup_rename.
  assert (Hxn : String.eqb x n = false).
  { destruct (String.eqb x n) eqn:E; [|reflexivity]. apply String.eqb_eq in E. subst. congruence. }
  destruct (String.eqb x o) eqn:Exo.
  - destruct (lookup o l) eqn:El; [reflexivity|]. apply String.eqb_eq in Exo. now subst.
  - assert (lookup x l = None). { eapply keys_in_none; [exact H|]. simpl. now rewrite Exo, Hx. }
    rewrite Hxn. destruct (lookup o l); assumption.
Qed.

Lemma keys_in_copy_prop : forall W dst src sk dk,
  one_of dk W = true -> keys_in W dst = true -> keys_in W (copy_prop dst src sk dk) = true.
Proof. intros. unfold copy_prop. destruct (lookup sk src); [now apply keys_in_put|assumption]. Qed.

Lemma keys_in_app : forall W a b, keys_in W a = true -> keys_in W b = true -> keys_in W (a ++ b) = true.
Proof. intros W a b Ha Hb. unfold keys_in, keys in *. now rewrite map_app, forallb_app, Ha, Hb. Qed.

Ltac kin :=
  first
    [ reflexivity
    | (eapply keys_in_weaken; [|eassumption]; reflexivity)
    | (apply keys_in_del_strong; kin)
    | (apply keys_in_put; [reflexivity|kin])
    | (apply keys_in_rename; [reflexivity|kin])
    | (apply keys_in_copy_prop; [reflexivity|kin])
    | (apply keys_in_app; kin) ].

(* readers only depend on the looked-up value *)
Lemma opt_of_ext : forall k l k' l', lookup k l = lookup k' l' -> opt_of k l = opt_of k' l'.
Proof. intros. unfold opt_of. now rewrite H. Qed.
Lemma rd_z_ext : forall k l k' l', lookup k l = lookup k' l' -> rd_z k l = rd_z k' l'.
Proof. intros. unfold rd_z. now rewrite (opt_of_ext _ _ _ _ H). Qed.
Lemma rd_b_ext : forall k l k' l', lookup k l = lookup k' l' -> rd_b k l = rd_b k' l'.
Proof. intros. unfold rd_b. now rewrite (opt_of_ext _ _ _ _ H). Qed.
Lemma rd_s_ext : forall k l k' l', lookup k l = lookup k' l' -> rd_s k l = rd_s k' l'.
Proof. intros. unfold rd_s. now rewrite (opt_of_ext _ _ _ _ H). Qed.
Lemma rd_base_ext : forall k l k' l', lookup k l = lookup k' l' -> rd_base k l = rd_base k' l'.
Proof. intros. unfold rd_base. now rewrite (opt_of_ext _ _ _ _ H). Qed.

Lemma obind_some : forall {A B} (o : option A) (f : A -> option B) b,
  obind o f = Some b -> exists a, o = Some a /\ f a = Some b.
Proof. intros A B [a|] f b H; [eauto|discriminate]. Qed.

Ltac inv_obind H :=
  let a := fresh "a" in let H1 := fresh "E" in
  apply obind_some in H; destruct H as [a [H1 H]].

(* ================================================================== integers *)
Definition erase_attrs (a : int_attrs) : int_attrs :=
  match a with (sz, sg, al, b, _) => (sz, sg, al, b, None) end.

Definition v3_int_keys := ["class"; "size"; "alignment"; "preferred-display-base"].

Lemma conv_int_class : forall l,
  lookup "class" (conv_int l)
  = Some (YStr (match lookup "signed" l with Some (YBool true) => "sint" | _ => "uint" end)).
Proof. intros l. unfold conv_int. lk. reflexivity. Qed.

Lemma conv_int_size : forall l, lookup "size" (conv_int l) = lookup "size" l.
Proof. intros l. unfold conv_int. lk. reflexivity. Qed.

Lemma conv_int_alignment : forall l, keys_in v2_int_keys l = true ->
  lookup "alignment" (conv_int l) = lookup "align" l.
Proof.
  intros l H. unfold conv_int. lk.
  rewrite (keys_in_none _ _ "alignment" H eq_refl). destruct (lookup "align" l); reflexivity.
Qed.

Lemma conv_int_base : forall l, keys_in v2_int_keys l = true ->
  lookup "preferred-display-base" (conv_int l) = lookup "base" l.
Proof.
  intros l H. unfold conv_int. lk.
  rewrite (keys_in_none _ _ "preferred-display-base" H eq_refl). destruct (lookup "base" l); reflexivity.
Qed.

Lemma conv_int_keys : forall l, keys_in v2_int_keys l = true -> keys_in v3_int_keys (conv_int l) = true.
Proof. intros l H. unfold conv_int. kin. Qed.

(* An integer field type: the converter's node read as barectf 3 says = the barectf 2 node read as
   barectf 2 says, minus the clock mapping (which barectf 3 cannot carry in a field type). *)
Lemma int_equiv : forall l a,
  v2_int l = Some a ->
  exists c, lookup "class" (conv_int l) = Some (YStr c)
            /\ (c = "uint" \/ c = "sint")
            /\ keys_in v3_int_keys (conv_int l) = true
            /\ v3_int_attrs (String.eqb c "sint") (conv_int l) = Some (erase_attrs a).
Proof.
  intros l a H. unfold v2_int in H.
  destruct (keys_in v2_int_keys l) eqn:Hk; [|discriminate]. cbn [negb] in H.
  destruct (lookup "class" l) as [[| | | |c| |]|] eqn:Ec; try discriminate.
  destruct (negb (one_of c ["int"; "integer"])); [discriminate|].
  destruct (lookup "size" l) as [[| |sz| | | |]|] eqn:Es; try discriminate.
  inv_obind H. inv_obind H. inv_obind H. inv_obind H. inversion H; subst a. clear H.
  rename a0 into sg, a1 into al, a2 into b, a3 into ck.
  rewrite conv_int_class.
  assert (Hsg : (match lookup "signed" l with Some (YBool true) => "sint" | _ => "uint" end)
                = if (match sg with Some true => true | _ => false end) then "sint" else "uint").
  { unfold rd_b, opt_of in E. destruct (lookup "signed" l) as [[|[|]| | | | |]|]; inversion E; reflexivity. }
  rewrite Hsg.
  eexists. split; [reflexivity|]. split; [destruct (match sg with Some true => true | _ => false end); auto|].
  split; [now apply conv_int_keys|].
  unfold v3_int_attrs. rewrite conv_int_size, Es.
  rewrite (rd_z_ext _ _ _ _ (conv_int_alignment l Hk)), E0. simpl.
  rewrite (rd_base_ext _ _ _ _ (conv_int_base l Hk)), E1. simpl.
  destruct (match sg with Some true => true | _ => false end); reflexivity.
Qed.


(* ================================================================== field types, all nesting depths *)
Lemma klookup_kids : forall (g : yaml -> kid) k l,
  klookup k (map (fun kv => (fst kv, g (snd kv))) l) = option_map g (lookup k l).
Proof.
  intros g k l. induction l as [|kv l IH]; simpl; [reflexivity|].
  destruct (String.eqb (fst kv) k); [reflexivity|exact IH].
Qed.

Lemma conv_ft_map : forall l,
  conv_ft (YMap l) = conv_node l (map (fun kv => (fst kv, conv_cata (snd kv))) l).
Proof. reflexivity. Qed.

Lemma conv_cata_snd : forall fl, snd (conv_cata (YMap fl)) = map (fun kv => (fst kv, conv_ft (snd kv))) fl.
Proof. intros. simpl. rewrite map_map. reflexivity. Qed.

Lemma one_of_2 : forall c a b, one_of c [a; b] = true -> c = a \/ c = b.
Proof.
  intros c a b H. unfold one_of in H. simpl in H.
  destruct (String.eqb c a) eqn:E1; [left; now apply String.eqb_eq|].
  destruct (String.eqb c b) eqn:E2; [right; now apply String.eqb_eq|discriminate].
Qed.

Lemma v3_int_attrs_ext : forall sg l l',
  lookup "size" l = lookup "size" l' -> lookup "alignment" l = lookup "alignment" l' ->
  lookup "preferred-display-base" l = lookup "preferred-display-base" l' ->
  v3_int_attrs sg l = v3_int_attrs sg l'.
Proof.
  intros sg l l' H1 H2 H3. unfold v3_int_attrs.
  now rewrite H1, (rd_z_ext _ _ _ _ H2), (rd_base_ext _ _ _ _ H3).
Qed.

Lemma keys_in_drop : forall W k l, keys_in (k :: W) l = true -> mem k (keys l) = false -> keys_in W l = true.
Proof.
  intros W k l H Hm. apply keys_in_spec. intros x Hx.
  destruct (String.eqb x k) eqn:E.
  - apply String.eqb_eq in E. subst. rewrite mem_keys in Hm. destruct (lookup k l); [discriminate|reflexivity].
  - eapply keys_in_none; [exact H|]. simpl. now rewrite E, Hx.
Qed.

Lemma class_of_lookup : forall l c, class_of l = Some c <-> lookup "class" l = Some (YStr c).
Proof.
  intros l c. unfold class_of. split; intros H.
  - destruct (lookup "class" l) as [[| | | |s| |]|]; inversion H; reflexivity.
  - now rewrite H.
Qed.

Ltac ev := cbn [one_of existsb orb String.eqb Ascii.eqb Bool.eqb negb obind option_map].

(* ---- how the barectf 3 reading recognises each kind of node *)
Lemma v3_ft_int : forall n l c a,
  class_of l = Some c -> (c = "uint" \/ c = "sint") -> keys_in v3_int_keys l = true ->
  v3_int_attrs (String.eqb c "sint") l = Some a -> v3_ft (S n) (YMap l) = Some (mk_int a).
Proof.
  intros n l c a H1 H2 H3 H4. unfold v3_int_keys in H3. cbn [v3_ft]. rewrite H1. cbn [obind].
  destruct H2; subst c; ev; rewrite H3; ev; cbn [String.eqb Ascii.eqb Bool.eqb] in H4; rewrite H4; reflexivity.
Qed.

Lemma v3_ft_enum : forall n l c a mp r,
  class_of l = Some c -> (c = "uenum" \/ c = "senum") ->
  keys_in ["class"; "size"; "alignment"; "preferred-display-base"; "mappings"] l = true ->
  lookup "mappings" l = Some (YMap mp) ->
  v3_int_attrs (String.eqb c "senum") l = Some a -> v3_mappings mp = Some r ->
  v3_ft (S n) (YMap l) = Some (mk_enum a r).
Proof.
  intros n l c a mp r H1 H2 H3 H4 H5 H6. cbn [v3_ft]. rewrite H1. cbn [obind].
  destruct H2; subst c; ev; rewrite H3; ev; rewrite H4; cbn [String.eqb Ascii.eqb Bool.eqb] in H5; rewrite H5; ev;
    rewrite H6; reflexivity.
Qed.

Lemma v3_ft_real : forall n l sz al,
  class_of l = Some "real" -> keys_in ["class"; "size"; "alignment"] l = true ->
  lookup "size" l = Some (YInt sz) -> rd_z "alignment" l = Some al ->
  v3_ft (S n) (YMap l) = Some (FReal sz al).
Proof.
  intros n l sz al H1 H2 H3 H4. cbn [v3_ft]. rewrite H1. ev. rewrite H2. ev. rewrite H3, H4. reflexivity.
Qed.

Lemma v3_ft_str : forall n l c,
  class_of l = Some c -> (c = "str" \/ c = "string") -> keys_in ["class"] l = true ->
  v3_ft (S n) (YMap l) = Some FStr.
Proof.
  intros n l c H1 H2 H3. cbn [v3_ft]. rewrite H1. cbn [obind].
  destruct H2; subst c; ev; rewrite H3; reflexivity.
Qed.

Lemma v3_ft_struct : forall n l c ma ms,
  class_of l = Some c -> (c = "struct" \/ c = "structure") ->
  keys_in ["class"; "minimum-alignment"; "members"] l = true ->
  rd_z "minimum-alignment" l = Some ma ->
  ((opt_of "members" l = None /\ ms = []) \/
   (exists items, opt_of "members" l = Some (YSeq items) /\ omapM (v3_member (v3_ft n)) items = Some ms)) ->
  v3_ft (S n) (YMap l) = Some (FStruct ma ms).
Proof.
  intros n l c ma ms H1 H2 H3 H4 H5. cbn [v3_ft]. rewrite H1. cbn [obind].
  destruct H2; subst c; ev; rewrite H3; ev; rewrite H4; ev;
    (destruct H5 as [[H5 ->]|[items [H5 H6]]]; rewrite H5; [reflexivity|rewrite H6; reflexivity]).
Qed.

Definition erase_member (m : string * ft) : string * ft := (fst m, erase_clk (snd m)).

(* the members of a structure, given the statement for every member's type *)
Lemma fields_equiv : forall n fl fs,
  (forall y f, v2_ft n y = Some f -> ft_conv_ok n y = true ->
               exists y', conv_ft y = Ok y' /\ v3_ft n y' = Some (erase_clk f)) ->
  omapM (fun kv => option_map (pair (fst kv)) (v2_ft n (snd kv))) fl = Some fs ->
  forallb (fun kv => ft_conv_ok n (snd kv)) fl = true ->
  exists ms, seq_fields (map (fun kv => (fst kv, conv_ft (snd kv))) fl) = Ok ms
             /\ omapM (v3_member (v3_ft n)) ms = Some (map erase_member fs).
Proof.
  intros n fl. induction fl as [|[name t] fl IHl]; intros fs IH Hm Hok; simpl in *.
  - inversion Hm; subst. exists []. split; reflexivity.
  - apply andb_prop in Hok. destruct Hok as [Hok1 Hok2].
    destruct (v2_ft n t) as [f|] eqn:Ef; simpl in Hm; [|discriminate].
    destruct (omapM (fun kv => option_map (pair (fst kv)) (v2_ft n (snd kv))) fl) as [fs'|] eqn:Efs; simpl in Hm; [|discriminate].
    inversion Hm; subst fs. clear Hm.
    destruct (IH t f Ef Hok1) as [t' [Ht1 Ht2]].
    destruct (IHl fs' IH eq_refl Hok2) as [ms [Hms1 Hms2]].
    rewrite Ht1. simpl. rewrite Hms1. simpl.
    eexists. split; [reflexivity|]. simpl. rewrite Ht2. simpl. rewrite Hms2. reflexivity.
Qed.

Lemma conv_ft_int_node : forall vl a, v2_int vl = Some a -> conv_ft (YMap vl) = Ok (YMap (conv_int vl)).
Proof.
  intros vl a E. rewrite conv_ft_map. unfold conv_node.
  unfold v2_int in E. destruct (negb (keys_in v2_int_keys vl)); [discriminate|].
  destruct (lookup "class" vl) as [[| | | |cv| |]|]; try discriminate.
  unfold in_list, int_classes. fold (one_of cv ["int"; "integer"]).
  destruct (one_of cv ["int"; "integer"]); [reflexivity|discriminate].
Qed.

Lemma erase_mk_int : forall a, erase_clk (mk_int a) = mk_int (erase_attrs a).
Proof. intros [[[[sz sg] al] b] ck]. reflexivity. Qed.
Lemma erase_mk_enum : forall a r, erase_clk (mk_enum a r) = mk_enum (erase_attrs a) r.
Proof. intros [[[[sz sg] al] b] ck] r. reflexivity. Qed.

Lemma real_size_cases : forall (oe om : option yaml) al f,
  match oe, om with
  | Some (YInt 8), Some (YInt 24) => Some (FReal 32 al)
  | Some (YInt 11), Some (YInt 53) => Some (FReal 64 al)
  | _, _ => None
  end = Some f ->
  exists e m, oe = Some (YInt e) /\ om = Some (YInt m) /\ f = FReal (e + m) al.
Proof.
  intros oe om al f H.
  destruct oe as [[| |e| | | |]|]; try discriminate.
  destruct e as [|p|p]; try discriminate.
  repeat (destruct p as [p|p|]; try discriminate).
  - destruct om as [[| |m| | | |]|]; try discriminate.
    destruct m as [|p|p]; try discriminate.
    repeat (destruct p as [p|p|]; try discriminate).
    inversion H. eexists. eexists. repeat split.
  - destruct om as [[| |m| | | |]|]; try discriminate.
    destruct m as [|p|p]; try discriminate.
    repeat (destruct p as [p|p|]; try discriminate).
    inversion H. eexists. eexists. repeat split.
Qed.

Lemma match_dynamic : forall {A} (s : string) (x y : A),
  match s with "dynamic" => x | _ => y end = if String.eqb s "dynamic" then x else y.
Proof.
  intros A s x y.
  do 7 (destruct s as [|a s]; [reflexivity|]; destruct a as [[|] [|] [|] [|] [|] [|] [|] [|]]; try reflexivity).
  destruct s; reflexivity.
Qed.

Theorem ft_equiv : forall fuel y f,
  v2_ft fuel y = Some f -> ft_conv_ok fuel y = true ->
  exists y', conv_ft y = Ok y' /\ v3_ft fuel y' = Some (erase_clk f).
Proof.
  induction fuel as [|n IH]; intros y f H Hok; [discriminate|].
  destruct y as [| | | | | |l]; try discriminate.
  cbn [v2_ft] in H. cbn [ft_conv_ok] in Hok.
  destruct (class_of l) as [c|] eqn:Ec; [|discriminate]. cbn [obind] in H.
  pose proof (proj1 (class_of_lookup l c) Ec) as Hcl.
  rewrite conv_ft_map. unfold conv_node. rewrite Hcl. unfold in_list, int_classes, enum_classes, real_classes,
    string_classes, array_classes, struct_classes.
  fold (one_of c ["int"; "integer"]). fold (one_of c ["enum"; "enumeration"]).
  fold (one_of c ["flt"; "float"; "floating-point"]). fold (one_of c ["str"; "string"]).
  fold (one_of c ["array"]). fold (one_of c ["struct"; "structure"]).
  destruct (one_of c ["int"; "integer"]) eqn:C1.
  { (* integer *)
    destruct (v2_int l) as [a|] eqn:Ea; [|discriminate]. inversion H; subst f. clear H.
    destruct (int_equiv l a Ea) as [c' [K1 [K2 [K3 K4]]]].
    eexists. split; [reflexivity|]. rewrite erase_mk_int.
    eapply v3_ft_int; eauto. now apply class_of_lookup. }
  destruct (one_of c ["enum"; "enumeration"]) eqn:C2.
  { (* enumeration *)
    destruct (negb (keys_in ["class"; "value-type"; "members"] l)); [discriminate|].
    destruct (lookup "value-type" l) as [[| | | | | |vl]|] eqn:Ev; try discriminate.
    destruct (lookup "members" l) as [[| | | | |ms|]|] eqn:Em; try discriminate.
    inv_obind H. inv_obind H. inversion H; subst f. clear H. rename a into ia, a0 into mems.
    destruct (int_equiv vl ia E) as [c' [K1 [K2 [K3 K4]]]].
    destruct (enum_members_autoinc_thm ms mems E0) as [mp [M1 [M2 _]]].
    unfold conv_enum. rewrite klookup_kids, Ev. cbn [option_map].
    pose proof (conv_ft_int_node vl ia E) as Hvt. unfold conv_ft in Hvt.
    destruct (conv_cata (YMap vl)) as [rv kv]. cbn [fst] in Hvt. subst rv. cbn [rbind].
    unfold getn. rewrite Em. rewrite M1. cbn [rbind]. rewrite K1.
    eexists. split; [reflexivity|]. rewrite erase_mk_enum.
    set (cls := match c' with "sint" => "senum" | _ => "uenum" end).
    assert (Hcls : (cls = "uenum" \/ cls = "senum") /\ String.eqb cls "senum" = String.eqb c' "sint").
    { destruct K2; subst c' cls; cbn; auto. }
    destruct Hcls as [Hc1 Hc2].
    eapply v3_ft_enum with (c := cls) (mp := mp).
    - apply class_of_lookup. lk. reflexivity.
    - exact Hc1.
    - unfold v3_int_keys in K3. kin.
    - lk. reflexivity.
    - rewrite Hc2, <- K4. apply v3_int_attrs_ext; lk; reflexivity.
    - exact M2. }
  destruct (one_of c ["flt"; "float"; "floating-point"]) eqn:C3.
  { (* real *)
    destruct (keys_in ["class"; "size"; "align"; "byte-order"] l) eqn:Hk; [|discriminate]. cbn [negb] in H.
    destruct (lookup "size" l) as [[| | | | | |sl]|] eqn:Es; try discriminate.
    inv_obind H. rename a into al.
    unfold conv_real.
    assert (Hsz : lookup "size" (del "byte-order" (rename "align" "alignment" (put "class" (YStr "real") l))) = Some (YMap sl)).
    { lk. exact Es. }
    rewrite Hsz.
    assert (Hres : forall e m,
               v3_ft (S n) (YMap (put "size" (YInt (e + m)) (del "byte-order" (rename "align" "alignment" (put "class" (YStr "real") l)))))
               = Some (FReal (e + m) al)).
    { intros e m. apply v3_ft_real.
      - apply class_of_lookup. lk. reflexivity.
      - kin.
      - lk. reflexivity.
      - rewrite <- E. apply rd_z_ext. lk.
        rewrite (keys_in_none _ _ "alignment" Hk eq_refl). destruct (lookup "align" l); reflexivity. }
    destruct (real_size_cases _ _ _ _ H) as [e [m [He [Hm ->]]]]. rewrite He, Hm.
    eexists. split; [reflexivity|]. apply Hres. }
  destruct (one_of c ["str"; "string"]) eqn:C4.
  { (* string *)
    destruct (keys_in ["class"; "encoding"] l) eqn:Hk; [|discriminate]. inversion H; subst f. clear H.
    eexists. split; [reflexivity|]. unfold conv_string.
    eapply v3_ft_str with (c := c).
    - apply class_of_lookup. lk. exact Hcl.
    - now apply one_of_2.
    - kin. }
  assert (Harr : one_of c ["array"] = String.eqb c "array") by (unfold one_of; simpl; apply orb_false_r).
  rewrite Harr. clear Harr.
  destruct (String.eqb c "array") eqn:C5.
  { (* array *)
    apply String.eqb_eq in C5. subst c.
    cbn [String.eqb Ascii.eqb Bool.eqb] in H, Hok.
    destruct (negb (keys_in ["class"; "length"; "element-type"] l)); [discriminate|].
    destruct (lookup "element-type" l) as [e|] eqn:Ee; [|discriminate].
    unfold conv_array. rewrite klookup_kids, Ee. cbn [option_map].
    change (fst (conv_cata e)) with (conv_ft e).
    destruct (lookup "length" l) as [[| |len| |s| |]|] eqn:El; try discriminate.
    - destruct (v2_ft n e) as [fe|] eqn:Efe; [|discriminate]. inversion H; subst f. clear H.
      destruct (IH e fe Efe Hok) as [e' [R1 R2]].
      unfold conv_ft in R1. destruct (conv_cata e) as [re ke]. cbn [fst] in R1. subst re.
      cbn. eexists. split; [reflexivity|]. cbn [v3_ft]. cbn. rewrite R2. reflexivity.
    - rewrite match_dynamic in H. destruct (String.eqb s "dynamic") eqn:Es; [|discriminate].
      apply String.eqb_eq in Es. subst s.
      destruct (v2_ft n e) as [fe|] eqn:Efe; [|discriminate]. inversion H; subst f. clear H.
      destruct (IH e fe Efe Hok) as [e' [R1 R2]].
      unfold conv_ft in R1. destruct (conv_cata e) as [re ke]. cbn [fst] in R1. subst re.
      cbn. eexists. split; [reflexivity|]. cbn [v3_ft]. cbn. rewrite R2. reflexivity. }
  destruct (one_of c ["struct"; "structure"]) eqn:C6; [|discriminate].
  { (* structure *)
    destruct (keys_in ["class"; "min-align"; "fields"] l) eqn:Hk; [|discriminate]. cbn [negb] in H.
    inv_obind H. rename a into ma.
    unfold conv_struct.
    set (n0 := copy_prop [("class", YStr c)] l "min-align" "minimum-alignment").
    assert (Hn0c : lookup "class" n0 = Some (YStr c)).
    { unfold n0. lk. destruct (lookup "min-align" l); reflexivity. }
    assert (Hn0k : keys_in ["class"; "minimum-alignment"; "members"] n0 = true) by (unfold n0; kin).
    assert (Hn0m : lookup "members" n0 = None).
    { unfold n0. lk. destruct (lookup "min-align" l); reflexivity. }
    assert (Hn0a : lookup "minimum-alignment" n0 = lookup "min-align" l).
    { unfold n0. lk. destruct (lookup "min-align" l); reflexivity. }
    unfold opt_of in H. unfold getn.
    destruct (lookup "fields" l) as [[| | | | | |fl]|] eqn:Ef; try discriminate.
    2:{ (* a mapping of fields *)
      destruct (omapM (fun kv => option_map (pair (fst kv)) (v2_ft n (snd kv))) fl) as [fs|] eqn:Efs; [|discriminate].
      inversion H; subst f. clear H.
      rewrite klookup_kids, Ef. cbn [option_map].
      destruct (conv_cata (YMap fl)) as [rf kf] eqn:Ecf.
      assert (kf = map (fun kv => (fst kv, conv_ft (snd kv))) fl) as ->.
      { rewrite <- conv_cata_snd, Ecf. reflexivity. }
      destruct (fields_equiv n fl fs IH Efs Hok) as [ms [S1 S2]].
      rewrite S1. cbn [rbind].
      eexists. split; [reflexivity|]. cbn [erase_clk]. fold erase_member.
      eapply v3_ft_struct with (c := c).
      + apply class_of_lookup. rewrite lookup_app, Hn0c. reflexivity.
      + now apply one_of_2.
      + kin.
      + rewrite <- E. apply rd_z_ext. rewrite lookup_app, Hn0a. destruct (lookup "min-align" l); reflexivity.
      + right. exists ms. split; [|exact S2]. unfold opt_of. rewrite lookup_app, Hn0m. reflexivity. }
    (* no `fields`, or `fields: null` *)
    all: inversion H; subst f; clear H;
      eexists; (split; [reflexivity|]); cbn [erase_clk map];
      eapply v3_ft_struct with (c := c);
      [ now apply class_of_lookup
      | now apply one_of_2
      | exact Hn0k
      | rewrite <- E; apply rd_z_ext; exact Hn0a
      | left; split; [|reflexivity]; unfold opt_of; now rewrite Hn0m ]. }
Qed.

(* ================================================================== data stream types: what the converter builds *)
Ltac inv_rbind H :=
  let a := fresh "r" in let E := fresh "R" in
  apply rbind_ok in H; destruct H as [a [E H]].

Definition feature_val (o : option yaml) : yaml := match o with Some y => y | None => YBool false end.

Definition pkt_node (total content : yaml) (fbeg fend fdisc : option yaml) : entries :=
  [("total-size-field-type", total); ("content-size-field-type", content);
   ("beginning-timestamp-field-type", feature_val fbeg);
   ("end-timestamp-field-type", feature_val fend);
   ("discarded-event-records-counter-snapshot-field-type", feature_val fdisc)].

Definition er_node (fid fts : option yaml) : entries :=
  [("type-id-field-type", feature_val fid); ("timestamp-field-type", feature_val fts)].

Definition dst_node (d : entries) (def : option yaml) (pkt er : entries) (ex : list yaml) (ec : option yaml)
                    (evs' : entries) : entries :=
  let n := copy_prop [] d "$default" "$is-default" in
  let n := match def with Some c => n ++ [("$default-clock-type-name", c)] | None => n end in
  let n := n ++ [("$features", YMap [("packet", YMap pkt); ("event-record", YMap er)])] in
  let n := match ex with [] => n | _ => n ++ [("packet-context-field-type-extra-members", YSeq ex)] end in
  let n := match ec with Some c => n ++ [("event-record-common-context-field-type", c)] | None => n end in
  n ++ [("event-record-types", YMap evs')].

(* Everything _conv_dst_node computed, when it succeeds (for ALL inputs). *)
Lemma conv_dst_inv : forall d y', conv_dst (YMap d) = Ok y' ->
  exists p pf ehf tsb tse ehc total content fbeg fend fdisc fid fts ex ec evs evs',
    lookup "packet-context-type" d = Some (YMap p) /\ lookup "fields" p = Some (YMap pf)
    /\ opt_fields (getn "event-header-type" d) = Ok ehf
    /\ clk_name (lookup "timestamp_begin" pf) = Ok tsb
    /\ clk_name (lookup "timestamp_end" pf) = Ok tse
    /\ (forall a b, tsb = Some a -> tse = Some b -> yaml_eqb a b = true)
    /\ match ehf with Some ef => clk_name (lookup "timestamp" ef) | None => Ok None end = Ok ehc
    /\ req_ft "packet_size" pf = Ok total /\ req_ft "content_size" pf = Ok content
    /\ conv_ft_if_exists (Some pf) "timestamp_begin" = Ok fbeg
    /\ conv_ft_if_exists (Some pf) "timestamp_end" = Ok fend
    /\ conv_ft_if_exists (Some pf) "events_discarded" = Ok fdisc
    /\ conv_ft_if_exists (Some (match ehf with Some ef => ef | None => [] end)) "id" = Ok fid
    /\ conv_ft_if_exists (Some (match ehf with Some ef => ef | None => [] end)) "timestamp" = Ok fts
    /\ extra_members pf = Ok ex
    /\ match getn "event-context-type" d with Some t => rbind (conv_ft t) (fun c => Ok (Some c)) | None => Ok None end = Ok ec
    /\ lookup "events" d = Some (YMap evs) /\ conv_values conv_ert evs = Ok evs'
    /\ y' = YMap (dst_node d (first_some ehc (first_some tsb tse)) (pkt_node total content fbeg fend fdisc)
                           (er_node fid fts) ex ec evs').
Proof.
  intros d y' H. unfold conv_dst in H.
  destruct (lookup "packet-context-type" d) as [[| | | | | |p]|] eqn:Ep; try discriminate.
  destruct (lookup "fields" p) as [pcf|] eqn:Ef; [|discriminate].
  apply rbind_ok in H as [ehf [Rehf H]].
  destruct pcf as [| | | | | |pf]; try discriminate.
  apply rbind_ok in H as [tsb [Rtsb H]]. apply rbind_ok in H as [tse [Rtse H]].
  apply rbind_ok in H as [u [Rchk H]]. apply rbind_ok in H as [ehc [Rehc H]].
  apply rbind_ok in H as [total [Rtotal H]]. apply rbind_ok in H as [content [Rcontent H]].
  apply rbind_ok in H as [fbeg [Rfbeg H]]. apply rbind_ok in H as [fend [Rfend H]].
  apply rbind_ok in H as [fdisc [Rfdisc H]].
  apply rbind_ok in H as [fid [Rfid H]]. apply rbind_ok in H as [fts [Rfts H]].
  apply rbind_ok in H as [ex [Rex H]]. apply rbind_ok in H as [n1 [Rn1 H]].
  destruct (lookup "events" d) as [[| | | | | |evs]|] eqn:Eev; try discriminate.
  apply rbind_ok in H as [evs' [Revs H]].
  inversion H; subst y'. clear H.
  assert (Hchk : forall a b, tsb = Some a -> tse = Some b -> yaml_eqb a b = true).
  { intros a b -> ->. destruct (yaml_eqb a b); [reflexivity|discriminate]. }
  exists p, pf, ehf, tsb, tse, ehc, total, content, fbeg, fend, fdisc, fid, fts, ex.
  destruct (getn "event-context-type" d) as [t|] eqn:Ec.
  - apply rbind_ok in Rn1 as [c [Rc Rn1]]. inversion Rn1; subst n1. clear Rn1.
    exists (Some c), evs, evs'. rewrite Rc. cbn [rbind].
    repeat split; try assumption; try reflexivity;
      try (unfold dst_node, pkt_node, er_node, set_feature, put, has; cbn; destruct ex; reflexivity).
  - inversion Rn1; subst n1. clear Rn1.
    exists None, evs, evs'.
    repeat split; try assumption; try reflexivity;
      try (unfold dst_node, pkt_node, er_node, set_feature, put, has; cbn; destruct ex; reflexivity).
Qed.

Lemma dst_node_lookups : forall d def pkt er ex ec evs',
  let n := dst_node d def pkt er ex ec evs' in
  lookup "$is-default" n = lookup "$default" d
  /\ lookup "$default-clock-type-name" n = def
  /\ lookup "$features" n = Some (YMap [("packet", YMap pkt); ("event-record", YMap er)])
  /\ lookup "packet-context-field-type-extra-members" n = match ex with [] => None | _ => Some (YSeq ex) end
  /\ lookup "event-record-common-context-field-type" n = ec
  /\ lookup "event-record-types" n = Some (YMap evs')
  /\ keys_in ["$is-default"; "$default-clock-type-name"; "$features"; "packet-context-field-type-extra-members";
              "event-record-common-context-field-type"; "event-record-types"] n = true.
Proof.
  intros d def pkt er ex ec evs'. unfold dst_node.
  destruct def as [c|]; destruct ex as [|x ex]; destruct ec as [e|]; cbv zeta;
    repeat split; try (lk; destruct (lookup "$default" d); reflexivity); try kin.
Qed.

(* ================================================================== default_clock_inference *)
(* what clk_type_name_from_v2_int_ft_node returns *)
Lemma clk_name_mapped : forall il c f rest nm,
  lookup "class" il = Some (YStr c) -> one_of c ["int"; "integer"] = true ->
  lookup "property-mappings" il = Some (YSeq (YMap f :: rest)) -> lookup "name" f = Some nm ->
  clk_name (Some (YMap il)) = Ok (Some nm).
Proof.
  intros il c f rest nm H1 H2 H3 H4. unfold clk_name. rewrite H1.
  unfold in_list, int_classes. fold (one_of c ["int"; "integer"]). rewrite H2.
  unfold getn. rewrite H3, H4. reflexivity.
Qed.

Lemma clk_name_unmapped : forall il c,
  lookup "class" il = Some (YStr c) -> one_of c ["int"; "integer"] = true ->
  getn "property-mappings" il = None -> clk_name (Some (YMap il)) = Ok None.
Proof.
  intros il c H1 H2 H3. unfold clk_name. rewrite H1.
  unfold in_list, int_classes. fold (one_of c ["int"; "integer"]). rewrite H2, H3. reflexivity.
Qed.

(* For ALL inputs on which _conv_dst_node succeeds: the default clock type name is the clock of the
   event header `timestamp` member when it is mapped, else the one of `timestamp_begin`, else the one
   of `timestamp_end` (each: the `name` of the FIRST property mapping of the integer); begin and end,
   when both mapped, name the same clock.  No mapped timestamp member: no default clock. *)
Theorem default_clock_inference_thm : forall d y',
  conv_dst (YMap d) = Ok y' ->
  exists n p pf ehf tsb tse ehc,
    y' = YMap n
    /\ lookup "packet-context-type" d = Some (YMap p) /\ lookup "fields" p = Some (YMap pf)
    /\ opt_fields (getn "event-header-type" d) = Ok ehf
    /\ clk_name (lookup "timestamp_begin" pf) = Ok tsb
    /\ clk_name (lookup "timestamp_end" pf) = Ok tse
    /\ match ehf with Some ef => clk_name (lookup "timestamp" ef) | None => Ok None end = Ok ehc
    /\ (forall a b, tsb = Some a -> tse = Some b -> a = b)
    /\ lookup "$default-clock-type-name" n = first_some ehc (first_some tsb tse).
Proof.
  intros d y' H.
  destruct (conv_dst_inv d y' H) as (p & pf & ehf & tsb & tse & ehc & total & content & fbeg & fend & fdisc & fid & fts
                                     & ex & ec & evs & evs' & H1 & H2 & H3 & H4 & H5 & H6 & H7 & _ & _ & _ & _ & _ & _ & _ & _ & _ & _ & _ & ->).
  eexists. exists p, pf, ehf, tsb, tse, ehc. split; [reflexivity|].
  repeat split; try assumption.
  - intros a b Ha Hb. apply yaml_eqb_sound. now apply H6.
  - apply dst_node_lookups.
Qed.

(* ... and a begin / end mismatch is a configuration error, whatever else the stream contains *)
Theorem clock_mismatch_is_error : forall d p pf ehf a b,
  lookup "packet-context-type" d = Some (YMap p) -> lookup "fields" p = Some (YMap pf) ->
  opt_fields (getn "event-header-type" d) = Ok ehf ->
  clk_name (lookup "timestamp_begin" pf) = Ok (Some a) ->
  clk_name (lookup "timestamp_end" pf) = Ok (Some b) -> a <> b ->
  exists w, conv_dst (YMap d) = CfgErr w.
Proof.
  intros d p pf ehf a b H1 H2 H3 H4 H5 Hab. unfold conv_dst. rewrite H1, H2, H3. cbn [rbind].
  rewrite H4, H5. cbn [rbind].
  destruct (yaml_eqb a b) eqn:E; [apply yaml_eqb_sound in E; contradiction|].
  eexists. reflexivity.
Qed.

(* ================================================================== feature_inference *)
(* a reserved member name `o` (looked up in the user's structure) and the feature property `v` the
   converter wrote: absent -> `false`; present -> the user's field type, converted *)
Definition feature_spec (o : option yaml) (v : option yaml) : Prop :=
  match o with
  | None => v = Some (YBool false)
  | Some y => exists c, conv_ft y = Ok c /\ v = Some c
  end.

Lemma conv_ft_if_exists_spec : forall l k r,
  conv_ft_if_exists (Some l) k = Ok r -> feature_spec (lookup k l) (Some (feature_val r)).
Proof.
  intros l k r H. unfold conv_ft_if_exists in H. unfold feature_spec.
  destruct (lookup k l) as [y|].
  - apply rbind_ok in H as [c [Hc H]]. inversion H; subst. exists c. split; [exact Hc|reflexivity].
  - inversion H; subst. reflexivity.
Qed.

Definition member_item (name : string) (c : yaml) : yaml := YMap [(name, YMap [("field-type", c)])].

Lemma extra_members_spec : forall pf ex,
  extra_members pf = Ok ex ->
  Forall2 (fun kv item => exists c, conv_ft (snd kv) = Ok c /\ item = member_item (fst kv) c)
          (filter (fun kv => negb (in_list (fst kv) ctf_member_names)) pf) ex.
Proof.
  induction pf as [|kv pf IH]; intros ex H; cbn [extra_members] in H.
  - inversion H; subst. constructor.
  - cbn [filter]. destruct (in_list (fst kv) ctf_member_names); cbn [negb].
    + now apply IH.
    + apply rbind_ok in H as [c [Hc H]]. apply rbind_ok in H as [r [Hr H]]. inversion H; subst.
      constructor; [exists c; split; [exact Hc|reflexivity]|now apply IH].
Qed.

(* For ALL inputs on which _conv_dst_node succeeds: the reserved member names of the packet context and
   of the event header become the barectf 3 features, each carrying exactly the user's (converted)
   field type, `false` when the member is absent; every other packet context member becomes an extra
   member, in document order; nothing else is produced from those two structures. *)
Theorem feature_inference_thm : forall d y',
  conv_dst (YMap d) = Ok y' ->
  exists n p pf ehf pkt er,
    y' = YMap n
    /\ lookup "packet-context-type" d = Some (YMap p) /\ lookup "fields" p = Some (YMap pf)
    /\ opt_fields (getn "event-header-type" d) = Ok ehf
    /\ lookup "$features" n = Some (YMap [("packet", YMap pkt); ("event-record", YMap er)])
    /\ keys pkt = ["total-size-field-type"; "content-size-field-type"; "beginning-timestamp-field-type";
                   "end-timestamp-field-type"; "discarded-event-records-counter-snapshot-field-type"]
    /\ keys er = ["type-id-field-type"; "timestamp-field-type"]
    /\ feature_spec (lookup "packet_size" pf) (lookup "total-size-field-type" pkt)
    /\ feature_spec (lookup "content_size" pf) (lookup "content-size-field-type" pkt)
    /\ feature_spec (lookup "timestamp_begin" pf) (lookup "beginning-timestamp-field-type" pkt)
    /\ feature_spec (lookup "timestamp_end" pf) (lookup "end-timestamp-field-type" pkt)
    /\ feature_spec (lookup "events_discarded" pf) (lookup "discarded-event-records-counter-snapshot-field-type" pkt)
    /\ (let ef := match ehf with Some ef => ef | None => [] end in
        feature_spec (lookup "id" ef) (lookup "type-id-field-type" er)
        /\ feature_spec (lookup "timestamp" ef) (lookup "timestamp-field-type" er))
    /\ exists ex,
         Forall2 (fun kv item => exists c, conv_ft (snd kv) = Ok c /\ item = member_item (fst kv) c)
                 (filter (fun kv => negb (in_list (fst kv) ctf_member_names)) pf) ex
         /\ lookup "packet-context-field-type-extra-members" n = match ex with [] => None | _ => Some (YSeq ex) end.
Proof.
  intros d y' H.
  destruct (conv_dst_inv d y' H) as (p & pf & ehf & tsb & tse & ehc & total & content & fbeg & fend & fdisc & fid & fts
                                     & ex & ec & evs & evs' & H1 & H2 & H3 & _ & _ & _ & _ & Ht & Hc & Hb & He & Hd & Hi & Hts & Hex & _ & _ & _ & ->).
  eexists. exists p, pf, ehf, (pkt_node total content fbeg fend fdisc), (er_node fid fts).
  split; [reflexivity|]. split; [exact H1|]. split; [exact H2|]. split; [exact H3|].
  split; [apply dst_node_lookups|]. split; [reflexivity|]. split; [reflexivity|].
  assert (Hreq : forall k r, req_ft k pf = Ok r -> feature_spec (lookup k pf) (Some r)).
  { intros k r Hr. unfold req_ft in Hr. unfold feature_spec. destruct (lookup k pf); [|discriminate]. eauto. }
  split; [now apply Hreq|]. split; [now apply Hreq|].
  split; [now apply conv_ft_if_exists_spec|]. split; [now apply conv_ft_if_exists_spec|].
  split; [now apply conv_ft_if_exists_spec|].
  split; [split; now apply conv_ft_if_exists_spec|].
  exists ex. split; [now apply extra_members_spec|apply dst_node_lookups].
Qed.

(* ================================================================== version_detect *)
Theorem version_detect_thm :
  (forall l, major_version true (YMap l) = Ok 3%Z)
  /\ (forall l, major_version false (YMap l) = Ok 2%Z)
  /\ (forall l, parser_dispatch true (YMap l) = Ok 3%Z)
  /\ (forall l, parser_dispatch false (YMap l) = Ok 2%Z)
  /\ (forall b y, (forall l, y <> YMap l) -> is_ok (major_version b y) = false /\ is_ok (parser_dispatch b y) = false).
Proof.
  repeat split; try reflexivity; destruct b, y; try reflexivity; exfalso; eapply H; reflexivity.
Qed.

(* ================================================================== the hypotheses are needed: refutations
   Each witness is a document the barectf 2 schema accepts and the independent reading understands,
   on which the converter's output does NOT read as the same abstract configuration. *)
Definition disagrees (w : yaml) : Prop :=
  exists g, v2_sem 10 w = Some g /\ forall t', conv_config w = Ok t' -> v3_sem 10 t' <> Some g.

Ltac refute w :=
  unfold disagrees;
  let g := eval vm_compute in (v2_sem 10 w) in
  match g with
  | Some ?c => exists c; split; [vm_compute; reflexivity|];
               let t := eval vm_compute in (conv_config w) in
               match t with
               | Ok ?t' => intros x Hx; assert (Hc : conv_config w = Ok t') by (vm_compute; reflexivity);
                           rewrite Hc in Hx; inversion Hx; subst x; vm_compute; discriminate
               | _ => intros x Hx; assert (Hc : conv_config w = t) by (vm_compute; reflexivity);
                      rewrite Hc in Hx; discriminate
               end
  end.

(* H1 (a float carrying `byte-order`) was refuted by w_real_byte_order until fix 3990a98 of /repo; the document
   is now inside valid_v2 and is kept as a regression input of the harness *)
Example w_real_byte_order_now_valid : valid_v2 10 w_real_byte_order = true.
Proof. vm_compute. reflexivity. Qed.
(* H2 (`fields: null`, header structure without `fields`) was refuted by w_fields_null until fix 616725c of /repo *)
Example w_fields_null_now_valid : valid_v2 10 w_fields_null = true /\ valid_v2 10 w_header_no_fields = true.
Proof. split; vm_compute; reflexivity. Qed.
Theorem H3_seq_num_refuted : disagrees w_seq_num.
Proof. refute w_seq_num. Qed.
Theorem H4_mixed_clocks_refuted : disagrees w_mixed_clocks.
Proof. refute w_mixed_clocks. Qed.
Theorem H5_header_members_refuted : disagrees w_header_members.
Proof. refute w_header_members. Qed.
Theorem H6_payload_mapping_refuted : disagrees w_payload_mapping.
Proof. refute w_payload_mapping. Qed.

(* ================================================================== clocks *)
Lemma clock_equiv : forall y c, v2_clock y = Some c -> exists y', conv_clock y = Ok y' /\ v3_clock y' = Some c.
Proof.
  intros y c H. destruct y as [| | | | | |l]; try discriminate. cbn [v2_clock] in H.
  destruct (keys_in v2_clock_keys l) eqn:Hk; [|discriminate]. cbn [negb] in H.
  destruct (has_both l) eqn:Hb; [discriminate|].
  inv_obind H. inv_obind H. inv_obind H. inv_obind H. inv_obind H. inv_obind H. inv_obind H. inv_obind H.
  inversion H; subst c. clear H.
  rename a into fr, a0 into pr, a1 into off, a2 into ab, a3 into de, a4 into uu, a5 into c1, a6 into c2.
  eexists. split; [reflexivity|].
  set (r := rename "$return-ctype" "$c-type" (rename "return-ctype" "$c-type" (rename "absolute" "origin-is-unix-epoch"
              (rename "error-cycles" "precision" (rename "freq" "frequency" l))))).
  assert (Hn : forall k, one_of k v2_clock_keys = false -> lookup k l = None) by (intros; eapply keys_in_none; eauto).
  assert (L1 : lookup "frequency" r = lookup "freq" l).
  { unfold r. lk. rewrite (Hn "frequency" eq_refl). destruct (lookup "freq" l); reflexivity. }
  assert (L2 : lookup "precision" r = lookup "error-cycles" l).
  { unfold r. lk. rewrite (Hn "precision" eq_refl). destruct (lookup "error-cycles" l); reflexivity. }
  assert (L3 : lookup "origin-is-unix-epoch" r = lookup "absolute" l).
  { unfold r. lk. rewrite (Hn "origin-is-unix-epoch" eq_refl). destruct (lookup "absolute" l); reflexivity. }
  assert (L4 : lookup "offset" r = lookup "offset" l) by (unfold r; lk; reflexivity).
  assert (L5 : lookup "description" r = lookup "description" l) by (unfold r; lk; reflexivity).
  assert (L6 : lookup "uuid" r = lookup "uuid" l) by (unfold r; lk; reflexivity).
  assert (L7 : lookup "$c-type" r = match lookup "$return-ctype" l with Some v => Some v | None => lookup "return-ctype" l end).
  { unfold r. lk. rewrite (Hn "$c-type" eq_refl). destruct (lookup "$return-ctype" l); [reflexivity|].
    destruct (lookup "return-ctype" l); reflexivity. }
  assert (K : keys_in v3_clock_keys r = true) by (unfold r, v3_clock_keys; unfold v2_clock_keys in Hk; kin).
  cbn [v3_clock]. rewrite K. cbn [negb].
  rewrite (rd_z_ext _ _ _ _ L1), E. cbn [obind].
  rewrite (rd_z_ext _ _ _ _ L2), E0. cbn [obind].
  assert (Hoff : rd_offset r = rd_offset l) by (unfold rd_offset; now rewrite (opt_of_ext _ _ _ _ L4)).
  rewrite Hoff, E1. cbn [obind].
  rewrite (rd_b_ext _ _ _ _ L3), E2. cbn [obind].
  rewrite (rd_s_ext _ _ _ _ L5), E3. cbn [obind].
  rewrite (rd_s_ext _ _ _ _ L6), E4. cbn [obind].
  (* the C type: exactly one of the two spellings can be present *)
  assert (Hct : rd_s "$c-type" r = Some (match c1 with Some _ => c1 | None => c2 end)).
  { unfold rd_s, opt_of. rewrite L7. unfold has_both in Hb. rewrite !mem_keys in Hb.
    unfold rd_s, opt_of in E5, E6.
    destruct (lookup "$return-ctype" l) as [v2|]; destruct (lookup "return-ctype" l) as [v1|]; try discriminate.
    - inversion E5; subst c1. exact E6.
    - inversion E6; subst c2. destruct v1; inversion E5; subst; reflexivity.
    - inversion E5; inversion E6; reflexivity. }
  rewrite Hct. reflexivity.
Qed.

(* lists of named objects, converted and read member by member *)
Lemma named_equiv : forall {A} (cv : yaml -> res yaml) (rd2 rd3 : yaml -> option A) (tr : A -> A) (ok : yaml -> bool),
  (forall y a, rd2 y = Some a -> ok y = true -> exists y', cv y = Ok y' /\ rd3 y' = Some (tr a)) ->
  forall l la, named rd2 l = Some la -> forallb (fun kv => ok (snd kv)) l = true ->
  exists l', conv_values cv l = Ok l' /\ named rd3 l' = Some (map (fun na => (fst na, tr (snd na))) la)
             /\ keys l' = keys l.
Proof.
  intros A cv rd2 rd3 tr ok Hone. induction l as [|[k y] l IH]; intros la H Hok; unfold named in *; simpl in *.
  - inversion H; subst. exists []. repeat split.
  - apply andb_prop in Hok. destruct Hok as [Hok1 Hok2].
    destruct (rd2 y) as [a|] eqn:Ea; simpl in H; [|discriminate].
    destruct (omapM (fun kv => option_map (pair (fst kv)) (rd2 (snd kv))) l) as [la'|] eqn:El; simpl in H; [|discriminate].
    inversion H; subst la. clear H.
    destruct (Hone y a Ea Hok1) as [y' [C1 C2]].
    destruct (IH la' eq_refl Hok2) as [l' [D1 [D2 D3]]].
    rewrite C1. simpl. rewrite D1. simpl. eexists. split; [reflexivity|]. simpl. rewrite C2. simpl.
    rewrite D2. simpl. split; [reflexivity|]. now rewrite D3.
Qed.

(* ================================================================== events *)
Definition erase_o (o : option ft) : option ft := option_map erase_clk o.
Definition erase_event (e : event) : event := mkEvent (e_level e) (erase_o (e_ctx e)) (erase_o (e_payload e)).

Lemma v3_ft_is_map : forall fuel y f, v3_ft fuel y = Some f -> exists l, y = YMap l.
Proof. intros [|n] y f H; [discriminate|]. destruct y; try discriminate. eauto. Qed.

(* an optional field type property: converter and both readings *)
Lemma opt_ft_equiv : forall fuel k l o,
  rd_ft (v2_ft fuel) k l = Some o -> oft_conv_ok fuel k l = true ->
  match getn k l with
  | None => o = None
  | Some t => exists c m f, conv_ft t = Ok c /\ c = YMap m /\ o = Some f /\ v3_ft fuel c = Some (erase_clk f)
  end.
Proof.
  intros fuel k l o H Hok. unfold rd_ft in H. unfold oft_conv_ok in Hok. unfold getn. unfold opt_of in *.
  destruct (lookup k l) as [[| | | | | |]|] eqn:E; try (inversion H; reflexivity);
    (destruct (v2_ft fuel _) as [f|] eqn:Ef; [|discriminate]; inversion H; subst o;
     destruct (ft_equiv _ _ _ Ef Hok) as [c [C1 C2]]; destruct (v3_ft_is_map _ _ _ C2) as [m ->];
     exists (YMap m), m, f; repeat split; assumption).
Qed.

Lemma event_equiv : forall fuel y e,
  v2_event fuel y = Some e -> valid_event fuel y = true ->
  exists y', conv_ert y = Ok y' /\ v3_event fuel y' = Some (erase_event e).
Proof.
  intros fuel y e H Hv. destruct y as [| | | | | |l]; try discriminate.
  unfold valid_event in Hv. rewrite H in Hv.
  apply andb_prop in Hv. destruct Hv as [Hv _]. apply andb_prop in Hv. destruct Hv as [Hv _].
  apply andb_prop in Hv. destruct Hv as [Hc Hp].
  cbn [v2_event] in H.
  destruct (keys_in ["log-level"; "context-type"; "payload-type"] l) eqn:Hk; [|discriminate]. cbn [negb] in H.
  inv_obind H. inv_obind H. inv_obind H. inversion H; subst e. clear H. rename a into lv, a0 into cx, a1 into pl.
  pose proof (opt_ft_equiv _ _ _ _ E0 Hc) as Hcx. pose proof (opt_ft_equiv _ _ _ _ E1 Hp) as Hpl.
  cbn [conv_ert].
  set (n0 := copy_prop [] l "log-level" "log-level").
  assert (N1 : lookup "log-level" n0 = lookup "log-level" l).
  { unfold n0. lk. destruct (lookup "log-level" l); reflexivity. }
  assert (N2 : forall k, String.eqb k "log-level" = false -> lookup k n0 = None).
  { intros k Hk0. unfold n0. rewrite lookup_copy_prop, Hk0. destruct (lookup "log-level" l); reflexivity. }
  assert (N3 : keys_in ["log-level"; "specific-context-field-type"; "payload-field-type"] n0 = true) by (unfold n0; kin).
  assert (Hlv : forall n1, lookup "log-level" n1 = lookup "log-level" l -> rd_level n1 = Some lv).
  { intros n1 Hn1. rewrite <- E. unfold rd_level. now rewrite (opt_of_ext _ _ _ _ Hn1). }
  unfold erase_event. cbn [e_level e_ctx e_payload].
  destruct (getn "context-type" l) as [tc|]; destruct (getn "payload-type" l) as [tp|].
  - destruct Hcx as (c1 & m1 & f1 & C1 & -> & -> & C3). destruct Hpl as (c2 & m2 & f2 & P1 & -> & -> & P3).
    rewrite C1. cbn [rbind]. rewrite P1. cbn [rbind].
    eexists. split; [reflexivity|]. cbn [v3_event].
    assert (K : keys_in ["log-level"; "specific-context-field-type"; "payload-field-type"]
                  ((n0 ++ [("specific-context-field-type", YMap m1)]) ++ [("payload-field-type", YMap m2)]) = true) by kin.
    rewrite K. cbn [negb].
    rewrite Hlv by (lk; rewrite N1; destruct (lookup "log-level" l); reflexivity). cbn [obind].
    unfold rd_ft, opt_of. lk. rewrite !N2 by reflexivity. cbn [lookup String.eqb Ascii.eqb Bool.eqb fst snd].
    rewrite C3. cbn [option_map obind]. rewrite P3. reflexivity.
  - destruct Hcx as (c1 & m1 & f1 & C1 & -> & -> & C3). subst pl.
    rewrite C1. cbn [rbind].
    eexists. split; [reflexivity|]. cbn [v3_event].
    assert (K : keys_in ["log-level"; "specific-context-field-type"; "payload-field-type"]
                  (n0 ++ [("specific-context-field-type", YMap m1)]) = true) by kin.
    rewrite K. cbn [negb].
    rewrite Hlv by (lk; rewrite N1; destruct (lookup "log-level" l); reflexivity). cbn [obind].
    unfold rd_ft, opt_of. lk. rewrite !N2 by reflexivity. cbn [lookup String.eqb Ascii.eqb Bool.eqb fst snd].
    rewrite C3. reflexivity.
  - subst cx. destruct Hpl as (c2 & m2 & f2 & P1 & -> & -> & P3).
    rewrite P1. cbn [rbind].
    eexists. split; [reflexivity|]. cbn [v3_event].
    assert (K : keys_in ["log-level"; "specific-context-field-type"; "payload-field-type"]
                  (n0 ++ [("payload-field-type", YMap m2)]) = true) by kin.
    rewrite K. cbn [negb].
    rewrite Hlv by (lk; rewrite N1; destruct (lookup "log-level" l); reflexivity). cbn [obind].
    unfold rd_ft, opt_of. lk. rewrite !N2 by reflexivity. cbn [lookup String.eqb Ascii.eqb Bool.eqb fst snd].
    rewrite P3. reflexivity.
  - subst cx pl. cbn [rbind].
    eexists. split; [reflexivity|]. cbn [v3_event]. rewrite N3. cbn [negb].
    rewrite (Hlv n0 N1). cbn [obind].
    unfold rd_ft, opt_of. rewrite !N2 by reflexivity. reflexivity.
Qed.

(* ================================================================== streams *)
Section FtInd.
  Variable P : ft -> Prop.
  Hypothesis Hint : forall sz sg al b c, P (FInt sz sg al b c).
  Hypothesis Henum : forall sz sg al b c r, P (FEnum sz sg al b c r).
  Hypothesis Hreal : forall sz al, P (FReal sz al).
  Hypothesis Hstr : P FStr.
  Hypothesis Hsarr : forall n e, P e -> P (FSArr n e).
  Hypothesis Hdarr : forall e, P e -> P (FDArr e).
  Hypothesis Hstruct : forall ma ms, Forall (fun m => P (snd m)) ms -> P (FStruct ma ms).

  Fixpoint ft_ind' (f : ft) : P f :=
    match f with
    | FInt sz sg al b c => Hint sz sg al b c
    | FEnum sz sg al b c r => Henum sz sg al b c r
    | FReal sz al => Hreal sz al
    | FStr => Hstr
    | FSArr n e => Hsarr n e (ft_ind' e)
    | FDArr e => Hdarr e (ft_ind' e)
    | FStruct ma ms => Hstruct ma ms ((fix go (l : list (string * ft)) : Forall (fun m => P (snd m)) l :=
                                         match l with
                                         | [] => Forall_nil _
                                         | m :: l' => Forall_cons m (ft_ind' (snd m)) (go l')
                                         end) ms)
    end.
End FtInd.

Lemma no_clk_erase : forall f, no_clk f = true -> erase_clk f = f.
Proof.
  induction f as [| | | | n e IH | e IH | ma ms IH] using ft_ind'; intros H; simpl in *.
  - destruct c; [discriminate|reflexivity].
  - destruct c; [discriminate|reflexivity].
  - reflexivity.
  - reflexivity.
  - now rewrite IH.
  - now rewrite IH.
  - f_equal. induction IH as [|[nm g] ms Hg _ IHl]; simpl in *; [reflexivity|].
    apply andb_prop in H. destruct H as [H1 H2]. rewrite (Hg H1), (IHl H2). reflexivity.
Qed.

Lemma no_clk_o_erase : forall o, no_clk_o o = true -> erase_o o = o.
Proof. intros [f|] H; simpl in *; [now rewrite no_clk_erase|reflexivity]. Qed.

Lemma ts_restore : forall c f, ts_ok c (Some f) = true -> set_clk c (erase_clk f) = f.
Proof.
  intros c f H. destruct f; simpl in H; try discriminate. simpl.
  destruct clk as [k|]; destruct c as [x|]; simpl in H; try discriminate.
  - apply String.eqb_eq in H. now subst.
  - reflexivity.
Qed.

Lemma getn_opt_of : forall k l, getn k l = opt_of k l.
Proof. intros. unfold getn, opt_of. destruct (lookup k l) as [[| | | | | |]|]; reflexivity. Qed.

Lemma forallb_lookup : forall (P : yaml -> bool) l k y,
  forallb (fun kv => P (snd kv)) l = true -> lookup k l = Some y -> P y = true.
Proof.
  intros P l k y H. induction l as [|kv l IH]; simpl in *; [discriminate|].
  apply andb_prop in H. destruct H as [H1 H2].
  destruct (String.eqb (fst kv) k); [intros E; inversion E; subst; exact H1|now apply IH].
Qed.

(* the clock name the converter reads off a member the barectf 2 reading understands as an integer *)
Lemma clk_name_of_ft : forall fuel y sz sg al b ck,
  v2_ft fuel y = Some (FInt sz sg al b ck) -> clk_name (Some y) = Ok (option_map YStr ck).
Proof.
  intros [|n] y sz sg al b ck H; [discriminate|]. destruct y as [| | | | | |l]; try discriminate.
  cbn [v2_ft] in H. destruct (class_of l) as [c|] eqn:Ec; [|discriminate]. cbn [obind] in H.
  pose proof (proj1 (class_of_lookup l c) Ec) as Hcl.
  destruct (one_of c ["int"; "integer"]) eqn:C1.
  - destruct (v2_int l) as [[[[[sz' sg'] al'] b'] ck']|] eqn:Ea; [|discriminate]. inversion H; subst. clear H.
    unfold v2_int in Ea. destruct (negb (keys_in v2_int_keys l)); [discriminate|]. rewrite Hcl in Ea. rewrite C1 in Ea.
    cbn [negb] in Ea. destruct (lookup "size" l) as [[| |z| | | |]|]; try discriminate.
    inv_obind Ea. inv_obind Ea. inv_obind Ea. inv_obind Ea. inversion Ea; subst. clear Ea.
    unfold clk_name. rewrite Hcl. unfold in_list, int_classes. fold (one_of c ["int"; "integer"]). rewrite C1.
    rewrite getn_opt_of. unfold rd_mapping in E2.
    destruct (opt_of "property-mappings" l) as [[| | | | |[|[| | | | | |m] [|? ?]]|]|]; try discriminate.
    + destruct (lookup "name" m) as [[| | | |nm| |]|]; try discriminate. inversion E2; subst. reflexivity.
    + inversion E2; subst. reflexivity.
  - (* any other class reads as something that is not FInt *)
    exfalso.
    destruct (one_of c ["enum"; "enumeration"]).
    { destruct (negb (keys_in ["class"; "value-type"; "members"] l)); [discriminate|].
      destruct (lookup "value-type" l) as [[| | | | | |vl]|]; try discriminate.
      destruct (lookup "members" l) as [[| | | | |ms|]|]; try discriminate.
      inv_obind H. inv_obind H. destruct a as [[[[? ?] ?] ?] ?]. discriminate. }
    destruct (one_of c ["flt"; "float"; "floating-point"]).
    { destruct (negb (keys_in ["class"; "size"; "align"; "byte-order"] l)); [discriminate|].
      destruct (lookup "size" l) as [[| | | | | |sl]|]; try discriminate.
      inv_obind H. destruct (real_size_cases _ _ _ _ H) as [e [m [_ [_ Hf]]]]. discriminate. }
    destruct (one_of c ["str"; "string"]).
    { destruct (keys_in ["class"; "encoding"] l); discriminate. }
    destruct (String.eqb c "array").
    { destruct (negb (keys_in ["class"; "length"; "element-type"] l)); [discriminate|].
      destruct (lookup "element-type" l); [|discriminate].
      destruct (lookup "length" l) as [[| |len| |s| |]|]; try discriminate.
      - destruct (v2_ft n y); discriminate.
      - rewrite match_dynamic in H. destruct (String.eqb s "dynamic"); [|discriminate].
        destruct (v2_ft n y); discriminate. }
    destruct (one_of c ["struct"; "structure"]); [|discriminate].
    destruct (negb (keys_in ["class"; "min-align"; "fields"] l)); [discriminate|].
    inv_obind H. destruct (opt_of "fields" l) as [[| | | | | |fl]|]; try discriminate.
    destruct (omapM _ fl); discriminate.
Qed.

(* a member of the packet context / event header looked up by a reserved name *)
Lemma member_equiv : forall fuel pf k o,
  forallb (fun kv => ft_conv_ok fuel (snd kv)) pf = true ->
  rd_ft (v2_ft fuel) k pf = Some o ->
  exists r, conv_ft_if_exists (Some pf) k = Ok r
    /\ match o with
       | None => r = None /\ lookup k pf = None
       | Some f => exists y m, lookup k pf = Some y /\ v2_ft fuel y = Some f
                               /\ r = Some (YMap m) /\ v3_ft fuel (YMap m) = Some (erase_clk f)
       end.
Proof.
  intros fuel pf k o Hok H. unfold rd_ft, opt_of in H. unfold conv_ft_if_exists.
  destruct (lookup k pf) as [y|] eqn:E.
  - pose proof (forallb_lookup _ _ _ _ Hok E) as Hy.
    destruct y as [| | | | | |l]; try (destruct fuel; discriminate).
    destruct (v2_ft fuel (YMap l)) as [f|] eqn:Ef; [|discriminate]. inversion H; subst o.
    destruct (ft_equiv _ _ _ Ef Hy) as [c [C1 C2]]. destruct (v3_ft_is_map _ _ _ C2) as [m ->].
    rewrite C1. cbn [rbind]. eexists. split; [reflexivity|]. exists (YMap l), m. repeat split; assumption.
  - inversion H; subst o. eexists. split; [reflexivity|]. split; reflexivity.
Qed.

Lemma required_equiv : forall fuel pf k f,
  forallb (fun kv => ft_conv_ok fuel (snd kv)) pf = true ->
  obind (lookup k pf) (v2_ft fuel) = Some f ->
  exists m, req_ft k pf = Ok (YMap m) /\ v3_ft fuel (YMap m) = Some (erase_clk f).
Proof.
  intros fuel pf k f Hok H. unfold req_ft. destruct (lookup k pf) as [y|] eqn:E; [|discriminate]. cbn [obind] in H.
  pose proof (forallb_lookup _ _ _ _ Hok E) as Hy.
  destruct (ft_equiv _ _ _ H Hy) as [c [C1 C2]]. destruct (v3_ft_is_map _ _ _ C2) as [m ->]. eauto.
Qed.

Lemma extra_equiv : forall fuel pf xs,
  forallb (fun kv => ft_conv_ok fuel (snd kv)) pf = true ->
  others (v2_ft fuel) ["packet_size"; "content_size"; "timestamp_begin"; "timestamp_end"; "events_discarded"; "packet_seq_num"] pf = Some xs ->
  exists ex, extra_members pf = Ok ex /\ omapM (v3_member (v3_ft fuel)) ex = Some (map erase_member xs).
Proof.
  intros fuel pf. unfold others, named. induction pf as [|[k y] pf IH]; intros xs Hok H; cbn [filter extra_members] in *.
  - inversion H; subst. exists []. split; reflexivity.
  - cbn [forallb snd] in Hok. apply andb_prop in Hok. destruct Hok as [Hy Hok].
    cbn [fst] in *. unfold in_list, ctf_member_names.
    fold (one_of k ["packet_size"; "content_size"; "timestamp_begin"; "timestamp_end"; "events_discarded"; "packet_seq_num"]).
    destruct (one_of k ["packet_size"; "content_size"; "timestamp_begin"; "timestamp_end"; "events_discarded"; "packet_seq_num"]);
      cbn [negb] in H.
    + now apply IH.
    + cbn [omapM fst snd] in H.
      destruct (v2_ft fuel y) as [f|] eqn:Ef; cbn [option_map obind] in H; [|discriminate].
      destruct (omapM (fun kv => option_map (pair (fst kv)) (v2_ft fuel (snd kv)))
                      (filter (fun kv => negb (one_of (fst kv) ["packet_size"; "content_size"; "timestamp_begin"; "timestamp_end"; "events_discarded"; "packet_seq_num"])) pf))
        as [xs'|] eqn:Exs; cbn [obind] in H; [|discriminate].
      inversion H; subst xs. clear H.
      destruct (ft_equiv _ _ _ Ef Hy) as [c [C1 C2]].
      destruct (IH xs' Hok eq_refl) as [ex [X1 X2]].
      cbn [snd]. rewrite C1. cbn [rbind]. rewrite X1. cbn [rbind]. eexists. split; [reflexivity|].
      cbn [omapM v3_member]. rewrite C2. cbn [option_map obind]. rewrite X2. reflexivity.
Qed.

Lemma conv_dst_fwd : forall d p pf ehf tsb tse ehc total content fbeg fend fdisc fid fts ex ec evs evs',
  lookup "packet-context-type" d = Some (YMap p) -> lookup "fields" p = Some (YMap pf) ->
  opt_fields (getn "event-header-type" d) = Ok ehf ->
  clk_name (lookup "timestamp_begin" pf) = Ok tsb ->
  clk_name (lookup "timestamp_end" pf) = Ok tse ->
  (forall a b, tsb = Some a -> tse = Some b -> yaml_eqb a b = true) ->
  match ehf with Some ef => clk_name (lookup "timestamp" ef) | None => Ok None end = Ok ehc ->
  req_ft "packet_size" pf = Ok total -> req_ft "content_size" pf = Ok content ->
  conv_ft_if_exists (Some pf) "timestamp_begin" = Ok fbeg ->
  conv_ft_if_exists (Some pf) "timestamp_end" = Ok fend ->
  conv_ft_if_exists (Some pf) "events_discarded" = Ok fdisc ->
  conv_ft_if_exists (Some (match ehf with Some ef => ef | None => [] end)) "id" = Ok fid ->
  conv_ft_if_exists (Some (match ehf with Some ef => ef | None => [] end)) "timestamp" = Ok fts ->
  extra_members pf = Ok ex ->
  match getn "event-context-type" d with Some t => rbind (conv_ft t) (fun c => Ok (Some c)) | None => Ok None end = Ok ec ->
  lookup "events" d = Some (YMap evs) -> conv_values conv_ert evs = Ok evs' ->
  conv_dst (YMap d) = Ok (YMap (dst_node d (first_some ehc (first_some tsb tse)) (pkt_node total content fbeg fend fdisc)
                                         (er_node fid fts) ex ec evs')).
Proof.
  intros d p pf ehf tsb tse ehc total content fbeg fend fdisc fid fts ex ec evs evs'
         H1 H2 H3 H4 H5 H6 H7 H8 H9 H10 H11 H12 H13 H14 H15 H16 H17 H18.
  unfold conv_dst. rewrite H1, H2, H3. cbn [rbind]. rewrite H4, H5. cbn [rbind].
  assert (Hchk : match tsb, tse with
                 | Some a, Some b => if yaml_eqb a b then Ok tt else CfgErr "Field types are not mapped to the same clock type"
                 | _, _ => Ok tt
                 end = Ok tt).
  { destruct tsb as [a|]; destruct tse as [b|]; try reflexivity. now rewrite (H6 a b eq_refl eq_refl). }
  rewrite Hchk. cbn [rbind]. rewrite H7. cbn [rbind].
  rewrite H8, H9. cbn [rbind]. rewrite H10, H11, H12. cbn [rbind]. rewrite H13, H14. cbn [rbind].
  rewrite H15. cbn [rbind]. rewrite H17.
  destruct (getn "event-context-type" d) as [t|].
  - apply rbind_ok in H16 as [c [Hc H16]]. inversion H16; subst ec. rewrite Hc. cbn [rbind]. rewrite H18. cbn [rbind].
    unfold dst_node, pkt_node, er_node, set_feature, put, has. cbn. destruct ex; reflexivity.
  - inversion H16; subst ec. cbn [rbind]. rewrite H18. cbn [rbind].
    unfold dst_node, pkt_node, er_node, set_feature, put, has. cbn. destruct ex; reflexivity.
Qed.

Lemma erase_event_valid : forall fuel y e,
  v2_event fuel y = Some e -> valid_event fuel y = true -> erase_event e = e.
Proof.
  intros fuel y e H Hv. unfold valid_event in Hv. destruct y; try discriminate. rewrite H in Hv.
  apply andb_prop in Hv. destruct Hv as [Hv H2]. apply andb_prop in Hv. destruct Hv as [_ H1].
  destruct e as [lv cx pl]. unfold erase_event. cbn in *. now rewrite (no_clk_o_erase _ H1), (no_clk_o_erase _ H2).
Qed.

(* the three timestamp members of a valid stream, seen by the converter *)
Lemma ts_member_clk : forall fuel pf k o c,
  forallb (fun kv => ft_conv_ok fuel (snd kv)) pf = true ->
  rd_ft (v2_ft fuel) k pf = Some o -> ts_ok c o = true ->
  clk_name (lookup k pf) = Ok (match o with Some _ => option_map YStr c | None => None end).
Proof.
  intros fuel pf k o c Hok H Hts.
  destruct (member_equiv _ _ _ _ Hok H) as [r [_ Hm]].
  destruct o as [f|].
  - destruct Hm as (y & m & E & Ef & _ & _). rewrite E.
    destruct f; simpl in Hts; try discriminate.
    rewrite (clk_name_of_ft _ _ _ _ _ _ _ Ef).
    destruct clk as [k'|]; destruct c as [x|]; simpl in Hts; try discriminate; [|reflexivity].
    apply String.eqb_eq in Hts. now subst.
  - destruct Hm as [_ E]. rewrite E. reflexivity.
Qed.

Lemma v2_fields_keys : forall t fl, v2_fields (Some (YMap t)) = Some fl ->
  (opt_of "fields" t = None /\ fl = []) \/ lookup "fields" t = Some (YMap fl).
Proof.
  intros t fl H. cbn [v2_fields] in H.
  destruct (negb (keys_in ["class"; "min-align"; "fields"] t)); [discriminate|].
  destruct (class_of t) as [c|]; [|discriminate].
  destruct (one_of c ["struct"; "structure"]); [|discriminate].
  unfold opt_of in *. destruct (lookup "fields" t) as [[| | | | | |m]|]; try discriminate; inversion H; subst; auto.
Qed.

Lemma default_clock_is_stream_clock : forall ts beg en,
  ts_ok (stream_clock ts beg en) ts = true -> ts_ok (stream_clock ts beg en) beg = true ->
  ts_ok (stream_clock ts beg en) en = true ->
  first_some (match ts with Some _ => option_map YStr (stream_clock ts beg en) | None => None end)
             (first_some (match beg with Some _ => option_map YStr (stream_clock ts beg en) | None => None end)
                         (match en with Some _ => option_map YStr (stream_clock ts beg en) | None => None end))
  = option_map YStr (stream_clock ts beg en).
Proof.
  intros ts beg en H1 H2 H3.
  destruct ts as [[? ? ? ? c1| | | | | |]|]; try discriminate;
  destruct beg as [[? ? ? ? c2| | | | | |]|]; try discriminate;
  destruct en as [[? ? ? ? c3| | | | | |]|]; try discriminate;
  try destruct c1; try destruct c2; try destruct c3; cbn in *; try discriminate; reflexivity.
Qed.

Theorem stream_equiv : forall fuel y s,
  v2_stream fuel y = Some s -> valid_stream fuel y = true ->
  exists y', conv_dst y = Ok y' /\ v3_stream fuel y' = Some s.
Proof.
  intros fuel y s H Hv. destruct y as [| | | | | |d]; try discriminate.
  unfold valid_stream in Hv. rewrite H in Hv.
  repeat (apply andb_prop in Hv; let X := fresh "V" in destruct Hv as [Hv X]).
  rename Hv into Vpc.
  destruct (lookup "packet-context-type" d) as [[| | | | | |p]|] eqn:Ep; try discriminate.
  destruct (lookup "fields" p) as [[| | | | | |pf]|] eqn:Epf; try discriminate.
  cbn [v2_stream] in H.
  destruct (keys_in ["$default"; "packet-context-type"; "event-header-type"; "event-context-type"; "events"] d) eqn:Hk; [|discriminate].
  cbn [negb] in H. rewrite Ep in H.
  (* packet context members *)
  apply obind_some in H as [pf' [Epf' H]].
  assert (pf' = pf) as ->.
  { destruct (v2_fields_keys _ _ Epf') as [[A _]|A]; [unfold opt_of in A; rewrite Epf in A; discriminate|].
    rewrite Epf in A. now inversion A. }
  (* event header members *)
  apply obind_some in H as [ef [Eef H]].
  assert (Hehf : exists ehf, opt_fields (getn "event-header-type" d) = Ok ehf
                             /\ ef = match ehf with Some x => x | None => [] end
                             /\ forallb (fun kv => ft_conv_ok fuel (snd kv)) ef = true).
  { rewrite getn_opt_of. unfold hdr_ok in V12.
    destruct (opt_of "event-header-type" d) as [[| | | | | |tl]|]; try discriminate.
    - destruct (v2_fields_keys _ _ Eef) as [[A ->]|A].
      + unfold opt_of in A. unfold opt_fields.
        destruct (lookup "fields" tl) as [[| | | | | |fl]|]; try discriminate; exists None; repeat split.
      + rewrite A in V12. unfold opt_fields. rewrite A. exists (Some ef). repeat split. exact V12.
    - inversion Eef; subst ef. exists None. repeat split. }
  destruct Hehf as (ehf & Hopt & Hef & Hefok). clear V12.
  apply obind_some in H as [total [Etotal H]]. apply obind_some in H as [content [Econtent H]].
  apply obind_some in H as [beg [Ebeg H]]. apply obind_some in H as [en [Een H]].
  apply obind_some in H as [disc [Edisc H]]. apply obind_some in H as [sq [Esq H]].
  apply obind_some in H as [extra [Eextra H]].
  apply obind_some in H as [id [Eid H]]. apply obind_some in H as [ts [Ets H]].
  apply obind_some in H as [ehx [Eehx H]]. apply obind_some in H as [cx [Ecx H]].
  destruct (lookup "events" d) as [[| | | | | |evs]|] eqn:Eev; try discriminate.
  apply obind_some in H as [es [Ees H]]. inversion H; subst s. clear H.
  cbn [s_seq s_eh_extra s_clock s_ts s_beg s_end s_total s_content s_disc s_id s_extra s_ctx] in *.
  destruct sq; [discriminate|]. destruct ehx; [|discriminate].
  set (ck := stream_clock ts beg en) in *.
  (* converter side, member by member *)
  destruct (required_equiv _ _ _ _ Vpc Etotal) as [mt [Rt Rt3]].
  destruct (required_equiv _ _ _ _ Vpc Econtent) as [mc [Rc Rc3]].
  destruct (member_equiv _ _ _ _ Vpc Ebeg) as [fbeg [Rb Rb3]].
  destruct (member_equiv _ _ _ _ Vpc Een) as [fend [Re Re3]].
  destruct (member_equiv _ _ _ _ Vpc Edisc) as [fdisc [Rd Rd3]].
  destruct (member_equiv _ _ _ _ Hefok Eid) as [fid [Ri Ri3]].
  destruct (member_equiv _ _ _ _ Hefok Ets) as [fts [Rts Rts3]].
  destruct (extra_equiv _ _ _ Vpc Eextra) as [ex [Rex Rex3]].
  pose proof (ts_member_clk _ _ _ _ _ Vpc Ebeg V6) as Cb.
  pose proof (ts_member_clk _ _ _ _ _ Vpc Een V5) as Ce.
  pose proof (ts_member_clk _ _ _ _ _ Hefok Ets V7) as Ct.
  pose proof (opt_ft_equiv _ _ _ _ Ecx V11) as Hcx.
  destruct (named_equiv conv_ert (v2_event fuel) (v3_event fuel) erase_event (valid_event fuel)
              (event_equiv fuel) evs es Ees V10) as [evs' [Rev [Rev3 _]]].
  assert (Hes : map (fun na => (fst na, erase_event (snd na))) es = es).
  { clear -Ees V10. revert es Ees. unfold named. induction evs as [|[k y] evs IH]; intros es Ees; simpl in *.
    - inversion Ees; reflexivity.
    - apply andb_prop in V10. destruct V10 as [Vy Vr].
      destruct (v2_event fuel y) as [e|] eqn:Ee; simpl in Ees; [|discriminate].
      destruct (omapM (fun kv => option_map (pair (fst kv)) (v2_event fuel (snd kv))) evs) as [es'|]; simpl in Ees; [|discriminate].
      inversion Ees; subst es. simpl. rewrite (erase_event_valid _ _ _ Ee Vy), (IH Vr es' eq_refl). reflexivity. }
  rewrite Hes in Rev3. clear Hes.
  (* the default clock the converter infers is the stream's clock *)
  set (tsb := match beg with Some _ => option_map YStr ck | None => None end) in *.
  set (tse := match en with Some _ => option_map YStr ck | None => None end) in *.
  set (ehc := match ts with Some _ => option_map YStr ck | None => None end) in *.
  assert (Hct : match ehf with Some ef0 => clk_name (lookup "timestamp" ef0) | None => Ok None end = Ok ehc).
  { subst ef. destruct ehf as [ef0|]; [exact Ct|]. unfold ehc.
    unfold rd_ft, opt_of in Ets. simpl in Ets. inversion Ets; subst ts. reflexivity. }
  assert (Hdef : first_some ehc (first_some tsb tse) = option_map YStr ck).
  { unfold ehc, tsb, tse, ck. now apply default_clock_is_stream_clock. }
  assert (Hagree : forall a b, tsb = Some a -> tse = Some b -> yaml_eqb a b = true).
  { unfold tsb, tse. intros a b Ha Hb. destruct beg; destruct en; try discriminate.
    rewrite Ha in Hb. inversion Hb; subst. apply yaml_eqb_refl. }
  assert (Hec : exists ec, match getn "event-context-type" d with Some t => rbind (conv_ft t) (fun c => Ok (Some c)) | None => Ok None end = Ok ec
                           /\ match ec with
                              | None => cx = None
                              | Some c => exists m f, c = YMap m /\ cx = Some f /\ v3_ft fuel c = Some (erase_clk f)
                              end).
  { destruct (getn "event-context-type" d) as [t|].
    - destruct Hcx as (c & m & f & C1 & -> & -> & C3). rewrite C1. exists (Some (YMap m)). split; [reflexivity|]. eauto.
    - exists None. split; [reflexivity|exact Hcx]. }
  destruct Hec as (ec & Rec & Rec3).
  subst ef.
  eexists. split.
  { eapply conv_dst_fwd; eauto. }
  (* barectf 3 reading of the node the converter built *)
  rewrite Hdef.
  destruct (dst_node_lookups d (option_map YStr ck)
              (pkt_node (YMap mt) (YMap mc) fbeg fend fdisc) (er_node fid fts) ex ec evs')
    as (L1 & L2 & L3 & L4 & L5 & L6 & L7).
  cbn [v3_stream]. rewrite L7. cbn [negb].
  assert (Hdc : rd_s "$default-clock-type-name" (dst_node d (option_map YStr ck)
              (pkt_node (YMap mt) (YMap mc) fbeg fend fdisc) (er_node fid fts) ex ec evs') = Some ck).
  { unfold rd_s, opt_of. rewrite L2. destruct ck; reflexivity. }
  rewrite Hdc. cbn [obind]. unfold sub. rewrite L3. cbn [lookup String.eqb Ascii.eqb Bool.eqb fst snd obind].
  unfold pkt_node, er_node.
  unfold v3_feature, v3_feature_off_by_default. cbn [lookup String.eqb Ascii.eqb Bool.eqb fst snd feature_val].
  rewrite Rt3, Rc3. cbn [option_map obind].
  (* the optional features *)
  assert (Fplain : forall o r, (match o with
                                | None => r = None /\ True
                                | Some f => exists m, r = Some (YMap m) /\ v3_ft fuel (YMap m) = Some (erase_clk f)
                                end) -> no_clk_o o = true ->
            match feature_val r with
            | YBool false => Some None
            | YMap m => option_map Some (v3_ft fuel (YMap m))
            | _ => None
            end = Some o).
  { intros o r Hr Hn. destruct o as [f|].
    - destruct Hr as (m & -> & Hm). cbn [feature_val]. rewrite Hm. cbn [option_map]. simpl in Hn. now rewrite (no_clk_erase _ Hn).
    - destruct Hr as [-> _]. reflexivity. }
  assert (Fts : forall o r, (match o with
                             | None => r = None /\ True
                             | Some f => exists m, r = Some (YMap m) /\ v3_ft fuel (YMap m) = Some (erase_clk f)
                             end) -> ts_ok ck o = true ->
            match feature_val r with
            | YBool false => Some None
            | YMap m => option_map Some (option_map (set_clk ck) (v3_ft fuel (YMap m)))
            | _ => None
            end = Some o).
  { intros o r Hr Hn. destruct o as [f|].
    - destruct Hr as (m & -> & Hm). cbn [feature_val]. rewrite Hm. cbn [option_map]. now rewrite (ts_restore _ _ Hn).
    - destruct Hr as [-> _]. reflexivity. }
  assert (Wk : forall (o : option ft) (r : option yaml) k (l : entries),
             match o with
             | None => r = None /\ lookup k l = None
             | Some f => exists y m, lookup k l = Some y /\ v2_ft fuel y = Some f /\ r = Some (YMap m) /\ v3_ft fuel (YMap m) = Some (erase_clk f)
             end ->
             match o with
             | None => r = None /\ True
             | Some f => exists m, r = Some (YMap m) /\ v3_ft fuel (YMap m) = Some (erase_clk f)
             end).
  { intros o r k l Hm. destruct o; [destruct Hm as (y0 & m & _ & _ & A & B); eauto|destruct Hm; auto]. }
  rewrite (Fts beg fbeg (Wk _ _ _ _ Rb3) V6). cbn [obind].
  rewrite (Fts en fend (Wk _ _ _ _ Re3) V5). cbn [obind].
  rewrite (Fplain disc fdisc (Wk _ _ _ _ Rd3) V2). cbn [obind].
  (* extra members *)
  assert (Hex : match opt_of "packet-context-field-type-extra-members"
                        (dst_node d (option_map YStr ck)
                           [("total-size-field-type", YMap mt); ("content-size-field-type", YMap mc);
                            ("beginning-timestamp-field-type", feature_val fbeg); ("end-timestamp-field-type", feature_val fend);
                            ("discarded-event-records-counter-snapshot-field-type", feature_val fdisc)]
                           [("type-id-field-type", feature_val fid); ("timestamp-field-type", feature_val fts)] ex ec evs') with
                | None => Some []
                | Some (YSeq items) => omapM (v3_member (v3_ft fuel)) items
                | Some _ => None
                end = Some extra).
  { unfold opt_of. unfold pkt_node, er_node in L4. rewrite L4.
    assert (Hx : map erase_member extra = extra).
    { clear -V0. induction extra as [|[nm g] xs IH]; simpl in *; [reflexivity|].
      apply andb_prop in V0. destruct V0 as [A B]. unfold erase_member at 1. simpl. now rewrite (no_clk_erase _ A), (IH B). }
    rewrite Hx in Rex3. destruct ex; [|exact Rex3]. simpl in Rex3. now inversion Rex3. }
  rewrite Hex. cbn [obind].
  rewrite (Fplain id fid (Wk _ _ _ _ Ri3) V1). cbn [obind].
  rewrite (Fts ts fts (Wk _ _ _ _ Rts3) V7). cbn [obind].
  (* common context *)
  assert (Hcx3 : rd_ft (v3_ft fuel) "event-record-common-context-field-type"
                   (dst_node d (option_map YStr ck)
                      [("total-size-field-type", YMap mt); ("content-size-field-type", YMap mc);
                       ("beginning-timestamp-field-type", feature_val fbeg); ("end-timestamp-field-type", feature_val fend);
                       ("discarded-event-records-counter-snapshot-field-type", feature_val fdisc)]
                      [("type-id-field-type", feature_val fid); ("timestamp-field-type", feature_val fts)] ex ec evs') = Some cx).
  { unfold rd_ft, opt_of. unfold pkt_node, er_node in L5. rewrite L5. destruct ec as [c|].
    - destruct Rec3 as (m & f & -> & -> & C3). rewrite C3. cbn [option_map]. simpl in V. now rewrite (no_clk_erase _ V).
    - subst cx. reflexivity. }
  rewrite Hcx3. cbn [obind].
  unfold pkt_node, er_node in L6, L1. rewrite L6. rewrite Rev3. cbn [obind].
  unfold is_true. rewrite L1. rewrite (no_clk_erase _ V4), (no_clk_erase _ V3). reflexivity.
Qed.

(* ================================================================== `$default-stream` *)
Lemma sub_ext : forall k l l', lookup k l = lookup k l' -> sub k l = sub k l'.
Proof. intros. unfold sub. now rewrite H. Qed.
Lemma rd_ft_ext : forall f k l l', lookup k l = lookup k l' -> rd_ft f k l = rd_ft f k l'.
Proof. intros. unfold rd_ft. now rewrite (opt_of_ext _ _ _ _ H). Qed.

Lemma v3_stream_default : forall fuel dl s,
  v3_stream fuel (YMap dl) = Some s ->
  v3_stream fuel (YMap (put "$is-default" (YBool true) dl)) = Some (set_default s).
Proof.
  intros fuel dl s H. cbn [v3_stream] in *.
  set (W := ["$is-default"; "$default-clock-type-name"; "$features"; "packet-context-field-type-extra-members";
             "event-record-common-context-field-type"; "event-record-types"]) in *.
  destruct (keys_in W dl) eqn:Hk; [|discriminate]. cbn [negb] in H.
  assert (K : keys_in W (put "$is-default" (YBool true) dl) = true) by (unfold W in *; kin).
  rewrite K. cbn [negb].
  assert (L : forall k, String.eqb k "$is-default" = false -> lookup k (put "$is-default" (YBool true) dl) = lookup k dl).
  { intros k Hk0. now rewrite lookup_put, Hk0. }
  rewrite (rd_s_ext _ _ _ _ (L "$default-clock-type-name" eq_refl)).
  rewrite (sub_ext _ _ _ (L "$features" eq_refl)).
  rewrite (opt_of_ext _ _ _ _ (L "packet-context-field-type-extra-members" eq_refl)).
  rewrite (rd_ft_ext (v3_ft fuel) _ _ _ (L "event-record-common-context-field-type" eq_refl)).
  rewrite (L "event-record-types" eq_refl).
  repeat match type of H with
         | obind ?x _ = Some _ => destruct x; [cbn [obind] in H |- *|discriminate]
         | match ?x with _ => _ end = Some _ => destruct x; try discriminate
         end.
  inversion H; subst s. unfold set_default. cbn. unfold is_true. rewrite lookup_put. reflexivity.
Qed.

Lemma mark_default_equiv : forall fuel n dsts ss,
  named (v3_stream fuel) dsts = Some ss -> mem n (keys dsts) = true ->
  exists dsts', mark_default (YStr n) dsts = Some dsts'
                /\ named (v3_stream fuel) dsts' = Some (mark_first n ss).
Proof.
  intros fuel n. unfold named. induction dsts as [|[k y] dsts IH]; intros ss H Hm; simpl in *; [discriminate|].
  destruct (v3_stream fuel y) as [s|] eqn:Es; simpl in H; [|discriminate].
  destruct (omapM (fun kv => option_map (pair (fst kv)) (v3_stream fuel (snd kv))) dsts) as [ss'|] eqn:Ess; simpl in H; [|discriminate].
  inversion H; subst ss. clear H. simpl.
  destruct (String.eqb k n) eqn:Ek.
  - destruct y as [| | | | | |dl]; try (destruct fuel; discriminate).
    eexists. split; [reflexivity|]. cbn [omapM fst snd]. rewrite (v3_stream_default _ _ _ Es). cbn [option_map obind]. rewrite Ess. reflexivity.
  - simpl in Hm. destruct (IH ss' eq_refl Hm) as [dsts' [D1 D2]].
    rewrite D1. simpl. eexists. split; [reflexivity|]. simpl. rewrite Es. simpl. rewrite D2. reflexivity.
Qed.

(* ================================================================== the trace type node *)
Definition tt_node (tl m : entries) (cl' : option entries) (feats dsts : entries) : entries :=
  let tt := copy_prop [] tl "byte-order" "trace-byte-order" in
  let tt := copy_prop tt tl "uuid" "uuid" in
  let tt := copy_prop tt m "log-levels" "$log-level-aliases" in
  let tt := copy_prop tt m "$log-levels" "$log-level-aliases" in
  let tt := match cl' with Some c => tt ++ [("clock-types", YMap c)] | None => tt end in
  (tt ++ [("$features", YMap feats)]) ++ [("data-stream-types", YMap dsts)].

Lemma tt_node_lookups : forall tl m cl' feats dsts,
  let n := tt_node tl m cl' feats dsts in
  lookup "trace-byte-order" n = lookup "byte-order" tl
  /\ lookup "uuid" n = lookup "uuid" tl
  /\ lookup "$log-level-aliases" n = match lookup "$log-levels" m with Some v => Some v | None => lookup "log-levels" m end
  /\ lookup "clock-types" n = option_map YMap cl'
  /\ lookup "$features" n = Some (YMap feats)
  /\ lookup "data-stream-types" n = Some (YMap dsts)
  /\ keys_in ["trace-byte-order"; "uuid"; "$log-level-aliases"; "clock-types"; "$features"; "data-stream-types"] n = true.
Proof.
  intros tl m cl' feats dsts. unfold tt_node. destruct cl' as [c|]; cbv zeta; repeat split;
    try (lk; destruct (lookup "byte-order" tl); destruct (lookup "uuid" tl); destruct (lookup "log-levels" m);
         destruct (lookup "$log-levels" m); reflexivity);
    kin.
Qed.

(* the packet header features *)
Lemma trace_features_equiv : forall fuel tl phf mg uf sid,
  hdr_ok fuel (opt_of "packet-header-type" tl) = true ->
  v2_fields (opt_of "packet-header-type" tl) = Some phf ->
  rd_ft (v2_ft fuel) "magic" phf = Some mg -> rd_ft (v2_ft fuel) "uuid" phf = Some uf ->
  rd_ft (v2_ft fuel) "stream_id" phf = Some sid ->
  no_clk_o mg = true -> no_clk_o uf = true -> no_clk_o sid = true ->
  exists feats, trace_features (getn "packet-header-type" tl) = Ok feats
    /\ v3_feature (v3_ft fuel) "magic-field-type" feats = Some mg
    /\ v3_feature (v3_ft fuel) "uuid-field-type" feats = Some uf
    /\ v3_feature (v3_ft fuel) "data-stream-type-id-field-type" feats = Some sid.
Proof.
  intros fuel tl phf mg uf sid Hok Hf Hm Hu Hs Nm Nu Ns.
  assert (Hfeat : forall o r, (match o with
                              | None => r = None
                              | Some f => exists m, r = Some (YMap m) /\ v3_ft fuel (YMap m) = Some (erase_clk f)
                              end) -> no_clk_o o = true ->
            match feature_val r with
            | YBool false => Some None
            | YMap m => option_map Some (v3_ft fuel (YMap m))
            | _ => None
            end = Some o).
  { intros o r Hr Hn. destruct o as [f|].
    - destruct Hr as (m & -> & Hm0). cbn [feature_val]. rewrite Hm0. cbn [option_map]. simpl in Hn. now rewrite (no_clk_erase _ Hn).
    - subst r. reflexivity. }
  assert (Hfin : forall fm fu fs,
             (match mg with None => fm = None | Some f => exists m, fm = Some (YMap m) /\ v3_ft fuel (YMap m) = Some (erase_clk f) end) ->
             (match uf with None => fu = None | Some f => exists m, fu = Some (YMap m) /\ v3_ft fuel (YMap m) = Some (erase_clk f) end) ->
             (match sid with None => fs = None | Some f => exists m, fs = Some (YMap m) /\ v3_ft fuel (YMap m) = Some (erase_clk f) end) ->
             let feats := set_feature "data-stream-type-id-field-type" fs (set_feature "uuid-field-type" fu (set_feature "magic-field-type" fm [])) in
             v3_feature (v3_ft fuel) "magic-field-type" feats = Some mg
             /\ v3_feature (v3_ft fuel) "uuid-field-type" feats = Some uf
             /\ v3_feature (v3_ft fuel) "data-stream-type-id-field-type" feats = Some sid).
  { intros fm fu fs A B C. unfold set_feature, put, has. cbn. unfold v3_feature. cbn.
    fold (feature_val fm). fold (feature_val fu). fold (feature_val fs).
    rewrite (Hfeat _ _ A Nm), (Hfeat _ _ B Nu), (Hfeat _ _ C Ns). auto. }
  unfold trace_features. rewrite getn_opt_of. unfold hdr_ok in Hok.
  destruct (opt_of "packet-header-type" tl) as [[| | | | | |t]|] eqn:Eph; try discriminate.
  - (* a packet header structure *)
    destruct (lookup "fields" t) as [[| | | | | |fl]|] eqn:Efl; try discriminate.
    + (* fields: null *)
      destruct (v2_fields_keys _ _ Hf) as [[_ ->]|A]; [|rewrite Efl in A; discriminate].
      unfold opt_fields. rewrite Efl. cbn [rbind conv_ft_if_exists].
      unfold rd_ft, opt_of in Hm, Hu, Hs. simpl in Hm, Hu, Hs. inversion Hm; inversion Hu; inversion Hs; subst.
      eexists. split; [reflexivity|]. apply Hfin; reflexivity.
    + destruct (v2_fields_keys _ _ Hf) as [[A _]|A]; [unfold opt_of in A; rewrite Efl in A; discriminate|].
      rewrite Efl in A. inversion A; subst phf. clear A.
      unfold opt_fields. rewrite Efl. cbn [rbind].
      destruct (member_equiv _ _ _ _ Hok Hm) as [fm [Rm Rm3]].
      destruct (member_equiv _ _ _ _ Hok Hu) as [fu [Ru Ru3]].
      destruct (member_equiv _ _ _ _ Hok Hs) as [fs [Rs Rs3]].
      rewrite Rm, Ru, Rs. cbn [rbind]. eexists. split; [reflexivity|].
      apply Hfin.
      * destruct mg; [destruct Rm3 as (y0 & m0 & _ & _ & A & B); eauto|destruct Rm3; auto].
      * destruct uf; [destruct Ru3 as (y0 & m0 & _ & _ & A & B); eauto|destruct Ru3; auto].
      * destruct sid; [destruct Rs3 as (y0 & m0 & _ & _ & A & B); eauto|destruct Rs3; auto].
    + (* no `fields` property *)
      destruct (v2_fields_keys _ _ Hf) as [[_ ->]|A]; [|rewrite Efl in A; discriminate].
      unfold opt_fields. rewrite Efl. cbn [rbind conv_ft_if_exists].
      unfold rd_ft, opt_of in Hm, Hu, Hs. simpl in Hm, Hu, Hs. inversion Hm; inversion Hu; inversion Hs; subst.
      eexists. split; [reflexivity|]. apply Hfin; reflexivity.
  - (* no packet header *)
    inversion Hf; subst phf. cbn [rbind conv_ft_if_exists lookup].
    unfold rd_ft, opt_of in Hm, Hu, Hs. simpl in Hm, Hu, Hs. inversion Hm; inversion Hu; inversion Hs; subst.
    eexists. split; [reflexivity|]. apply Hfin; reflexivity.
Qed.

Lemma named_keys : forall {A} (f : yaml -> option A) l la, named f l = Some la -> map fst la = keys l.
Proof.
  intros A f. unfold named. induction l as [|[k y] l IH]; intros la H; simpl in *.
  - inversion H; reflexivity.
  - destruct (f y); simpl in H; [|discriminate].
    destruct (omapM (fun kv => option_map (pair (fst kv)) (f (snd kv))) l) eqn:E; simpl in H; [|discriminate].
    inversion H; subst. simpl. now rewrite (IH _ eq_refl).
Qed.

Lemma map_id_snd : forall {A} (l : list (string * A)), map (fun na => (fst na, snd na)) l = l.
Proof. induction l as [|[a b] l IH]; simpl; [reflexivity|now rewrite IH]. Qed.

(* ================================================================== C18_equiv *)
Theorem config_equiv : forall fuel t g,
  v2_sem fuel t = Some g -> valid_v2 fuel t = true ->
  exists t', conv_config t = Ok t' /\ v3_sem fuel t' = Some g.
Proof.
  intros fuel t g H Hv. destruct t as [| | | | | |root]; try discriminate.
  unfold valid_v2 in Hv. rewrite H in Hv.
  destruct (lookup "metadata" root) as [[| | | | | |m]|] eqn:Emeta; try discriminate.
  destruct (lookup "trace" m) as [[| | | | | |tl]|] eqn:Etl; try discriminate.
  destruct (lookup "streams" m) as [[| | | | | |sl]|] eqn:Esl; try discriminate.
  apply andb_prop in Hv as [Hv Vds]. apply andb_prop in Hv as [Hv Vsid]. apply andb_prop in Hv as [Hv Vuf].
  apply andb_prop in Hv as [Hv Vmg]. apply andb_prop in Hv as [Hv Vphx]. apply andb_prop in Hv as [Vph Vs].
  cbn [v2_sem] in H.
  destruct (keys_in ["version"; "prefix"; "options"; "metadata"] root) eqn:Kroot; [|discriminate]. cbn [negb] in H.
  destruct (lookup "version" root) as [[| | | |ver| |]|] eqn:Ever; try discriminate.
  rewrite Emeta in H.
  destruct (negb (one_of ver ["2.0"; "2.1"; "2.2"])); [discriminate|].
  destruct (keys_in ["log-levels"; "$log-levels"; "trace"; "env"; "clocks"; "$default-stream"; "streams"] m) eqn:Km; [|discriminate].
  cbn [negb] in H.
  destruct (mem "log-levels" (keys m) && mem "$log-levels" (keys m)) eqn:Hboth; [discriminate|].
  apply obind_some in H as [p [Ep H]]. apply obind_some in H as [ho [Eho H]].
  rewrite Etl, Esl in H.
  destruct (keys_in ["byte-order"; "uuid"; "packet-header-type"] tl) eqn:Ktl; [|discriminate]. cbn [negb] in H.
  apply obind_some in H as [bo [Ebo H]]. apply obind_some in H as [uu [Euu H]].
  apply obind_some in H as [env [Eenv H]]. apply obind_some in H as [l1 [El1 H]]. apply obind_some in H as [l2 [El2 H]].
  apply obind_some in H as [cks [Ecks H]]. apply obind_some in H as [phf [Ephf H]].
  apply obind_some in H as [mg [Emg H]]. apply obind_some in H as [uf [Euf H]]. apply obind_some in H as [sid [Esid H]].
  apply obind_some in H as [phx [Ephx H]]. apply obind_some in H as [ss [Ess H]]. apply obind_some in H as [ds [Eds H]].
  inversion H; subst g. clear H.
  cbn [g_ph_extra g_magic g_uuid_ft g_sid] in *.
  destruct phx; [|discriminate].
  (* ---- the metadata node *)
  (* clocks *)
  assert (Hclk : exists cl', match getn "clocks" m with
                             | None => Ok (@None entries)
                             | Some (YMap cl) => rbind (conv_values conv_clock cl) (fun c => Ok (Some c))
                             | Some _ => Crash
                             end = Ok cl'
                             /\ match cl' with
                                | None => cks = []
                                | Some c => named v3_clock c = Some cks
                                end).
  { rewrite getn_opt_of. destruct (opt_of "clocks" m) as [[| | | | | |cl]|]; try discriminate.
    - destruct (named_equiv conv_clock v2_clock v3_clock (fun c => c) (fun _ => true)
                  (fun y a Ha _ => clock_equiv y a Ha) cl cks Ecks) as [cl' [C1 [C2 _]]].
      { clear. induction cl; [reflexivity|exact IHcl]. }
      rewrite C1. exists (Some cl'). split; [reflexivity|]. now rewrite map_id_snd in C2.
    - inversion Ecks; subst. exists None. split; reflexivity. }
  destruct Hclk as (cl' & Rclk & Rclk3).
  (* packet header features *)
  destruct (trace_features_equiv fuel tl phf mg uf sid Vph Ephf Emg Euf Esid Vmg Vuf Vsid) as (feats & Rf & Rf1 & Rf2 & Rf3).
  (* streams *)
  destruct (named_equiv conv_dst (v2_stream fuel) (v3_stream fuel) (fun s => s) (valid_stream fuel)
              (stream_equiv fuel) sl ss Ess Vs) as [dsts [Rs [Rs3 Rsk]]].
  rewrite map_id_snd in Rs3.
  (* default stream *)
  assert (Hds : exists dsts', match getn "$default-stream" m with
                              | None => Ok dsts
                              | Some name => match mark_default name dsts with
                                             | Some d' => Ok d'
                                             | None => CfgErr "Data stream type does not exist"
                                             end
                              end = Ok dsts'
                              /\ named (v3_stream fuel) dsts' = Some (mark_named ds ss)).
  { rewrite getn_opt_of. unfold rd_s in Eds, Vds.
    destruct (opt_of "$default-stream" m) as [[| | | |nm| |]|]; try discriminate.
    - inversion Eds; subst ds. rewrite <- Rsk in Vds.
      destruct (mark_default_equiv fuel nm dsts ss Rs3 Vds) as [d' [D1 D2]]. rewrite D1. exists d'. split; [reflexivity|exact D2].
    - inversion Eds; subst ds. exists dsts. split; [reflexivity|exact Rs3]. }
  destruct Hds as (dsts' & Rds & Rds3).
  assert (Hmeta : conv_meta (YMap m) = Ok (YMap ((match getn "env" m with Some e => [("environment", e)] | None => [] end)
                                                 ++ [("type", YMap (tt_node tl m cl' feats dsts'))]))).
  { unfold conv_meta. rewrite Etl.
    destruct (getn "clocks" m) as [[| | | | | |cl]|]; try discriminate.
    - apply rbind_ok in Rclk as [c [Rc Rclk]]. inversion Rclk; subst cl'. rewrite Rc. cbn [rbind]. rewrite Rf. cbn [rbind].
      rewrite Esl, Rs. cbn [rbind]. rewrite Rds. cbn [rbind]. reflexivity.
    - inversion Rclk; subst cl'. cbn [rbind]. rewrite Rf. cbn [rbind].
      rewrite Esl, Rs. cbn [rbind]. rewrite Rds. cbn [rbind]. reflexivity. }
  (* ---- the root node *)
  assert (Hhas : has "version" root = true) by (unfold has; rewrite mem_keys, Ever; reflexivity).
  assert (Hp : match lookup "prefix" (del "version" root) with Some q => q | None => YStr "barectf_" end = YStr p).
  { lk. destruct (lookup "prefix" root) as [[| | | |q| |]|]; inversion Ep; reflexivity. }
  set (cg0 := [("prefix", YMap [("identifier", YStr (fst (v3_prefixes p))); ("file-name", YStr (snd (v3_prefixes p)))])]).
  assert (Hopts : exists cg, match getn "options" (del "prefix" (del "version" root)) with
                             | None => Ok cg0
                             | Some (YMap ol) =>
                                 Ok (cg0 ++ [("header", YMap (copy_prop (copy_prop [] ol "gen-prefix-def" "identifier-prefix-definition")
                                                                        ol "gen-default-stream-def" "default-data-stream-type-name-definition"))])
                             | Some _ => Crash
                             end = Ok cg
                             /\ lookup "prefix" cg = Some (YMap [("identifier", YStr p); ("file-name", YStr (file_prefix_of p))])
                             /\ match lookup "header" cg with
                                | None => Some (@None bool, @None bool)
                                | Some (YMap hl) => obind (rd_b "identifier-prefix-definition" hl) (fun a =>
                                                    obind (rd_b "default-data-stream-type-name-definition" hl) (fun b => Some (a, b)))
                                | Some _ => None
                                end = Some ho).
  { assert (Hl : lookup "options" (del "prefix" (del "version" root)) = lookup "options" root) by (lk; reflexivity).
    unfold getn. rewrite Hl. unfold cg0. cbn [v3_prefixes fst snd]. rewrite <- file_prefix_of_rstrip.
    destruct (lookup "options" root) as [[| | | | | |ol]|]; try discriminate.
    - destruct (negb (keys_in ["gen-prefix-def"; "gen-default-stream-def"] ol)); [discriminate|].
      eexists. split; [reflexivity|]. split; [reflexivity|].
      cbn [lookup app String.eqb Ascii.eqb Bool.eqb fst snd].
      apply obind_some in Eho as [a [Ea Eho]]. apply obind_some in Eho as [b [Eb Eho]]. inversion Eho; subst ho.
      assert (A1 : rd_b "identifier-prefix-definition"
                     (copy_prop (copy_prop [] ol "gen-prefix-def" "identifier-prefix-definition") ol "gen-default-stream-def"
                        "default-data-stream-type-name-definition") = Some a).
      { rewrite <- Ea. apply rd_b_ext. lk. destruct (lookup "gen-default-stream-def" ol); destruct (lookup "gen-prefix-def" ol); reflexivity. }
      assert (A2 : rd_b "default-data-stream-type-name-definition"
                     (copy_prop (copy_prop [] ol "gen-prefix-def" "identifier-prefix-definition") ol "gen-default-stream-def"
                        "default-data-stream-type-name-definition") = Some b).
      { rewrite <- Eb. apply rd_b_ext. lk. destruct (lookup "gen-default-stream-def" ol); destruct (lookup "gen-prefix-def" ol); reflexivity. }
      rewrite A1. cbn [obind]. rewrite A2. reflexivity.
    - inversion Eho; subst ho. eexists. split; [reflexivity|]. split; reflexivity. }
  destruct Hopts as (cg & Rcg & Rcg1 & Rcg2).
  set (r3 := del "options" (del "prefix" (del "version" root))).
  set (trn := (match getn "env" m with Some e => [("environment", e)] | None => [] end)
              ++ [("type", YMap (tt_node tl m cl' feats dsts'))]) in *.
  assert (Hconv : conv_config (YMap root)
                  = Ok (YMap (del "metadata" (put "trace" (YMap trn) (put "options" (YMap [("code-generation", YMap cg)]) r3))))).
  { unfold conv_config. rewrite Hhas. cbn [negb]. rewrite Hp.
    fold cg0. destruct (getn "options" (del "prefix" (del "version" root))) as [[| | | | | |ol]|]; try discriminate;
      inversion Rcg; subst cg; cbn [rbind]; fold r3;
      match goal with
      | |- match lookup "metadata" ?X with _ => _ end = _ =>
          assert (Hm2 : lookup "metadata" X = Some (YMap m)) by (unfold r3; lk; exact Emeta); rewrite Hm2
      end; rewrite Hmeta; reflexivity. }
  eexists. split; [exact Hconv|].
  (* ---- the barectf 3 reading of the result *)
  set (root' := del "metadata" (put "trace" (YMap trn) (put "options" (YMap [("code-generation", YMap cg)]) r3))).
  assert (K' : keys_in ["options"; "trace"] root' = true) by (unfold root', r3; kin).
  assert (T' : lookup "trace" root' = Some (YMap trn)) by (unfold root'; lk; reflexivity).
  assert (O' : lookup "options" root' = Some (YMap [("code-generation", YMap cg)])) by (unfold root'; lk; reflexivity).
  cbn [v3_sem]. rewrite K'. cbn [negb]. rewrite T'.
  assert (Ktr : keys_in ["environment"; "type"] trn = true) by (unfold trn; destruct (getn "env" m); reflexivity).
  assert (Ttr : lookup "type" trn = Some (YMap (tt_node tl m cl' feats dsts'))) by (unfold trn; destruct (getn "env" m); reflexivity).
  rewrite Ktr. cbn [negb]. rewrite Ttr.
  destruct (tt_node_lookups tl m cl' feats dsts') as (N1 & N2 & N3 & N4 & N5 & N6 & N7).
  rewrite N7. cbn [negb]. rewrite O'. cbn [lookup String.eqb Ascii.eqb Bool.eqb fst snd].
  rewrite Rcg1. cbn [lookup String.eqb Ascii.eqb Bool.eqb fst snd obind]. rewrite Rcg2. cbn [obind fst snd].
  rewrite N1. rewrite Ebo. cbn [obind].
  rewrite (rd_s_ext _ _ _ _ N2), Euu. cbn [obind].
  assert (Henv : rd_map "environment" trn = Some env).
  { rewrite <- Eenv. unfold rd_map, opt_of, trn. rewrite getn_opt_of. unfold opt_of.
    destruct (lookup "env" m) as [[| | | | | |]|]; reflexivity. }
  rewrite Henv. cbn [obind].
  assert (Hlv : rd_map "$log-level-aliases" (tt_node tl m cl' feats dsts') = Some (match l1 with Some _ => l1 | None => l2 end)).
  { unfold rd_map, opt_of. rewrite N3. unfold rd_map, opt_of in El1, El2. rewrite !mem_keys in Hboth.
    destruct (lookup "$log-levels" m) as [v2|]; destruct (lookup "log-levels" m) as [v1|]; try discriminate.
    - inversion El1; subst l1. exact El2.
    - inversion El2; subst l2. destruct v1; inversion El1; subst; reflexivity.
    - inversion El1; inversion El2; reflexivity. }
  rewrite Hlv. cbn [obind].
  assert (Hck : match opt_of "clock-types" (tt_node tl m cl' feats dsts') with
                | None => Some []
                | Some (YMap cl) => named v3_clock cl
                | Some _ => None
                end = Some cks).
  { unfold opt_of. rewrite N4. destruct cl' as [c|]; [exact Rclk3|subst cks; reflexivity]. }
  rewrite Hck. cbn [obind]. unfold sub at 1. rewrite N5. cbn [obind].
  rewrite Rf1. cbn [obind]. rewrite Rf2. cbn [obind]. rewrite Rf3. cbn [obind]. rewrite N6. rewrite Rds3. cbn [obind]. reflexivity.
Qed.

(* ================================================================== full-strength statements and their refutations *)
Definition equiv_full_statement : Prop :=
  forall fuel t g, v2_sem fuel t = Some g -> exists t', conv_config t = Ok t' /\ v3_sem fuel t' = Some g.

Theorem equiv_full_refuted : ~ equiv_full_statement.
Proof.
  intros F. destruct H3_seq_num_refuted as [g [Hg Hn]].
  destruct (F 10%nat w_seq_num g Hg) as [t' [H1 H2]]. exact (Hn t' H1 H2).
Qed.

(* the shape constraint ft_conv_ok is implied by the barectf 2 reading being defined (since fix 616725c) *)
Lemma v2_ft_conv_ok : forall fuel y f, v2_ft fuel y = Some f -> ft_conv_ok fuel y = true.
Proof.
  induction fuel as [|n IH]; intros y f H; [discriminate|].
  destruct y as [| | | | | |l]; try discriminate.
  cbn [v2_ft] in H. cbn [ft_conv_ok].
  destruct (class_of l) as [c|] eqn:Ec; [|discriminate]. cbn [obind] in H.
  destruct (String.eqb c "array") eqn:Ca.
  - apply String.eqb_eq in Ca. subst c. cbn [one_of existsb orb String.eqb Ascii.eqb Bool.eqb] in H.
    destruct (negb (keys_in ["class"; "length"; "element-type"] l)); [discriminate|].
    destruct (lookup "element-type" l) as [e|]; [|discriminate].
    destruct (lookup "length" l) as [[| |len| |s| |]|]; try discriminate.
    + destruct (v2_ft n e) eqn:E; [|discriminate]. eapply IH; eauto.
    + rewrite match_dynamic in H. destruct (String.eqb s "dynamic"); [|discriminate].
      destruct (v2_ft n e) eqn:E; [|discriminate]. eapply IH; eauto.
  - destruct (one_of c ["struct"; "structure"]) eqn:Cs; [|reflexivity].
    assert (Hstruct : (if negb (keys_in ["class"; "min-align"; "fields"] l) then None else
                       obind (rd_z "min-align" l) (fun ma =>
                       match opt_of "fields" l with
                       | None => Some (FStruct ma [])
                       | Some (YMap fl) => option_map (FStruct ma)
                                             (omapM (fun kv => option_map (pair (fst kv)) (v2_ft n (snd kv))) fl)
                       | Some _ => None
                       end)) = Some f).
    { apply one_of_2 in Cs. destruct Cs; subst c; exact H. }
    clear H. destruct (negb (keys_in ["class"; "min-align"; "fields"] l)); [discriminate|].
    inv_obind Hstruct. unfold opt_of in Hstruct.
    destruct (lookup "fields" l) as [[| | | | | |fl]|]; try discriminate; try reflexivity.
    destruct (omapM (fun kv => option_map (pair (fst kv)) (v2_ft n (snd kv))) fl) as [fs|] eqn:Efs; [|discriminate].
    clear Hstruct. revert fs Efs. induction fl as [|[k y] fl IHl]; intros fs Efs; [reflexivity|].
    simpl in Efs. destruct (v2_ft n y) as [fy|] eqn:Ey; simpl in Efs; [|discriminate].
    destruct (omapM (fun kv => option_map (pair (fst kv)) (v2_ft n (snd kv))) fl) as [fs'|]; simpl in Efs; [|discriminate].
    simpl. rewrite (IH _ _ Ey). simpl. eapply IHl. reflexivity.
Qed.

(* field types at full strength: no hypothesis besides "the barectf 2 reading understands the node" *)
Theorem ft_equiv_full : forall fuel y f,
  v2_ft fuel y = Some f -> exists y', conv_ft y = Ok y' /\ v3_ft fuel y' = Some (erase_clk f).
Proof. intros fuel y f H. eapply ft_equiv; [exact H|eapply v2_ft_conv_ok; exact H]. Qed.
