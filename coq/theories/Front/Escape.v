(* C15: reading a TSDL string literal, written from the CTF 1.8 specification (appendix C.1.5,
   "String literals": the ISO C99 6.4.5 grammar):

     string-literal:  " s-char-sequence(opt) "
     s-char:          any character except the double quote ", backslash \ or NEW-LINE character
                      | escape-sequence
     escape-sequence: \' \" \? \\ \a \b \f \n \r \t \v  |  \o \oo \ooo  |  \x hex-digits
                      | \uXXXX | \UXXXXXXXX

   A one-character-per-step state machine (so that it is structurally recursive).
   Model only; the round-trip statements about barectf's escape_dq are in EscapeProofs.v. *)
From Coq Require Import List NArith Bool.
Import ListNotations.
From BT.Front Require Import Prefix.
Open Scope N_scope.

Inductive lstate :=
| SN                          (* inside the literal *)
| SE                          (* after a backslash *)
| SO (acc : N) (n : nat)      (* octal escape, n digits read (1 or 2) *)
| SX (acc : N) (any : bool)   (* hexadecimal escape *)
| SU (acc : N) (rem : nat)    (* universal character name, rem digits to go *)
| SD                          (* after the closing quote *)
| SErr.

Definition octal_digit (c : N) : option N := if (48 <=? c) && (c <=? 55) then Some (c - 48) else None.
Definition hex_digit (c : N) : option N :=
  if (48 <=? c) && (c <=? 57) then Some (c - 48)
  else if (97 <=? c) && (c <=? 102) then Some (c - 87)
  else if (65 <=? c) && (c <=? 70) then Some (c - 55)
  else None.

Definition normal (c : N) : lstate * list N :=
  if c =? 34 then (SD, [])
  else if c =? 92 then (SE, [])
  else if c =? 10 then (SErr, [])      (* a new-line character is not an s-char *)
  else (SN, [c]).

Definition simple_escape (c : N) : option N :=
  if c =? 39 then Some 39 else if c =? 34 then Some 34 else if c =? 63 then Some 63
  else if c =? 92 then Some 92
  else if c =? 97 then Some 7 else if c =? 98 then Some 8 else if c =? 102 then Some 12
  else if c =? 110 then Some 10 else if c =? 114 then Some 13 else if c =? 116 then Some 9
  else if c =? 118 then Some 11 else None.

Definition step (s : lstate) (c : N) : lstate * list N :=
  match s with
  | SN => normal c
  | SE =>
      match simple_escape c with
      | Some v => (SN, [v])
      | None =>
          match octal_digit c with
          | Some d => (SO d 1, [])
          | None => if c =? 120 then (SX 0 false, [])
                    else if c =? 117 then (SU 0 4, [])
                    else if c =? 85 then (SU 0 8, [])
                    else (SErr, [])
          end
      end
  | SO acc n =>
      match octal_digit c with
      | Some d => if Nat.eqb n 2 then (SN, [acc * 8 + d]) else (SO (acc * 8 + d) (S n), [])
      | None => let r := normal c in (fst r, acc :: snd r)
      end
  | SX acc any =>
      match hex_digit c with
      | Some d => (SX (acc * 16 + d) true, [])
      | None => if any then let r := normal c in (fst r, acc :: snd r) else (SErr, [])
      end
  | SU acc rem =>
      match hex_digit c with
      | Some d => match rem with
                  | O => (SErr, [])
                  | S O => (SN, [acc * 16 + d])
                  | S r => (SU (acc * 16 + d) r, [])
                  end
      | None => (SErr, [])
      end
  | SD => (SErr, [])
  | SErr => (SErr, [])
  end.

Fixpoint run (s : lstate) (l : str) (out : str) : option str :=
  match l with
  | [] => match s with SD => Some out | _ => None end
  | c :: t =>
      let r := step s c in
      match fst r with
      | SErr => None
      | s' => run s' t (out ++ snd r)
      end
  end.

(* the whole text must be exactly one literal *)
Definition read_literal (l : str) : option str :=
  match l with
  | 34 :: t => run SN t []
  | _ => None
  end.

Definition quote (s : str) : str := 34 :: s ++ [34].

(* what a correct escaping function for TSDL must satisfy; a candidate that is enough:
   backslash and quote get a backslash, new-line becomes \n *)
Definition esc1_spec (c : N) : str :=
  if c =? 92 then [92; 92] else if c =? 34 then [92; 34] else if c =? 10 then [92; 110] else [c].
Definition escape_spec (s : str) : str := flat_map esc1_spec s.

(* correspondence cases: (text, literal produced by the real metadata generator without the
   quotes): reading it back must give the text *)
Definition opt_str_eqb (a : option str) (b : str) : bool :=
  match a with Some x => str_eqb x b | None => false end.
Definition literal_case_ok (c : str * str) : bool := opt_str_eqb (read_literal (quote (snd c))) (fst c).
