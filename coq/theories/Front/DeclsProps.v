(* C19 (prefixes) and the C17 part about static storage: theorems on a declaration list, and
   their obligations on the regenerated Gen/Decls.v. *)
From Coq Require Import List NArith Bool String.
Import ListNotations.
From BT.Front Require Import Prefix PrefixProofs Decls.
From BT.Gen Require Import Decls.
Open Scope N_scope.

(* ---- generic part ------------------------------------------------------------------------ *)

Lemma render_prefixed : forall p sigma n,
    starts_with_prefix n = true -> exists t, render_name p sigma n = p ++ t.
Proof.
  intros p sigma n H. destruct n as [|x r]; [discriminate|].
  destruct x; try discriminate. exists (render_name p sigma r).
  unfold render_name. cbn [flat_map render_piece]. reflexivity.
Qed.

(* every external symbol defined by the generated source starts with the identifier prefix,
   whatever the prefix and whatever the names of streams / event record types are *)
Theorem symbols_prefixed : forall ds,
    all_ext_prefixed ds = true ->
    forall d, In d (ext_defs ds) ->
    forall p sigma, is_prefix p (render_name p sigma (d_name d)) = true.
Proof.
  intros ds H d Hd p sigma. unfold all_ext_prefixed in H. rewrite forallb_forall in H.
  destruct (render_prefixed p sigma (d_name d) (H d Hd)) as [t Ht]. rewrite Ht. apply is_prefix_app.
Qed.

(* two tracers whose prefixes are not comparable (neither is a prefix of the other) never define
   the same external symbol -- whatever their configurations *)
Theorem disjoint_prefix_disjoint_symbols : forall ds,
    all_ext_prefixed ds = true ->
    forall p q, is_prefix p q = false -> is_prefix q p = false ->
    forall d1 d2, In d1 (ext_defs ds) -> In d2 (ext_defs ds) ->
    forall s1 s2, render_name p s1 (d_name d1) <> render_name q s2 (d_name d2).
Proof.
  intros ds H p q Hpq Hqp d1 d2 H1 H2 s1 s2 E.
  unfold all_ext_prefixed in H. rewrite forallb_forall in H.
  destruct (render_prefixed p s1 (d_name d1) (H d1 H1)) as [t1 E1].
  destruct (render_prefixed q s2 (d_name d2) (H d2 H2)) as [t2 E2].
  rewrite E1, E2 in E.
  destruct (app_eq_prefix_cases p q t1 t2 E) as [K|K]; congruence.
Qed.

(* "different prefixes" alone is NOT enough: with p a proper prefix of q a stream name can absorb
   the difference.  Witness on any declaration list that names a per-stream symbol
   PREFIX <stream name> REST. *)
Definition per_stream_symbol (d : decl) : bool :=
  match d_name d with
  | PPrefix :: POther e :: _ => str_eqb e (s2l "dst.name")
  | _ => false
  end.

Definition nested_prefix_collision_b (ds : list decl) : bool :=
  match find per_stream_symbol (ext_defs ds) with
  | Some d =>
      str_eqb (render_name (s2l "a_") (sigma_of (s2l "b_s") (s2l "e")) (d_name d))
              (render_name (s2l "a_b_") (sigma_of (s2l "s") (s2l "e")) (d_name d))
  | None => false
  end.

Theorem nested_prefix_collision : forall ds,
    nested_prefix_collision_b ds = true ->
    exists p q d s1 s2, p <> q /\ In d (ext_defs ds) /\
                        render_name p s1 (d_name d) = render_name q s2 (d_name d).
Proof.
  intros ds H. unfold nested_prefix_collision_b in H.
  destruct (find per_stream_symbol (ext_defs ds)) as [d|] eqn:F; [|discriminate].
  apply find_some in F. destruct F as [Hin _].
  exists (s2l "a_"), (s2l "a_b_"), d, (sigma_of (s2l "b_s") (s2l "e")), (sigma_of (s2l "s") (s2l "e")).
  split; [vm_compute; discriminate|]. split; [exact Hin|].
  apply str_eqb_true. exact H.
Qed.

(* ---- obligations on the regenerated declarations ------------------------------------------ *)

Lemma decls_ext_prefixed : all_ext_prefixed decls = true.
Proof. vm_compute. reflexivity. Qed.

Lemma decls_nested_prefix_collision : nested_prefix_collision_b decls = true.
Proof. vm_compute. reflexivity. Qed.

Lemma decls_default_macro_resolves : default_macro_resolves_b decls = true.
Proof. vm_compute. reflexivity. Qed.

Lemma decls_tracepoint_resolves :
  tracepoint_resolves_b decls tracepoint_tokens tracepoint_prefix_sources tracepoint_dst_sources = true.
Proof. vm_compute. reflexivity. Qed.

(* non-vacuity: there ARE external definitions and static-duration objects in the list *)
Lemma decls_nonvacuous :
  Nat.ltb 10 (List.length (ext_defs decls)) = true /\ existsb static_duration decls = true.
Proof. vm_compute. split; reflexivity. Qed.
