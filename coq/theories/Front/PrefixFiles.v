(* C19: names of the generated files and the prefix derivations (CLI --prefix, configuration
   `prefix` property), on the functions translated from /repo into Gen/PyFuns.v. *)
From Coq Require Import List NArith Bool String.
Import ListNotations.
From BT.Front Require Import Prefix PrefixProofs CTypes.
From BT.Gen Require Import PyFuns.
Open Scope N_scope.


Theorem file_names_prefixed : forall fp,
    generated_file_names fp = doc_file_names fp /\
    forall n, In n (generated_file_names fp) -> n = s2l "metadata" \/ is_prefix fp n = true.
Proof.
  intro fp. split; [reflexivity|].
  intros n Hn. cbn in Hn.
  destruct Hn as [H|[H|[H|[H|[]]]]]; subst; try (right; apply is_prefix_app).
  left. reflexivity.
Qed.

Theorem cli_prefix_override_spec : forall p,
    cli_prefix_override_shape = true /\
    cli_prefix_override p = (p, rstrip_char 95 p).
Proof. intro p. split; reflexivity. Qed.

Theorem cfg_prefixes_spec : forall s, cfg_prefixes_of_str s = (s ++ s2l "_", s).
Proof. intro s. reflexivity. Qed.

(* ---- correspondence cases (harness/props/c19.py) ---- *)
Definition pair_eqb (a b : str * str) : bool := str_eqb (fst a) (fst b) && str_eqb (snd a) (snd b).

(* (v2 prefix, (identifier, file name) computed by the real _v3_prefixes_from_v2_prefix) *)
Definition v2_prefix_case_ok (c : str * (str * str)) : bool := pair_eqb (v3_prefixes_from_v2_prefix (fst c)) (snd c).
(* (configuration `prefix: S`, (identifier prefix, file name prefix) of the real Configuration) *)
Definition cfg_prefix_case_ok (c : str * (str * str)) : bool := pair_eqb (cfg_prefixes_of_str (fst c)) (snd c).
(* (--prefix P, files written by the real CLI, does PREFIXinit appear among the symbols) *)
Definition cli_case_ok (c : str * list str * list str) : bool :=
  let pr := cli_prefix_override (fst (fst c)) in
  forallb (fun n => existsb (str_eqb n) (snd (fst c))) (generated_file_names (snd pr)) &&
  forallb (fun n => existsb (str_eqb n) (generated_file_names (snd pr))) (snd (fst c)) &&
  existsb (str_eqb (fst pr ++ s2l "init")) (snd c).
