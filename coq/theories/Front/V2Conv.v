(* C18 — the barectf 2 -> barectf 3 conversion of config_parse_v2.py, on YAML trees.

   `conv_config` models _Parser._transform_config_node (with _conv_meta_node, _conv_dst_node,
   _conv_ert_node, _conv_clk_type_node and the _conv_*_ft_node family) applied to the root mapping
   AFTER inclusions, alias expansion and inheritance (those stages are the C12 models), i.e. to the
   tree that passed the `config/2/config` schema.  The result is the root mapping wrapped by
   _ConfigNodeV3 (the barectf 3 tag), before the barectf 3 parser touches it.

   Outcomes (YamlRes.res):  Ok tree | CfgErr (the converter raises _ConfigurationParseError)
                            | Crash (any other Python exception: KeyError, AttributeError,
                              TypeError, AssertionError).  No fuel anywhere: every function is
                              structurally recursive.
   OrderedDict semantics is kept exactly (position of a replaced key, appended keys last), because
   the correspondence compares ordered trees.

   Shapes that the `config/2/config` schema excludes and on which Python would do something exotic
   (iterating over the characters of a string where a list is expected, `in` on a string, a
   non-string label) are mapped to Crash; they are never reached by the real converter and are
   outside every theorem (valid_v2 implies the schema's shape constraints that matter).

   `major_version` models config_parse._config_file_major_version / _create_v3_parser's dispatch.
   No proof here (V2Proofs.v). *)
From Coq Require Import List String ZArith Bool Ascii.
Import ListNotations.
From BT.Front Require Import Yaml YamlRes.
Open Scope string_scope.
Open Scope list_scope.

(* ================================================================== OrderedDict operations *)

(* `k in node` *)
Definition has (k : string) (l : entries) : bool := mem k (keys l).

(* `del node[k]` (keys of a PyYAML mapping are unique: removing every occurrence = removing it) *)
Definition del (k : string) (l : entries) : entries :=
  filter (fun kv => negb (String.eqb (fst kv) k)) l.

(* `node[k] = v`: an existing key keeps its position, a new key goes last *)
Definition put (k : string) (v : yaml) (l : entries) : entries :=
  if has k l then set k v l else l ++ [(k, v)].

(* _rename_prop *)
Definition rename (o n : string) (l : entries) : entries :=
  match lookup o l with
  | Some v => del o (put n v l)
  | None => l
  end.

(* _copy_prop_if_exists(dst, src, sk, dk) *)
Definition copy_prop (dst src : entries) (sk dk : string) : entries :=
  match lookup sk src with
  | Some v => put dk v dst
  | None => dst
  end.

(* `node.get(k)`: a key holding null and a missing key are both None *)
Definition getn (k : string) (l : entries) : option yaml :=
  match lookup k l with
  | Some YNull => None
  | o => o
  end.

Fixpoint klookup {A} (k : string) (l : list (string * A)) : option A :=
  match l with
  | [] => None
  | kv :: l' => if String.eqb (fst kv) k then Some (snd kv) else klookup k l'
  end.

Definition in_list (s : string) (l : list string) : bool := existsb (String.eqb s) l.

(* ================================================================== prefix
   config_parse_common._v3_prefixes_from_v2_prefix: (p, p.rstrip('_')) *)
Definition underscore : ascii := "_"%char.

(* strip trailing underscores: keep a character iff something other than `_` follows or it is not `_` *)
Fixpoint rstrip_us (s : string) : string :=
  match s with
  | EmptyString => EmptyString
  | String c s' =>
      match rstrip_us s' with
      | EmptyString => if Ascii.eqb c underscore then EmptyString else String c EmptyString
      | r => String c r
      end
  end.

Definition v3_prefixes (p : string) : string * string := (p, rstrip_us p).

(* ================================================================== field types *)
Definition int_classes := ["int"; "integer"].
Definition enum_classes := ["enum"; "enumeration"].
Definition real_classes := ["flt"; "float"; "floating-point"].
Definition string_classes := ["str"; "string"].
Definition array_classes := ["array"].
Definition struct_classes := ["struct"; "structure"].

(* _conv_int_ft_node *)
Definition conv_int (l : entries) : entries :=
  let cls := match lookup "signed" l with Some (YBool true) => "sint" | _ => "uint" end in
  let n := put "class" (YStr cls) l in
  let n := del "signed" n in
  let n := rename "align" "alignment" n in
  let n := rename "base" "preferred-display-base" n in
  let n := del "encoding" n in
  let n := del "byte-order" n in
  del "property-mappings" n.

(* the `for member_node in members_node` loop of _conv_enum_ft_node: `mappings_node[label].append(v)` *)
Definition add_mapping (label : string) (v : yaml) (acc : entries) : entries :=
  match lookup label acc with
  | Some (YSeq vs) => set label (YSeq (vs ++ [v])) acc
  | _ => put label (YSeq [v]) acc
  end.

Fixpoint enum_loop (ms : list yaml) (cur : Z) (acc : entries) : res entries :=
  match ms with
  | [] => Ok acc
  | YStr label :: ms' => enum_loop ms' (cur + 1)%Z (add_mapping label (YInt cur) acc)
  | YMap ml :: ms' =>
      match lookup "label" ml, lookup "value" ml with
      | Some (YStr label), Some (YInt v) => enum_loop ms' (v + 1)%Z (add_mapping label (YInt v) acc)
      | Some (YStr label), Some (YSeq [a; YInt b]) =>
          enum_loop ms' (b + 1)%Z (add_mapping label (YSeq [a; YInt b]) acc)
      | _, _ => Crash
      end
  | _ => Crash
  end.

(* _conv_real_ft_node (`byte-order` is removed, like for integers: since fix 3990a98 in /repo) *)
Definition conv_real (l : entries) : res entries :=
  let n := put "class" (YStr "real") l in
  let n := rename "align" "alignment" n in
  let n := del "byte-order" n in
  match lookup "size" n with
  | Some (YMap sl) =>
      match lookup "exp" sl, lookup "mant" sl with
      | Some (YInt e), Some (YInt m) => Ok (put "size" (YInt (e + m)) n)
      | _, _ => Crash
      end
  | _ => Crash
  end.

(* _conv_string_ft_node *)
Definition conv_string (l : entries) : entries := del "encoding" l.

(* What the recursion hands to a node about each of its children: the child converted as a field
   type, and the child's own children converted as field types (needed for `fields`). *)
Definition kid : Type := (res yaml * list (string * res yaml))%type.

Fixpoint seq_fields (l : list (string * res yaml)) : res (list yaml) :=
  match l with
  | [] => Ok []
  | (name, r) :: l' =>
      rbind r (fun c => rbind (seq_fields l') (fun rest =>
        Ok (YMap [(name, YMap [("field-type", c)])] :: rest)))
  end.

Definition conv_enum (l : entries) (kids : list (string * kid)) : res yaml :=
  match klookup "value-type" kids with
  | None => Crash
  | Some (r, _) =>
      rbind r (fun vt =>
        match vt with
        | YMap vl =>
            let cls := match lookup "class" vl with Some (YStr "sint") => "senum" | _ => "uenum" end in
            let n := put "class" (YStr cls) vl in
            match getn "members" l with
            | None => Ok (YMap n)
            | Some (YSeq ms) => rbind (enum_loop ms 0%Z []) (fun mp => Ok (YMap (put "mappings" (YMap mp) n)))
            | Some _ => Crash
            end
        | _ => Crash
        end)
  end.

Definition conv_array (l : entries) (kids : list (string * kid)) : res yaml :=
  match lookup "length" l with
  | None => Crash
  | Some len =>
      let dyn := yaml_eqb len (YStr "dynamic") in
      let n := [("class", YStr (if dyn then "dynamic-array" else "static-array"))] in
      let n := if dyn then n else n ++ [("length", len)] in
      match klookup "element-type" kids with
      | None => Crash
      | Some (r, _) => rbind r (fun e => Ok (YMap (n ++ [("element-field-type", e)])))
      end
  end.

Definition conv_struct (cls : yaml) (l : entries) (kids : list (string * kid)) : res yaml :=
  let n := copy_prop [("class", cls)] l "min-align" "minimum-alignment" in
  match getn "fields" l with             (* `v2_ft_node.get('fields') is not None` since fix 616725c in /repo *)
  | None => Ok (YMap n)
  | Some (YMap _) =>
      match klookup "fields" kids with
      | Some (_, fk) => rbind (seq_fields fk) (fun ms => Ok (YMap (n ++ [("members", YSeq ms)])))
      | None => Crash
      end
  | Some _ => Crash                       (* .items() of a non-mapping: AttributeError (excluded by the schema) *)
  end.

(* _conv_ft_node on a mapping, given the conversions of its children *)
Definition conv_node (l : entries) (kids : list (string * kid)) : res yaml :=
  match lookup "class" l with
  | Some (YStr c) =>
      if in_list c int_classes then Ok (YMap (conv_int l))
      else if in_list c enum_classes then conv_enum l kids
      else if in_list c real_classes then rbind (conv_real l) (fun n => Ok (YMap n))
      else if in_list c string_classes then Ok (YMap (conv_string l))
      else if in_list c array_classes then conv_array l kids
      else if in_list c struct_classes then conv_struct (YStr c) l kids
      else Crash
  | _ => Crash
  end.

Fixpoint conv_cata (y : yaml) : kid :=
  match y with
  | YMap l =>
      let kids := map (fun kv => (fst kv, conv_cata (snd kv))) l in
      (conv_node l kids, map (fun kc => (fst kc, fst (snd kc))) kids)
  | _ => (Crash, [])
  end.

(* _conv_ft_node *)
Definition conv_ft (y : yaml) : res yaml := fst (conv_cata y).

(* _conv_ft_node_if_exists(parent, key) with parent = None when `p` is None *)
Definition conv_ft_if_exists (p : option entries) (k : string) : res (option yaml) :=
  match p with
  | None => Ok None
  | Some l => match lookup k l with
              | None => Ok None
              | Some y => rbind (conv_ft y) (fun c => Ok (Some c))
              end
  end.

(* _set_v3_feature_ft_if_exists *)
Definition set_feature (k : string) (o : option yaml) (l : entries) : entries :=
  put k (match o with Some y => y | None => YBool false end) l.

(* ================================================================== clock types *)
(* _conv_clk_type_node *)
Definition conv_clock (y : yaml) : res yaml :=
  match y with
  | YMap l =>
      let n := rename "freq" "frequency" l in
      let n := rename "error-cycles" "precision" n in
      let n := rename "absolute" "origin-is-unix-epoch" n in
      let n := rename "return-ctype" "$c-type" n in
      Ok (YMap (rename "$return-ctype" "$c-type" n))
  | _ => Crash
  end.

(* ================================================================== event record types *)
(* _conv_ert_node *)
Definition conv_ert (y : yaml) : res yaml :=
  match y with
  | YMap l =>
      let n := copy_prop [] l "log-level" "log-level" in
      rbind (match getn "context-type" l with
             | None => Ok n
             | Some t => rbind (conv_ft t) (fun c => Ok (n ++ [("specific-context-field-type", c)]))
             end) (fun n =>
      rbind (match getn "payload-type" l with
             | None => Ok n
             | Some t => rbind (conv_ft t) (fun c => Ok (n ++ [("payload-field-type", c)]))
             end) (fun n => Ok (YMap n)))
  | _ => Crash
  end.

Fixpoint conv_values (f : yaml -> res yaml) (l : entries) : res entries :=
  match l with
  | [] => Ok []
  | kv :: l' => rbind (f (snd kv)) (fun c => rbind (conv_values f l') (fun r => Ok ((fst kv, c) :: r)))
  end.

(* ================================================================== data stream types *)
Definition ctf_member_names :=
  ["packet_size"; "content_size"; "timestamp_begin"; "timestamp_end"; "events_discarded"; "packet_seq_num"].

(* clk_type_name_from_v2_int_ft_node(fields.get(key)) *)
Definition clk_name (o : option yaml) : res (option yaml) :=
  match o with
  | None | Some YNull => Ok None
  | Some (YMap il) =>
      match lookup "class" il with
      | Some (YStr c) =>
          if in_list c int_classes then
            match getn "property-mappings" il with
            | None => Ok None
            | Some (YSeq []) | Some (YMap []) | Some (YStr "") => Ok None
            | Some (YSeq (YMap f :: _)) => match lookup "name" f with Some n => Ok (Some n) | None => Crash end
            | Some _ => Crash
            end
          else Crash
      | _ => Crash
      end
  | Some _ => Crash
  end.

Definition first_some (a b : option yaml) : option yaml := match a with Some _ => a | None => b end.

(* the `fields` node of a header structure type that may be missing: None = the type is None, or it
   has no `fields`, or its `fields` is null (`.get('fields')` since fix 616725c in /repo) *)
Definition opt_fields (t : option yaml) : res (option entries) :=
  match t with
  | None => Ok None
  | Some (YMap tl) =>
      match lookup "fields" tl with
      | None => Ok None
      | Some YNull => Ok None
      | Some (YMap fl) => Ok (Some fl)
      | Some _ => Crash
      end
  | Some _ => Crash
  end.

Fixpoint extra_members (pf : entries) : res (list yaml) :=
  match pf with
  | [] => Ok []
  | kv :: pf' =>
      if in_list (fst kv) ctf_member_names then extra_members pf'
      else rbind (conv_ft (snd kv)) (fun c => rbind (extra_members pf') (fun r =>
             Ok (YMap [(fst kv, YMap [("field-type", c)])] :: r)))
  end.

Definition req_ft (k : string) (l : entries) : res yaml :=
  match lookup k l with Some y => conv_ft y | None => Crash end.

(* _conv_dst_node *)
Definition conv_dst (y : yaml) : res yaml :=
  match y with
  | YMap d =>
      let n := copy_prop [] d "$default" "$is-default" in
      match lookup "packet-context-type" d with
      | Some (YMap p) =>
          match lookup "fields" p with
          | None => Crash
          | Some pcf =>
              rbind (opt_fields (getn "event-header-type" d)) (fun ehf =>
              match pcf with
              | YMap pf =>
                  rbind (clk_name (lookup "timestamp_begin" pf)) (fun tsb =>
                  rbind (clk_name (lookup "timestamp_end" pf)) (fun tse =>
                  rbind (match tsb, tse with
                         | Some a, Some b =>
                             if yaml_eqb a b then Ok tt
                             else CfgErr "Field types are not mapped to the same clock type"
                         | _, _ => Ok tt
                         end) (fun _ =>
                  rbind (match ehf with
                         | Some ef => clk_name (lookup "timestamp" ef)
                         | None => Ok None
                         end) (fun ehc =>
                  let def := first_some ehc (first_some tsb tse) in
                  let n := match def with Some c => n ++ [("$default-clock-type-name", c)] | None => n end in
                  (* v3_features_node_from_v2_ft_nodes *)
                  rbind (req_ft "packet_size" pf) (fun total =>
                  rbind (req_ft "content_size" pf) (fun content =>
                  rbind (conv_ft_if_exists (Some pf) "timestamp_begin") (fun fbeg =>
                  rbind (conv_ft_if_exists (Some pf) "timestamp_end") (fun fend =>
                  rbind (conv_ft_if_exists (Some pf) "events_discarded") (fun fdisc =>
                  let ef := match ehf with Some ef => ef | None => [] end in
                  rbind (conv_ft_if_exists (Some ef) "id") (fun fid =>
                  rbind (conv_ft_if_exists (Some ef) "timestamp") (fun fts =>
                  let pkt := [("total-size-field-type", total); ("content-size-field-type", content)] in
                  let pkt := set_feature "beginning-timestamp-field-type" fbeg pkt in
                  let pkt := set_feature "end-timestamp-field-type" fend pkt in
                  let pkt := set_feature "discarded-event-records-counter-snapshot-field-type" fdisc pkt in
                  let er := set_feature "type-id-field-type" fid [] in
                  let er := set_feature "timestamp-field-type" fts er in
                  let n := n ++ [("$features", YMap [("packet", YMap pkt); ("event-record", YMap er)])] in
                  rbind (extra_members pf) (fun ex =>
                  let n := match ex with [] => n | _ => n ++ [("packet-context-field-type-extra-members", YSeq ex)] end in
                  rbind (match getn "event-context-type" d with
                         | None => Ok n
                         | Some t => rbind (conv_ft t) (fun c => Ok (n ++ [("event-record-common-context-field-type", c)]))
                         end) (fun n =>
                  match lookup "events" d with
                  | Some (YMap evs) =>
                      rbind (conv_values conv_ert evs) (fun evs' =>
                        Ok (YMap (n ++ [("event-record-types", YMap evs')])))
                  | _ => Crash
                  end)))))))))))))
              | _ => Crash                               (* the schema requires a mapping (fix 616725c); otherwise .get fails *)
              end)
          end
      | _ => Crash
      end
  | _ => Crash
  end.

(* ================================================================== metadata -> trace *)
(* the `for dst_name, v3_dst_node in v3_dsts_node.items()` loop of the `$default-stream` handling *)
Fixpoint mark_default (name : yaml) (dsts : entries) : option entries :=
  match dsts with
  | [] => None
  | kv :: dsts' =>
      if yaml_eqb (YStr (fst kv)) name then
        match snd kv with
        | YMap dl => Some ((fst kv, YMap (put "$is-default" (YBool true) dl)) :: dsts')
        | other => Some ((fst kv, other) :: dsts')        (* unreachable: conv_dst returns mappings *)
        end
      else option_map (cons kv) (mark_default name dsts')
  end.

(* v3_features_node_from_v2_ft_node *)
Definition trace_features (ph : option yaml) : res entries :=
  rbind (match ph with
         | None => Ok (Some [])
         | Some _ => opt_fields ph
         end) (fun phf =>
  rbind (conv_ft_if_exists phf "magic") (fun fm =>
  rbind (conv_ft_if_exists phf "uuid") (fun fu =>
  rbind (conv_ft_if_exists phf "stream_id") (fun fs =>
    Ok (set_feature "data-stream-type-id-field-type" fs
         (set_feature "uuid-field-type" fu
           (set_feature "magic-field-type" fm []))))))).

(* _conv_meta_node *)
Definition conv_meta (y : yaml) : res yaml :=
  match y with
  | YMap m =>
      match lookup "trace" m with
      | Some (YMap tl) =>
          let tt := copy_prop [] tl "byte-order" "trace-byte-order" in
          let tt := copy_prop tt tl "uuid" "uuid" in
          let tt := copy_prop tt m "log-levels" "$log-level-aliases" in
          let tt := copy_prop tt m "$log-levels" "$log-level-aliases" in
          rbind (match getn "clocks" m with
                 | None => Ok tt
                 | Some (YMap cl) => rbind (conv_values conv_clock cl) (fun cl' => Ok (tt ++ [("clock-types", YMap cl')]))
                 | Some _ => Crash
                 end) (fun tt =>
          rbind (trace_features (getn "packet-header-type" tl)) (fun feats =>
          let tt := tt ++ [("$features", YMap feats)] in
          match lookup "streams" m with
          | Some (YMap sl) =>
              rbind (conv_values conv_dst sl) (fun dsts =>
              rbind (match getn "$default-stream" m with
                     | None => Ok dsts
                     | Some name => match mark_default name dsts with
                                    | Some dsts' => Ok dsts'
                                    | None => CfgErr "Data stream type does not exist"
                                    end
                     end) (fun dsts =>
              let tt := tt ++ [("data-stream-types", YMap dsts)] in
              let tr := match getn "env" m with Some e => [("environment", e)] | None => [] end in
              Ok (YMap (tr ++ [("type", YMap tt)]))))
          | _ => Crash
          end))
      | _ => Crash
      end
  | _ => Crash
  end.

(* ================================================================== the configuration node *)
(* _transform_config_node *)
Definition conv_config (y : yaml) : res yaml :=
  match y with
  | YMap root =>
      if negb (has "version" root) then Crash else
      let r := del "version" root in
      match (match lookup "prefix" r with Some p => p | None => YStr "barectf_" end) with
      | YStr p =>
          let r := del "prefix" r in
          let opts := getn "options" r in
          let r := del "options" r in
          let pf := v3_prefixes p in
          let cg := [("prefix", YMap [("identifier", YStr (fst pf)); ("file-name", YStr (snd pf))])] in
          rbind (match opts with
                 | None => Ok cg
                 | Some (YMap ol) =>
                     let h := copy_prop [] ol "gen-prefix-def" "identifier-prefix-definition" in
                     let h := copy_prop h ol "gen-default-stream-def" "default-data-stream-type-name-definition" in
                     Ok (cg ++ [("header", YMap h)])
                 | Some _ => Crash
                 end) (fun cg =>
          let r := put "options" (YMap [("code-generation", YMap cg)]) r in
          match lookup "metadata" r with
          | Some meta => rbind (conv_meta meta) (fun tr => Ok (YMap (del "metadata" (put "trace" tr r))))
          | None => Crash
          end)
      | _ => Crash                                         (* None.rstrip / int.rstrip: AttributeError *)
      end
  | _ => Crash
  end.

(* ================================================================== version detection
   A loaded document is its root node and whether that node carries the barectf 3 tag
   (tag:barectf.org,2020/3/config).  _yaml_load accepts the tag only on a mapping. *)
Definition major_version (tagged : bool) (root : yaml) : res Z :=
  match tagged, root with
  | true, YMap _ => Ok 3%Z
  | true, _ => CfgErr "Expecting a map for the tag"
  | false, YMap _ => Ok 2%Z
  | false, _ => CfgErr "Root (configuration) node is not an object"   (* since fix b10375b in /repo *)
  end.

(* which parser _create_v3_parser builds: 3 = barectf 3 parser directly, 2 = barectf 2 parser first *)
Definition parser_dispatch (tagged : bool) (root : yaml) : res Z :=
  match tagged, root with
  | true, YMap _ => Ok 3%Z
  | true, _ => CfgErr "Expecting a map for the tag"
  | false, YMap _ => Ok 2%Z
  | false, _ => CfgErr "Root (configuration) node is not an object"
  end.

(* the whole path of a barectf 2 document up to the barectf 3 parser's input *)
Definition load_v2 (root : yaml) : res yaml := conv_config root.

(* ================================================================== correspondence cases *)
Inductive outcome : Type := OOk (y : yaml) | OCfgErr | OCrash.

Definition outcome_ok (r : res yaml) (o : outcome) : bool :=
  match r, o with
  | Ok a, OOk b => yaml_eqb a b
  | CfgErr _, OCfgErr => true
  | Crash, OCrash => true
  | _, _ => false
  end.

(* (pre-conversion root, what the real _transform_config_node left / raised) *)
Definition conv_case : Type := (yaml * outcome)%type.
Definition conv_case_ok (c : conv_case) : bool := outcome_ok (conv_config (fst c)) (snd c).

(* (v2 field type node, real _conv_ft_node result) *)
Definition ft_case_ok (c : conv_case) : bool := outcome_ok (conv_ft (fst c)) (snd c).
