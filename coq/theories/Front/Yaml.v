(* YAML trees as the barectf parsers see them after `_yaml_load`:
   mappings are collections.OrderedDict (insertion ordered, keys unique by construction),
   sequences are Python lists, scalars are None / bool / int / float / str.
   Keys are strings (every key the barectf schemas know is a string; the generators of the
   correspondence only draw string keys).  A float is kept as the opaque text of its repr:
   no rule of C12 computes with a float, it is only copied or replaced. *)
From Coq Require Import List String ZArith Bool.
Import ListNotations.
Open Scope string_scope.

Inductive yaml : Type :=
| YNull
| YBool (b : bool)
| YInt (z : Z)
| YFloat (repr : string)
| YStr (s : string)
| YSeq (items : list yaml)
| YMap (entries : list (string * yaml)).

(* ------------------------------------------------------------------ induction principle *)
Section YamlInd.
  Variable P : yaml -> Prop.
  Hypothesis Hnull : P YNull.
  Hypothesis Hbool : forall b, P (YBool b).
  Hypothesis Hint : forall z, P (YInt z).
  Hypothesis Hfloat : forall s, P (YFloat s).
  Hypothesis Hstr : forall s, P (YStr s).
  Hypothesis Hseq : forall l, Forall P l -> P (YSeq l).
  Hypothesis Hmap : forall l, Forall (fun kv => P (snd kv)) l -> P (YMap l).

  Fixpoint yaml_ind' (y : yaml) : P y :=
    match y with
    | YNull => Hnull
    | YBool b => Hbool b
    | YInt z => Hint z
    | YFloat s => Hfloat s
    | YStr s => Hstr s
    | YSeq l => Hseq l ((fix go (l : list yaml) : Forall P l :=
                           match l with
                           | [] => Forall_nil _
                           | x :: l' => Forall_cons x (yaml_ind' x) (go l')
                           end) l)
    | YMap l => Hmap l ((fix go (l : list (string * yaml)) : Forall (fun kv => P (snd kv)) l :=
                           match l with
                           | [] => Forall_nil _
                           | kv :: l' => Forall_cons kv (yaml_ind' (snd kv)) (go l')
                           end) l)
    end.
End YamlInd.

(* ------------------------------------------------------------------ association lists *)
Definition entries := list (string * yaml).

Fixpoint lookup (k : string) (l : entries) : option yaml :=
  match l with
  | [] => None
  | kv :: l' => if String.eqb (fst kv) k then Some (snd kv) else lookup k l'
  end.

Definition keys (l : entries) : list string := map fst l.

Fixpoint mem (k : string) (ks : list string) : bool :=
  match ks with
  | [] => false
  | k' :: ks' => String.eqb k' k || mem k ks'
  end.

(* dict[k] = v on an existing key: the position of the key is kept *)
Fixpoint set (k : string) (v : yaml) (l : entries) : entries :=
  match l with
  | [] => []
  | kv :: l' => if String.eqb (fst kv) k then (k, v) :: l' else kv :: set k v l'
  end.

(* del dict[k] *)
Fixpoint remove (k : string) (l : entries) : entries :=
  match l with
  | [] => []
  | kv :: l' => if String.eqb (fst kv) k then l' else kv :: remove k l'
  end.

Fixpoint nodupb (ks : list string) : bool :=
  match ks with
  | [] => true
  | k :: ks' => negb (mem k ks') && nodupb ks'
  end.

Definition ylookup (k : string) (y : yaml) : option yaml :=
  match y with YMap l => lookup k l | _ => None end.

Definition ykeys (y : yaml) : list string :=
  match y with YMap l => keys l | _ => [] end.

(* ------------------------------------------------------------------ boolean equality *)
Fixpoint yaml_eqb (a b : yaml) {struct a} : bool :=
  match a, b with
  | YNull, YNull => true
  | YBool x, YBool y => Bool.eqb x y
  | YInt x, YInt y => Z.eqb x y
  | YFloat x, YFloat y => String.eqb x y
  | YStr x, YStr y => String.eqb x y
  | YSeq la, YSeq lb =>
      (fix go (la lb : list yaml) {struct la} : bool :=
         match la, lb with
         | [], [] => true
         | x :: la', y :: lb' => yaml_eqb x y && go la' lb'
         | _, _ => false
         end) la lb
  | YMap la, YMap lb =>
      (fix go (la lb : entries) {struct la} : bool :=
         match la, lb with
         | [], [] => true
         | x :: la', y :: lb' => String.eqb (fst x) (fst y) && yaml_eqb (snd x) (snd y) && go la' lb'
         | _, _ => false
         end) la lb
  | _, _ => false
  end.

Lemma yaml_eqb_sound : forall a y2, yaml_eqb a y2 = true -> a = y2.
Proof.
  induction a as [| | | | |la IH|la IH] using yaml_ind'; intros y2 H; destruct y2; simpl in H; try discriminate.
  - reflexivity.
  - apply Bool.eqb_prop in H. now subst.
  - apply Z.eqb_eq in H. now subst.
  - apply String.eqb_eq in H. now subst.
  - apply String.eqb_eq in H. now subst.
  - f_equal. revert items H. induction IH as [|x la Hx _ IHl]; intros [|y lb] H; try discriminate.
    + reflexivity.
    + apply andb_prop in H. destruct H as [H1 H2]. f_equal; [now apply Hx | now apply IHl].
  - f_equal. revert entries0 H. induction IH as [|x la Hx _ IHl]; intros [|y lb] H; try discriminate.
    + reflexivity.
    + apply andb_prop in H. destruct H as [H12 H3]. apply andb_prop in H12. destruct H12 as [H1 H2].
      apply String.eqb_eq in H1. apply Hx in H2.
      destruct x, y; simpl in *; subst. f_equal. now apply IHl.
Qed.

Lemma yaml_eqb_refl : forall a, yaml_eqb a a = true.
Proof.
  induction a as [| | | | |la IH|la IH] using yaml_ind'; simpl; auto.
  - apply Bool.eqb_reflx.
  - apply Z.eqb_refl.
  - apply String.eqb_refl.
  - apply String.eqb_refl.
  - induction IH as [|x la Hx _ IHl]; [reflexivity|]. now rewrite Hx, IHl.
  - induction IH as [|x la Hx _ IHl]; [reflexivity|]. now rewrite String.eqb_refl, Hx, IHl.
Qed.

Definition oyaml_eqb (a b : option yaml) : bool :=
  match a, b with
  | Some x, Some y => yaml_eqb x y
  | None, None => true
  | _, _ => false
  end.

Lemma oyaml_eqb_sound : forall a b, oyaml_eqb a b = true -> a = b.
Proof. intros [x|] [y|] H; simpl in H; try discriminate; [f_equal; now apply yaml_eqb_sound | reflexivity]. Qed.

(* ------------------------------------------------------------------ depth, size (for reporting) *)
Fixpoint depth (y : yaml) : nat :=
  match y with
  | YSeq l => S (fold_right (fun x d => Nat.max (depth x) d) 0 l)
  | YMap l => S (fold_right (fun kv d => Nat.max (depth (snd kv)) d) 0 l)
  | _ => 0
  end.

(* helper used by the generated case files: indices of failing cases *)
Fixpoint failing {A} (f : A -> bool) (i : nat) (l : list A) : list nat :=
  match l with [] => [] | x :: l => if f x then failing f (S i) l else i :: failing f (S i) l end.
