(* C12 — model of _Parser._resolve_ft_alias (config_parse_common.py): field type alias expansion.

   The Python mutates three things: the node being resolved, the alias table itself
   (`ft_aliases_node[alias]` is resolved in place the first time the alias is met) and two sets:
   self._resolved_ft_aliases (aliases completely resolved) and alias_set (aliases met during the
   current top-level call; never shrinks).  The model threads them as a state and returns the new
   value of the position being resolved.  The jump to the aliased node is not structural: fuel. *)
From Coq Require Import List String ZArith Bool.
Import ListNotations.
From BT.Front Require Import Yaml YamlRes Patch.
Open Scope string_scope.
Open Scope list_scope.

Record astate : Type := { al : entries; resolved : list string; aset : list string }.

(* self._ft_prop_names *)
Definition ft_prop_names : list string := ["$inherit"; "inherit"; "value-type"; "element-type"; "element-field-type"].
Definition members_prop (v3 : bool) : string := if v3 then "members" else "fields".

Section AliasStep.
  Variable v3 : bool.
  (* recursive call: resolve the value of one position *)
  Variable rec : astate -> yaml -> res (astate * yaml).

  (* threads the state through the entries of a mapping, applying f to the values whose key
     satisfies sel (the Python loops only read `node[pkey]` for the keys they know) *)
  Definition on_entries (sel : string -> bool) (st : astate) (nl : entries) : res (astate * entries) :=
    fold_left (fun acc kv => rbind acc (fun sa =>
                 if sel (fst kv)
                 then rbind (rec (fst sa) (snd kv)) (fun sv => Ok (fst sv, snd sa ++ [(fst kv, snd sv)]))
                 else Ok (fst sa, snd sa ++ [kv])))
              nl (Ok (st, [])).

  (* _struct_ft_member_fts_iter + the loop over it, barectf 3: `members` is a list of mappings;
     the first entry (name, val) of each: a mapping val has its `field-type` resolved (if any),
     anything else is itself the field type position *)
  Definition on_member (acc : res (astate * list yaml)) (m : yaml) : res (astate * list yaml) :=
    rbind acc (fun sa =>
      match m with
      | YMap ((name, val) :: rest) =>
          match val with
          | YMap vl =>
              rbind (on_entries (String.eqb "field-type") (fst sa) vl)
                    (fun sv => Ok (fst sv, snd sa ++ [YMap ((name, YMap (snd sv)) :: rest)]))
          | _ => rbind (rec (fst sa) val)
                       (fun sv => Ok (fst sv, snd sa ++ [YMap ((name, snd sv) :: rest)]))
          end
      | _ => Crash          (* assert type(member_node) is OrderedDict / list(...)[0] *)
      end).

  Definition on_members (st : astate) (mv : yaml) : res (astate * yaml) :=
    match mv, v3 with
    | YSeq ms, true => rbind (fold_left on_member ms (Ok (st, []))) (fun sa => Ok (fst sa, YSeq (snd sa)))
    | YMap fl, false => rbind (on_entries (fun _ => true) st fl) (fun sa => Ok (fst sa, YMap (snd sa)))
    | _, _ => Crash         (* the asserts on the major version / the type *)
    end.

  Definition resolve_step (st : astate) (node : yaml) : res (astate * yaml) :=
    match node with
    | YNull => Ok (st, YNull)
    | YStr a =>
        match lookup a (al st) with
        | None => CfgErr "field type alias does not exist"
        | Some target =>
            if mem a (resolved st) then Ok (st, target)
            else if mem a (aset st) then CfgErr "cycle detected during field type alias resolution"
            else rbind (rec {| al := al st; resolved := resolved st; aset := a :: aset st |} target)
                       (fun sv => let st' := fst sv in
                                  Ok ({| al := set a (snd sv) (al st'); resolved := a :: resolved st'; aset := aset st' |},
                                      snd sv))
        end
    | YMap nl =>
        rbind (on_entries (fun k => mem k ft_prop_names) st nl) (fun sa =>
        match lookup (members_prop v3) (snd sa) with
        | None => Ok (fst sa, YMap (snd sa))
        | Some mv => rbind (on_members (fst sa) mv)
                           (fun sm => Ok (fst sm, YMap (set (members_prop v3) (snd sm) (snd sa))))
        end)
    | _ => Crash            (* `key not in parent_node` on a bool / int / list: TypeError or worse *)
    end.
End AliasStep.

Fixpoint resolve (fuel : nat) (v3 : bool) (st : astate) (node : yaml) : res (astate * yaml) :=
  match fuel with
  | O => OutOfFuel
  | S f => resolve_step v3 (resolve f v3) st node
  end.

(* _resolve_ft_alias_from for one top-level position with a fresh alias_set *)
Definition resolve_from (fuel : nat) (v3 : bool) (aliases : entries) (resolved0 : list string) (node : yaml) : res (astate * yaml) :=
  resolve fuel v3 {| al := aliases; resolved := resolved0; aset := [] |} node.

(* alias-free: no string is left at a field type position (checked, for the examples and the
   correspondence, by a boolean walk that follows the same positions) *)
Fixpoint alias_free_fuel (fuel : nat) (v3 : bool) (node : yaml) : bool :=
  match fuel with
  | O => false
  | S f =>
      match node with
      | YStr _ => false
      | YMap nl =>
          forallb (fun kv => if mem (fst kv) ft_prop_names then alias_free_fuel f v3 (snd kv) else true) nl
          && match lookup (members_prop v3) nl with
             | Some (YSeq ms) => forallb (fun m => match m with
                                                   | YMap ((_, YMap vl) :: _) =>
                                                       match lookup "field-type" vl with Some t => alias_free_fuel f v3 t | None => true end
                                                   | YMap ((_, t) :: _) => alias_free_fuel f v3 t
                                                   | _ => true end) ms
             | Some (YMap fl) => forallb (fun kv => alias_free_fuel f v3 (snd kv)) fl
             | _ => true
             end
      | _ => true
      end
  end.

(* ------------------------------------------------------------------ correspondence cases *)
(* (v3, alias table, value at a position, what the real code left there | None = config error) *)
Definition alias_case : Type := (bool * entries * yaml * option yaml)%type.

Definition alias_case_ok (c : alias_case) : bool :=
  match c with (v3, aliases, node, expected) =>
    match resolve_from 200 v3 aliases [] node, expected with
    | Ok sv, Some e => yaml_eqb (snd sv) e
    | CfgErr _, None => true
    | _, _ => false
    end
  end.
