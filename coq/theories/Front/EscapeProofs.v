(* C15: barectf's escape_dq (translated into Gen/PyFuns.v from template.py) against the TSDL
   string literal reader of Escape.v. *)
From Coq Require Import List NArith Bool Lia.
Import ListNotations.
From BT.Front Require Import Prefix CTypes Escape.
From BT.Gen Require Import PyFuns.
Open Scope N_scope.

(* the translated function, character by character, is the reference escaping function
   (new-line included since the fix: commit in /repo) *)
Lemma escape_dq_flat : forall s, escape_dq s = escape_spec s.
Proof.
  unfold escape_dq, escape_spec, replace_char. induction s as [|c t IH]; [reflexivity|].
  cbn [flat_map]. rewrite !flat_map_app. rewrite IH. f_equal.
  unfold esc1_spec. destruct (c =? 92) eqn:E1.
  - reflexivity.
  - cbn [flat_map app]. destruct (c =? 34) eqn:E2.
    + reflexivity.
    + cbn [flat_map app]. destruct (c =? 10); reflexivity.
Qed.

(* the full-strength statement holds for the reference escaping function (so the reader is not
   unreasonably strict): kept to show what the repair has to achieve *)
Lemma run_escape_spec : forall s out, run SN (escape_spec s ++ [34]) out = Some (out ++ s).
Proof.
  induction s as [|c t IH]; intro out.
  - cbn. rewrite app_nil_r. reflexivity.
  - unfold escape_spec. cbn [flat_map]. fold (escape_spec t). unfold esc1_spec at 1.
    destruct (c =? 92) eqn:E1.
    + apply N.eqb_eq in E1. subst c. cbn. rewrite app_nil_r. rewrite (IH (out ++ [92])). rewrite <- app_assoc. reflexivity.
    + destruct (c =? 34) eqn:E2.
      * apply N.eqb_eq in E2. subst c. cbn. rewrite app_nil_r. rewrite (IH (out ++ [34])). rewrite <- app_assoc. reflexivity.
      * destruct (c =? 10) eqn:E3.
        -- apply N.eqb_eq in E3. subst c. cbn. rewrite app_nil_r. rewrite (IH (out ++ [10])). rewrite <- app_assoc. reflexivity.
        -- cbn [app run step]. unfold normal. rewrite E2, E1, E3. cbn [fst snd].
           rewrite (IH (out ++ [c])). rewrite <- app_assoc. reflexivity.
Qed.

Theorem escape_spec_roundtrip : forall s, read_literal (quote (escape_spec s)) = Some s.
Proof. intro s. unfold read_literal, quote. apply (run_escape_spec s []). Qed.

(* every string survives: read_literal ("\"" + escape_dq s + "\"") = s *)
Theorem escape_roundtrip : forall s, read_literal (quote (escape_dq s)) = Some s.
Proof. intro s. rewrite escape_dq_flat. apply escape_spec_roundtrip. Qed.
