(* C13: a template whose loops over the name-hashed sets are all sorted renders to the same text
   whatever order the sets are enumerated in. *)
From Coq Require Import List NArith Bool Permutation.
Import ListNotations.
From BT.Front Require Import Prefix Ids IdsProofs Template.
Open Scope N_scope.

Lemma loop_ext : forall {E} (f g : nat -> E -> option str) l i,
    (forall i x, f i x = g i x) -> loop f i l = loop g i l.
Proof.
  induction l as [|x r IH]; intros i H; cbn [loop]; [reflexivity|].
  rewrite H. destruct (g i x); [|reflexivity]. rewrite (IH (S i) H). reflexivity.
Qed.

Lemma tlookup_in : forall tb n t, tlookup tb n = Some t -> exists k, In (k, t) tb.
Proof.
  induction tb as [|[k t0] r IH]; cbn [tlookup]; intros n t H; [discriminate|].
  destruct (str_eqb k n).
  - inversion H; subst. exists k. left. reflexivity.
  - destruct (IH n t H) as [k' Hk]. exists k'. right. exact Hk.
Qed.

Lemma mlookup_in : forall mb tn mn t, mlookup mb tn mn = Some t -> exists k1 k2, In (k1, k2, t) mb.
Proof.
  induction mb as [|[[k1 k2] t0] r IH]; cbn [mlookup]; intros tn mn t H; [discriminate|].
  destruct (str_eqb k1 tn && str_eqb k2 mn).
  - inversion H; subst. exists k1, k2. left. reflexivity.
  - destruct (IH tn mn t H) as [a [b Hk]]. exists a, b. right. exact Hk.
Qed.

Section RenderProofs.
  Variables (env elt : Type).
  Variable key : elt -> str.
  Variable text : N -> str.
  Variable out : N -> env -> str.
  Variable cond : N -> env -> bool.
  Variable setv : N -> env -> env.
  Variable setb : N -> str -> env -> env.
  Variable filt : N -> str -> env -> str.
  Variable members : N -> env -> list elt.
  Variable bind : N -> nat -> nat -> elt -> env -> env.
  Variable margs : N -> env -> env.
  Variable mpost : N -> str -> env -> str.
  Variable tb : ttable.
  Variable mb : mtable.

  Let rend := render env elt key text out cond setv setb filt members bind margs mpost tb mb.
  Let enum := enumerate env elt key members.

  (* an oracle is admissible when it only permutes *)
  Definition admissible (o : oracle env elt) : Prop :=
    forall id e l, Permutation (o id e l) l.

  (* the members of a set have pairwise distinct names (barectf sets are unique by name) *)
  Definition names_unique : Prop := forall id e, NoDup (map key (members id e)).

  Lemma enumerate_order_free : forall o o' id k s e,
      admissible o -> admissible o' -> names_unique ->
      (match k with NameSet => s | Ordered => true end) = true ->
      enum o id k s e = enum o' id k s e.
  Proof.
    intros o o' id k s e Ho Ho' Hu Hk. unfold enum, enumerate.
    destruct k; [|reflexivity].
    cbn in Hk. subst s.
    apply (sort_by_key_perm_eq key).
    - eapply Permutation_NoDup; [apply Permutation_sym; apply Permutation_map; apply Ho|apply Hu].
    - eapply perm_trans; [apply Ho|apply Permutation_sym; apply Ho'].
  Qed.

  Theorem render_order_free_gen : forall o o',
      admissible o -> admissible o' -> names_unique ->
      plan_sorted tb mb = true ->
      forall fuel t e, all_set_loops_sorted t = true -> rend fuel o t e = rend fuel o' t e.
  Proof.
    intros o o' Ho Ho' Hu Hplan.
    unfold plan_sorted in Hplan. apply andb_true_iff in Hplan. destruct Hplan as [Htb Hmb].
    rewrite forallb_forall in Htb, Hmb.
    induction fuel as [|f IH]; intros t e Ht; [reflexivity|].
    unfold rend in *. destruct t; cbn [render all_set_loops_sorted] in *.
    - reflexivity.
    - reflexivity.
    - reflexivity.
    - apply andb_true_iff in Ht. destruct Ht as [H1 H2].
      rewrite (IH t1 e H1). destruct (render _ _ _ _ _ _ _ _ _ _ _ _ _ _ _ f o' t1 e) as [r1|]; [|reflexivity].
      rewrite (IH t2 (snd r1) H2). reflexivity.
    - apply andb_true_iff in Ht. destruct Ht as [Ht H3]. apply andb_true_iff in Ht. destruct Ht as [H1 H2].
      fold (enum o id kind sorted e). fold (enum o' id kind sorted e).
      rewrite (enumerate_order_free o o' id kind sorted e Ho Ho' Hu H1).
      destruct (enum o' id kind sorted e) as [|x l] eqn:El.
      + rewrite (IH t2 e H3). reflexivity.
      + erewrite loop_ext; [reflexivity|]. intros i y. cbv beta. rewrite (IH t1 _ H2). reflexivity.
    - apply andb_true_iff in Ht. destruct Ht as [H1 H2].
      destruct (cond id e); [apply IH; exact H1|apply IH; exact H2].
    - reflexivity.
    - rewrite (IH t e Ht). reflexivity.
    - rewrite (IH t e Ht). reflexivity.
    - destruct (tlookup tb name) as [t'|] eqn:El; [|reflexivity].
      destruct (tlookup_in _ _ _ El) as [k Hk]. pose proof (Htb _ Hk) as Hs. cbn [snd] in Hs.
      rewrite (IH t' e Hs). reflexivity.
    - destruct (mlookup mb tname mname) as [t'|] eqn:El; [|reflexivity].
      destruct (mlookup_in _ _ _ _ El) as [k1 [k2 Hk]]. pose proof (Hmb _ Hk) as Hs. cbn [snd] in Hs.
      rewrite (IH t' _ Hs). reflexivity.
  Qed.
End RenderProofs.

(* the statement in the form used by Props/C13.v: for a plan (template and macro tables) that
   passes the computable check, EVERY template of the plan renders order-independently under
   EVERY interpretation of its leaves. *)
Theorem render_order_free :
  forall (tb : ttable) (mb : mtable), plan_sorted tb mb = true ->
  forall (env elt : Type) key text out cond setv setb filt members bind margs mpost
         (o o' : oracle env elt),
    admissible env elt o -> admissible env elt o' -> names_unique env elt key members ->
    forall name t, In (name, t) tb ->
    forall fuel e,
      render env elt key text out cond setv setb filt members bind margs mpost tb mb fuel o t e =
      render env elt key text out cond setv setb filt members bind margs mpost tb mb fuel o' t e.
Proof.
  intros tb mb Hplan env elt key text out cond setv setb filt members bind margs mpost o o' Ho Ho' Hu name t Hin fuel e.
  apply render_order_free_gen; try assumption.
  unfold plan_sorted in Hplan. apply andb_true_iff in Hplan. destruct Hplan as [Htb _].
  rewrite forallb_forall in Htb. apply (Htb (name, t) Hin).
Qed.

(* ---- a toy interpretation, for non-vacuity examples and for showing that the hypothesis is
   needed: context = list of bound element names (innermost first), every leaf prints its id and
   the innermost binding, every set has the two members "b" and "a". *)
Module Toy.
  Definition env := list str.
  Definition elt := str.
  Definition key (x : elt) : str := x.
  Definition text (id : N) : str := [id].
  Definition out (id : N) (e : env) : str := id :: hd [] e.
  Definition cond (id : N) (e : env) : bool := true.
  Definition setv (id : N) (e : env) : env := e.
  Definition setb (id : N) (s : str) (e : env) : env := e.
  Definition filt (id : N) (s : str) (e : env) : str := s.
  Definition members (id : N) (e : env) : list elt := [[98]; [97]].
  Definition bind (id : N) (i n : nat) (x : elt) (e : env) : env := x :: e.
  Definition margs (id : N) (e : env) : env := e.
  Definition mpost (id : N) (s : str) (e : env) : str := s.
  Definition o_id : oracle env elt := fun _ _ l => l.
  Definition o_rev : oracle env elt := fun _ _ l => rev l.
  Definition run tb mb fuel o t := option_map fst (render env elt key text out cond setv setb filt members bind margs mpost tb mb fuel o t []).

  Lemma o_id_adm : admissible env elt o_id.
  Proof. intros id e l. apply Permutation_refl. Qed.
  Lemma o_rev_adm : admissible env elt o_rev.
  Proof. intros id e l. apply Permutation_sym, Permutation_rev. Qed.
  Lemma toy_unique : names_unique env elt key members.
  Proof.
    intros id e. cbn. constructor.
    - intros [H|[]]. discriminate.
    - constructor; [intros []|constructor].
  Qed.
End Toy.

(* an unsorted loop over a name-hashed set IS order-sensitive: the check is not vacuous *)
Example unsorted_loop_is_order_sensitive :
  Toy.run [] [] 5 Toy.o_id (For 1 NameSet false (Out 7) Nop) <>
  Toy.run [] [] 5 Toy.o_rev (For 1 NameSet false (Out 7) Nop).
Proof. vm_compute. discriminate. Qed.

Example sorted_loop_example :
  Toy.run [] [] 5 Toy.o_rev (For 1 NameSet true (Out 7) Nop) = Some [7; 97; 7; 98].
Proof. vm_compute. reflexivity. Qed.

(* ---- Python loops that only fill a map keyed by (a function of) the element --------------- *)

Lemma find_app' : forall {A} (f : A -> bool) l1 l2,
    find f (l1 ++ l2) = match find f l1 with Some x => Some x | None => find f l2 end.
Proof.
  induction l1 as [|x r IH]; intro l2; [reflexivity|].
  cbn [app find]. destruct (f x); [reflexivity|apply IH].
Qed.

Section FoldInsert.
  Context {K V E : Type} (keq : K -> K -> bool).
  Hypothesis keq_spec : forall a b, keq a b = true <-> a = b.
  Variables (kf : E -> K) (vf : E -> V).

  (* dict[kf x] = vf x *)
  Definition dict_set (d : list (K * V)) (x : E) : list (K * V) := (kf x, vf x) :: d.
  Fixpoint dict_get (d : list (K * V)) (k : K) : option V :=
    match d with
    | [] => None
    | (k', v) :: r => if keq k' k then Some v else dict_get r k
    end.

  Lemma dict_get_fold_in : forall l d k,
      dict_get (fold_left dict_set l d) k =
      match find (fun x => keq (kf x) k) (rev l) with
      | Some x => Some (vf x)
      | None => dict_get d k
      end.
  Proof.
    induction l as [|x r IH]; intros d k; [reflexivity|].
    cbn [fold_left rev]. rewrite IH. rewrite find_app'.
    destruct (find (fun y => keq (kf y) k) (rev r)); [reflexivity|].
    cbn [find dict_set dict_get]. destruct (keq (kf x) k); reflexivity.
  Qed.

  Lemma find_some_value : forall l k x,
      (forall a b, In a l -> In b l -> kf a = kf b -> vf a = vf b) ->
      find (fun y => keq (kf y) k) l = Some x -> forall y, In y l -> kf y = k -> vf y = vf x.
  Proof.
    intros l k x Hfun Hf y Hy Hk. apply find_some in Hf. destruct Hf as [Hx Hkx].
    apply keq_spec in Hkx. apply Hfun; [exact Hy|exact Hx|congruence].
  Qed.

  (* when the value stored is determined by the key (the case of every such loop in barectf:
     the key is the element itself or its default clock type, the value a function of it), every
     lookup gives the same result whatever the order of the loop *)
  Theorem fold_insert_perm : forall l l' d k,
      Permutation l l' ->
      (forall a b, In a l -> In b l -> kf a = kf b -> vf a = vf b) ->
      dict_get (fold_left dict_set l d) k = dict_get (fold_left dict_set l' d) k.
  Proof.
    intros l l' d k Hp Hfun. rewrite !dict_get_fold_in.
    assert (Hp' : Permutation (rev l) (rev l')).
    { eapply perm_trans; [apply Permutation_sym, Permutation_rev|].
      eapply perm_trans; [exact Hp|apply Permutation_rev]. }
    assert (Hfun' : forall a b, In a (rev l) -> In b (rev l) -> kf a = kf b -> vf a = vf b).
    { intros a b Ha Hb. apply Hfun; apply in_rev; assumption. }
    destruct (find (fun x => keq (kf x) k) (rev l)) as [x|] eqn:E1;
      destruct (find (fun x => keq (kf x) k) (rev l')) as [y|] eqn:E2.
    - f_equal. pose proof (find_some _ _ E2) as [Hy Hky]. apply keq_spec in Hky.
      symmetry. eapply find_some_value; [exact Hfun'|exact E1| |exact Hky].
      eapply Permutation_in; [apply Permutation_sym; exact Hp'|exact Hy].
    - exfalso. pose proof (find_some _ _ E1) as [Hx Hkx].
      assert (H : In x (rev l')) by (eapply Permutation_in; [exact Hp'|exact Hx]).
      pose proof (find_none _ _ E2 x H) as Hn. cbv beta in Hn. congruence.
    - exfalso. pose proof (find_some _ _ E2) as [Hy Hky].
      assert (H : In y (rev l)) by (eapply Permutation_in; [apply Permutation_sym; exact Hp'|exact Hy]).
      pose proof (find_none _ _ E1 y H) as Hn. cbv beta in Hn. congruence.
    - reflexivity.
  Qed.
End FoldInsert.
