(* C11 — the barectf 3 front end up to (not including) _create_config, on YAML trees:
       config_parse_v3._Parser._parse =
         _process_config_includes            (Include.process, C12)
         _expand_fts                         (member-node normalisation, Alias.resolve and
                                              Inherit.apply_inherit of C12 at every field type
                                              position of the trace type, in the parser's order)
         _sub_log_level_aliases              (LogLevel.v)
         validate `config/3/config`          (final_ok: a NECESSARY condition of that schema)
         _set_trace_byte_order_prop_key, _normalize_props, _set_trace_byte_order   (Normalize.v)
   `effective` is the tree `effective_configuration_file` dumps (the parser's root node after
   _parse; _create_config only reads it).  `pipeline` also returns the two pieces of parser state
   _create_config reads besides the tree: the byte order property key and the byte order.

   Schema validation steps are modelled by hand-written NECESSARY conditions of the schemas
   (skeleton_ok, pre_ll_ok, final_ok): the model accepts at least what the code accepts, and on
   what the code accepts it returns the code's tree (correspondence, harness/props/c11.py).
   Each conjunct of final_ok is annotated with the schema clause it comes from.
   final_ok has a parameter: strict = true is the gate of the schemas of /repo (the pipeline uses
   it); strict = false is a weaker gate that does not look inside dynamic array nodes, accepts
   structure members whose name is not an identifier and unknown properties of the trace object
   (the schemas before the repairs 5eae760, f131c5d, f6c4079 of /repo, under which the effective
   document could keep a `$inherit` property).  The lemmas are proved for both values.
   No proof here (EffectiveProofs.v). *)
From Coq Require Import List String Ascii ZArith Bool.
Import ListNotations.
From BT.Front Require Import Yaml YamlRes Patch Include Alias Inherit Normalize LogLevel.
Open Scope string_scope.
Open Scope list_scope.

(* ------------------------------------------------------------------ names *)
Definition A_KEY := "$field-type-aliases".
Definition EXTRA_KEY := "packet-context-field-type-extra-members".
Definition tt_feature_keys : list string := ["magic-field-type"; "uuid-field-type"; "data-stream-type-id-field-type"].
Definition pkt_feature_keys : list string :=
  ["total-size-field-type"; "content-size-field-type"; "beginning-timestamp-field-type"; "end-timestamp-field-type";
   "discarded-event-records-counter-snapshot-field-type"; "sequence-number-field-type"].
Definition er_feature_keys : list string := ["type-id-field-type"; "timestamp-field-type"].
Definition ert_ft_keys : list string := ["specific-context-field-type"; "payload-field-type"].

(* ^[A-Za-z_][A-Za-z0-9_]*$ *)
Definition is_alpha_ (c : ascii) : bool :=
  let n := nat_of_ascii c in
  (Nat.leb 65 n && Nat.leb n 90) || (Nat.leb 97 n && Nat.leb n 122) || Nat.eqb n 95.
Definition is_alnum_ (c : ascii) : bool :=
  let n := nat_of_ascii c in is_alpha_ c || (Nat.leb 48 n && Nat.leb n 57).
(* the rest of the name; Python's `$` also matches before one trailing new-line *)
Fixpoint ident_tail (s : string) : bool :=
  match s with
  | EmptyString => true
  | String c s' => (is_alnum_ c && ident_tail s') || (Nat.eqb (nat_of_ascii c) 10 && match s' with EmptyString => true | _ => false end)
  end.
Definition ident (s : string) : bool :=
  match s with EmptyString => false | String c s' => is_alpha_ c && ident_tail s' end.

(* ================================================================== the field type positions
   One traversal, used by the three passes of _expand_fts (they visit the same positions in the
   same order: trace type features; per data stream type: packet features, event record features,
   packet context extra members, common context; per event record type: specific context,
   payload).  S is the state a pass threads (the alias table and the resolved set, or nothing). *)
Section Trav.
  Variable S : Type.
  Variable fpos : S -> yaml -> res (S * yaml).      (* the value of a present field type property *)
  Variable fextra : S -> yaml -> res (S * yaml).    (* the (non-null) extra members value *)

  Definition pos_keys (ks : list string) (st : S) (nl : entries) : res (S * entries) :=
    fold_left (fun acc k => rbind acc (fun sa =>
                 match lookup k (snd sa) with
                 | None => Ok sa
                 | Some v => rbind (fpos (fst sa) v) (fun sv => Ok (fst sv, set k (snd sv) (snd sa)))
                 end)) ks (Ok (st, nl)).

  (* x = node.get(k); if x is not None: ... x.get(...) ... *)
  Definition opt_map (k : string) (f : S -> entries -> res (S * entries)) (st : S) (nl : entries) : res (S * entries) :=
    match lookup k nl with
    | None | Some YNull => Ok (st, nl)
    | Some (YMap xl) => rbind (f st xl) (fun sx => Ok (fst sx, set k (YMap (snd sx)) nl))
    | Some _ => Crash
    end.

  Definition each_st (f : S -> yaml -> res (S * yaml)) (st : S) (y : yaml) : res (S * yaml) :=
    match y with
    | YMap el =>
        rbind (fold_left (fun acc kv => rbind acc (fun sa =>
                 rbind (f (fst sa) (snd kv)) (fun sv => Ok (fst sv, snd sa ++ [(fst kv, snd sv)]))))
                 el (Ok (st, [])))
              (fun sa => Ok (fst sa, YMap (snd sa)))
    | _ => Crash
    end.

  Definition trav_ert (st : S) (ert : yaml) : res (S * yaml) :=
    match ert with
    | YMap el => rbind (pos_keys ert_ft_keys st el) (fun sa => Ok (fst sa, YMap (snd sa)))
    | _ => Crash
    end.

  Definition trav_dst (st : S) (dst : yaml) : res (S * yaml) :=
    match dst with
    | YMap dl =>
        rbind (opt_map "$features" (fun st fl =>
                 rbind (opt_map "packet" (pos_keys pkt_feature_keys) st fl) (fun sa =>
                 opt_map "event-record" (pos_keys er_feature_keys) (fst sa) (snd sa))) st dl) (fun sa =>
        rbind (match lookup EXTRA_KEY (snd sa) with
               | None | Some YNull => Ok sa
               | Some v => rbind (fextra (fst sa) v) (fun sv => Ok (fst sv, set EXTRA_KEY (snd sv) (snd sa)))
               end) (fun sa =>
        rbind (pos_keys ["event-record-common-context-field-type"] (fst sa) (snd sa)) (fun sa =>
        match lookup "event-record-types" (snd sa) with
        | None => Crash
        | Some erts => rbind (each_st trav_ert (fst sa) erts)
                             (fun se => Ok (fst se, YMap (set "event-record-types" (snd se) (snd sa))))
        end)))
    | _ => Crash
    end.

  Definition trav_tt (st : S) (ttl : entries) : res (S * entries) :=
    rbind (opt_map "$features" (pos_keys tt_feature_keys) st ttl) (fun sa =>
    match lookup "data-stream-types" (snd sa) with
    | None => Crash
    | Some dsts => rbind (each_st trav_dst (fst sa) dsts)
                         (fun sd => Ok (fst sd, set "data-stream-types" (snd sd) (snd sa)))
    end).
End Trav.

(* ================================================================== _normalize_struct_ft_member_nodes
   nm_pos v = what normalize_struct_ft_member_nodes(parent, key) leaves at parent[key] = v:
   in a mapping with a non-null `members` list, `- name: "alias"` becomes
   `- name: {field-type: "alias"}`, recursively through `field-type` of the members. *)
Fixpoint nm_pos (v : yaml) {struct v} : res yaml :=
  match v with
  | YMap nl =>
      rbind (rmapM (fun kv =>
               if String.eqb (fst kv) "members" then
                 match snd kv with
                 | YNull => Ok kv
                 | YSeq ms =>
                     rbind (rmapM (fun m =>
                              match m with
                              | YMap ((name, val) :: rest) =>
                                  match val with
                                  | YStr s => Ok (YMap ((name, YMap [("field-type", YStr s)]) :: rest))
                                  | YMap vl =>
                                      rbind (rmapM (fun kv' => if String.eqb (fst kv') "field-type"
                                                               then rbind (nm_pos (snd kv')) (fun x => Ok (fst kv', x))
                                                               else Ok kv') vl)
                                            (fun vl' => Ok (YMap ((name, YMap vl') :: rest)))
                                  | _ => Ok m
                                  end
                              | _ => Crash               (* list(member_node.items())[0] / .items() *)
                              end) ms)
                           (fun ms' => Ok (fst kv, YSeq ms'))
                 | YMap [] => Ok kv                      (* iterating an empty mapping: no iteration *)
                 | _ => Crash
                 end
               else Ok kv) nl)
            (fun nl' => Ok (YMap nl'))
  | _ => Ok v
  end.

(* normalize_members_node(list) *)
Definition nm_members (ms : yaml) : res yaml :=
  match nm_pos (YMap [("members", ms)]) with
  | Ok (YMap [(_, ms')]) => Ok ms'
  | Ok _ => Crash
  | CfgErr w => CfgErr w
  | Crash => Crash
  | OutOfFuel => OutOfFuel
  end.

Definition nm_fpos (st : unit) (v : yaml) : res (unit * yaml) := rbind (nm_pos v) (fun v' => Ok (tt, v')).
Definition nm_fextra (st : unit) (v : yaml) : res (unit * yaml) := rbind (nm_members v) (fun v' => Ok (tt, v')).

(* ================================================================== _expand_ft_aliases
   state between positions: the alias table (resolved aliases are stored back into it) and
   self._resolved_ft_aliases; alias_set is fresh for each position. *)
Definition xstate : Type := (entries * list string)%type.

Definition resolve_pos (fuel : nat) (st : xstate) (v : yaml) : res (xstate * yaml) :=
  rbind (resolve fuel true {| al := fst st; resolved := snd st; aset := [] |} v)
        (fun sv => Ok ((al (fst sv), resolved (fst sv)), snd sv)).

(* resolve_ft_alias_from(parent, key): only a mapping or a string is looked at *)
Definition ex_fpos (fuel : nat) (st : xstate) (v : yaml) : res (xstate * yaml) :=
  match v with
  | YMap _ | YStr _ => resolve_pos fuel st v
  | _ => Ok (st, v)
  end.

Definition is_str_ft (y : yaml) : bool := match y with YStr s => String.eqb s "field-type" | _ => false end.

(* for member_node in extra_members: member_node = list(member_node.values())[0];
   resolve_ft_alias_from(member_node, 'field-type') *)
Definition ex_fextra (fuel : nat) (st : xstate) (v : yaml) : res (xstate * yaml) :=
  match v with
  | YSeq ms =>
      rbind (fold_left (fun acc m => rbind acc (fun sa =>
               match m with
               | YMap ((name, val) :: rest) =>
                   match val with
                   | YMap vl =>
                       match lookup "field-type" vl with
                       | Some x => rbind (ex_fpos fuel (fst sa) x)
                                         (fun sv => Ok (fst sv, snd sa ++ [YMap ((name, YMap (set "field-type" (snd sv) vl)) :: rest)]))
                       | None => Ok (fst sa, snd sa ++ [m])
                       end
                   | YSeq l => if existsb is_str_ft l then Crash else Ok (fst sa, snd sa ++ [m])
                   | _ => Crash                          (* 'field-type' in None / int / bool; a str was wrapped before *)
                   end
               | _ => Crash
               end)) ms (Ok (st, [])))
            (fun sa => Ok (fst sa, YSeq (snd sa)))
  | _ => Crash
  end.

(* ================================================================== _apply_fts_inheritance *)
Definition inh_fpos (st : unit) (v : yaml) : res (unit * yaml) :=
  match v with
  | YMap _ => rbind (apply_inherit true v) (fun v' => Ok (tt, v'))
  | _ => Ok (tt, v)
  end.

Definition inh_fextra (st : unit) (v : yaml) : res (unit * yaml) :=
  match v with
  | YSeq ms =>
      rbind (rmapM (fun m =>
               match m with
               | YMap ((name, val) :: rest) =>
                   match val with
                   | YMap vl =>
                       match lookup "field-type" vl with
                       | Some x => rbind (inh_fpos tt x) (fun sv => Ok (YMap ((name, YMap (set "field-type" (snd sv) vl)) :: rest)))
                       | None => Ok m
                       end
                   | YSeq l => if existsb is_str_ft l then Crash else Ok m
                   | _ => Crash
                   end
               | _ => Crash
               end) ms)
            (fun ms' => Ok (tt, YSeq ms'))
  | _ => Crash
  end.

(* ================================================================== _expand_fts *)
Definition pre_ft_ok (root : yaml) : bool :=
  skeleton_ok root &&
  match trace_type_of root with
  | Some ttl => match lookup A_KEY ttl with None | Some YNull | Some (YMap _) => true | Some _ => false end
  | None => false
  end.

Definition expand_tt (fuel : nat) (ttl : entries) : res entries :=
  match lookup A_KEY ttl with
  | None => Ok ttl
  | Some YNull => Ok (remove A_KEY ttl)
  | Some (YMap al0) =>
      rbind (rmapM (fun kv => rbind (nm_pos (snd kv)) (fun v => Ok (fst kv, v))) al0) (fun al1 =>
      rbind (trav_tt unit nm_fpos nm_fextra tt (set A_KEY (YMap al1) ttl)) (fun s1 =>
      rbind (trav_tt xstate (ex_fpos fuel) (ex_fextra fuel) (al1, []) (snd s1)) (fun s2 =>
      rbind (trav_tt unit inh_fpos inh_fextra tt (remove A_KEY (snd s2))) (fun s3 =>
      Ok (snd s3)))))
  | Some _ => Crash
  end.

Definition expand_fts (fuel : nat) (root : yaml) : res yaml :=
  if pre_ft_ok root then on_trace_type (expand_tt fuel) root
  else CfgErr "schema: config-pre-field-type-expansion".

(* ================================================================== _process_config_includes *)
Definition include_stage (fuel : nat) (fs : entries) (dirs : list string) (root : yaml) : res yaml :=
  match root with
  | YMap rl =>
      match lookup "trace" rl with
      | Some tr => rbind (process fuel true false fs dirs [] KTrace tr) (fun tr' => Ok (YMap (set "trace" tr' rl)))
      | None => CfgErr "schema: config-pre-include: trace is required"
      end
  | _ => CfgErr "schema: config-pre-include: not an object"
  end.

(* ================================================================== the final schema, as a gate
   A necessary condition of `config/3/config` (+ field-type.yaml, common.yaml) and of the fact
   that every mapping is a Python dict (no repeated key).  strict = true: the schemas of /repo;
   strict = false: the weaker gate described at the top of this file. *)
Definition keys_in (allowed : list string) (nl : entries) : bool := forallb (fun kv => mem (fst kv) allowed) nl.
Definition has (k : string) (nl : entries) : bool := mem k (keys nl).

Definition int_keys := ["class"; "size"; "alignment"; "preferred-display-base"].
Definition enum_keys := ["class"; "size"; "alignment"; "preferred-display-base"; "mappings"].
Definition real_keys := ["class"; "size"; "alignment"].
Definition string_keys := ["class"].
Definition sarray_keys := ["class"; "element-field-type"; "length"].
Definition darray_keys := ["class"; "element-field-type"].
Definition struct_keys := ["class"; "minimum-alignment"; "members"].

(* additionalProperties: false of each *-ft definition, by canonical class *)
Definition allowed_keys (canon_cls : string) : list string :=
  if String.eqb canon_cls "unsigned-integer" || String.eqb canon_cls "signed-integer" then int_keys
  else if String.eqb canon_cls "unsigned-enumeration" || String.eqb canon_cls "signed-enumeration" then enum_keys
  else if String.eqb canon_cls "real" then real_keys
  else if String.eqb canon_cls "string" then string_keys
  else if String.eqb canon_cls "static-array" then sarray_keys
  else if String.eqb canon_cls "dynamic-array" then darray_keys
  else struct_keys.

(* opt-int-ft-preferred-display-base-prop *)
Definition pdb_ok (v : yaml) : bool :=
  match v with YNull => true | YStr s => mem s base_spellings | _ => false end.

(* weaker gate only: the value of a member whose name is not an identifier must at least let
   _create_struct_ft_members evaluate member_node['field-type']['class'] after normalisation *)
Definition blind_member_ok (mv : yaml) : bool :=
  match mv with
  | YMap ml =>
      nodupb (keys ml) &&
      match lookup "field-type" ml with
      | Some (YMap fl) =>
          nodupb (keys fl) &&
          match lookup "class" fl with None | Some YNull => false | Some _ => true end
      | _ => false
      end
  | _ => false
  end.

Fixpoint ft_ok (strict : bool) (y : yaml) {struct y} : bool :=
  match y with
  | YMap nl =>
      nodupb (keys nl) &&
      match lookup "class" nl with                                  (* ft-base: required class; ft: class enum *)
      | Some (YStr cls) =>
          mem cls class_spellings &&
          let c := canon_class cls in
          if String.eqb c "dynamic-array" && negb strict then true  (* weaker gate: node not looked at *)
          else
            forallb (fun kv =>
                       mem (fst kv) (allowed_keys c) &&
                       if String.eqb (fst kv) "preferred-display-base" then pdb_ok (snd kv)
                       else if String.eqb (fst kv) "element-field-type" then ft_ok strict (snd kv)   (* array-ft: $ref ft *)
                       else if String.eqb (fst kv) "members" then
                         match snd kv with                          (* struct-ft: array -> struct-ft-members, else null *)
                         | YNull => true
                         | YSeq ms =>
                             forallb (fun m =>
                                        match m with
                                        | YMap [(name, mv)] =>      (* minProperties 1, maxProperties 1 *)
                                            if ident name then      (* patternProperties: struct-ft-member *)
                                              match mv with
                                              | YMap ml =>
                                                  nodupb (keys ml) && has "field-type" ml &&
                                                  forallb (fun kv' => String.eqb (fst kv') "field-type" && ft_ok strict (snd kv')) ml
                                              | _ => false
                                              end
                                            else negb strict && blind_member_ok mv   (* additionalProperties: false (since f131c5d) *)
                                        | _ => false
                                        end) ms
                         | _ => false
                         end
                       else true) nl
            && (if String.eqb c "static-array" || String.eqb c "dynamic-array" then has "element-field-type" nl else true)
      | _ => false
      end
  | _ => false
  end.

(* the same clauses under names (ft_ok_eq in EffectiveProofs.v: definitional unfolding) *)
Definition member_val_ok (strict : bool) (mv : yaml) : bool :=
  match mv with
  | YMap ml => nodupb (keys ml) && has "field-type" ml &&
               forallb (fun kv' => String.eqb (fst kv') "field-type" && ft_ok strict (snd kv')) ml
  | _ => false
  end.
Definition member_item_ok (strict : bool) (m : yaml) : bool :=
  match m with
  | YMap [(name, mv)] => if ident name then member_val_ok strict mv else negb strict && blind_member_ok mv
  | _ => false
  end.
Definition members_val_ok (strict : bool) (v : yaml) : bool :=
  match v with YNull => true | YSeq ms => forallb (member_item_ok strict) ms | _ => false end.
Definition ft_clause (strict : bool) (c : string) (kv : string * yaml) : bool :=
  mem (fst kv) (allowed_keys c) &&
  if String.eqb (fst kv) "preferred-display-base" then pdb_ok (snd kv)
  else if String.eqb (fst kv) "element-field-type" then ft_ok strict (snd kv)
  else if String.eqb (fst kv) "members" then members_val_ok strict (snd kv)
  else true.

(* struct-ft-members at the packet-context-field-type-extra-members position *)
Definition members_ok (strict : bool) (v : yaml) : bool :=
  ft_ok strict (YMap [("class", YStr "structure"); ("members", v)]).

(* opt-or-def-feature-uint-ft / opt-feature-uint-ft / the uuid-field-type clause *)
Definition feature_ok (strict : bool) (v : yaml) : bool :=
  match v with YNull | YBool _ => true | YMap _ => ft_ok strict v | _ => false end.

(* opt-struct-ft *)
Definition opt_ft_ok (strict : bool) (v : yaml) : bool :=
  match v with YNull => true | YMap _ => ft_ok strict v | _ => false end.

Definition features_obj_ok (strict : bool) (allowed : list string) (v : yaml) : bool :=
  match v with
  | YNull => true
  | YMap fl => nodupb (keys fl) && keys_in allowed fl && forallb (fun kv => feature_ok strict (snd kv)) fl
  | _ => false
  end.

Definition ert_keys := ["log-level"; "specific-context-field-type"; "payload-field-type"].
Definition ert_clause (strict : bool) (kv : string * yaml) : bool :=
  mem (fst kv) ert_keys &&                                            (* additionalProperties: false *)
  if String.eqb (fst kv) "log-level"
  then match snd kv with YNull | YInt _ | YFloat _ => true | _ => false end   (* opt-int-min-0; Draft 7: 1.0 is an integer *)
  else opt_ft_ok strict (snd kv).
Definition ert_ok (strict : bool) (v : yaml) : bool :=
  match v with
  | YMap el => nodupb (keys el) && forallb (ert_clause strict) el
  | _ => false
  end.

Definition dst_keys := ["$is-default"; "$default-clock-type-name"; "$features"; EXTRA_KEY;
                        "event-record-common-context-field-type"; "event-record-types"].
Definition dst_features_clause (strict : bool) (kv : string * yaml) : bool :=
  if String.eqb (fst kv) "packet" then features_obj_ok strict pkt_feature_keys (snd kv)
  else if String.eqb (fst kv) "event-record" then features_obj_ok strict er_feature_keys (snd kv)
  else false.                                                         (* additionalProperties: false *)
Definition dst_clause (strict : bool) (kv : string * yaml) : bool :=
  mem (fst kv) dst_keys &&
  if String.eqb (fst kv) "$features" then
    match snd kv with
    | YNull => true
    | YMap fl => nodupb (keys fl) && forallb (dst_features_clause strict) fl
    | _ => false
    end
  else if String.eqb (fst kv) EXTRA_KEY then
    match snd kv with YNull => true | YSeq _ => members_ok strict (snd kv) | _ => false end
  else if String.eqb (fst kv) "event-record-common-context-field-type" then opt_ft_ok strict (snd kv)
  else if String.eqb (fst kv) "event-record-types" then
    match snd kv with
    | YMap el => nodupb (keys el) && forallb (fun kv' => ert_ok strict (snd kv')) el
    | _ => false
    end
  else true.
Definition dst_ok (strict : bool) (v : yaml) : bool :=
  match v with
  | YMap dl => nodupb (keys dl) && has "event-record-types" dl && forallb (dst_clause strict) dl
  | _ => false
  end.

Definition clock_keys := ["uuid"; "description"; "frequency"; "precision"; "offset"; "origin-is-unix-epoch"; "$c-type"].
Definition tt_keys := ["native-byte-order"; "trace-byte-order"; "uuid"; "$features"; "clock-types"; "data-stream-types"].

Definition bo_value_ok (v : yaml) : bool := match v with YStr s => mem s bo_spellings | _ => false end.
Definition clock_ok (v : yaml) : bool :=
  match v with YMap c => nodupb (keys c) && keys_in clock_keys c | _ => false end.

Definition tt_clause (strict : bool) (kv : string * yaml) : bool :=
  mem (fst kv) tt_keys &&                                              (* additionalProperties: false *)
  if String.eqb (fst kv) "native-byte-order" || String.eqb (fst kv) "trace-byte-order" then bo_value_ok (snd kv)
  else if String.eqb (fst kv) "$features" then features_obj_ok strict tt_feature_keys (snd kv)
  else if String.eqb (fst kv) "clock-types" then
    match snd kv with
    | YMap cl => nodupb (keys cl) && forallb (fun kv' => clock_ok (snd kv')) cl
    | _ => false
    end
  else if String.eqb (fst kv) "data-stream-types" then
    match snd kv with
    | YMap dl => nodupb (keys dl) && forallb (fun kv' => dst_ok strict (snd kv')) dl
    | _ => false
    end
  else true.
Definition tt_ok (strict : bool) (v : yaml) : bool :=
  match v with
  | YMap ttl =>
      nodupb (keys ttl) && has "data-stream-types" ttl &&
      xorb (has "native-byte-order" ttl) (has "trace-byte-order" ttl) &&      (* oneOf required *)
      forallb (tt_clause strict) ttl
  | _ => false
  end.

(* opt-env-prop *)
Definition env_ok (v : yaml) : bool := match v with YNull | YMap _ => true | _ => false end.

Definition trace_clause (strict : bool) (kv : string * yaml) : bool :=
  if String.eqb (fst kv) "type" then tt_ok strict (snd kv)
  else if String.eqb (fst kv) "environment" then env_ok (snd kv)
  else negb strict.                                                    (* additionalProperties: false (since f6c4079) *)

Definition final_ok (strict : bool) (root : yaml) : bool :=
  match root with
  | YMap rl =>
      nodupb (keys rl) &&
      match lookup "trace" rl with
      | Some (YMap tl) => nodupb (keys tl) && has "type" tl && forallb (trace_clause strict) tl
      | _ => false
      end
  | _ => false
  end.

(* `$include` is not a property of the trace object any more (it follows from final_ok true:
   EffectiveProofs.final_ok_no_include; under the weaker gate it is a separate requirement) *)
Definition no_include_in_trace (root : yaml) : bool :=
  match ylookup "trace" root with
  | Some (YMap tl) => negb (has "$include" tl)
  | _ => false
  end.

(* ================================================================== _set_trace_byte_order_prop_key,
   _normalize_props, _set_trace_byte_order *)
Definition bo_key_of (ttl : entries) : string :=
  if has "native-byte-order" ttl then "native-byte-order" else "trace-byte-order".

Definition normalize_tt (ttl : entries) : res yaml :=
  let k := bo_key_of ttl in
  match lookup k ttl with
  | None => Crash                                          (* KeyError *)
  | Some (YStr s) => Ok (norm (YMap (set k (YStr (canon_bo s)) ttl)))
  | Some _ => Ok (norm (YMap ttl))
  end.

Definition normalize_props (root : yaml) : res yaml :=
  on_map (at_key "trace" (on_map (fun tl =>
    rbind (at_key "type" (fun ty => match ty with YMap ttl => normalize_tt ttl | _ => Crash end) tl) (fun tl1 =>
    Ok (match lookup "environment" tl1 with Some YNull => remove "environment" tl1 | _ => tl1 end))))) root.

(* self._trace_byte_order_node (a string; _byte_order_from_node raises KeyError on anything else) *)
Definition byte_order_of (key : string) (root : yaml) : res string :=
  match trace_type_of root with
  | Some ttl => match lookup key ttl with
                | Some (YStr s) => if mem s canonical_bos then Ok s else Crash
                | _ => Crash
                end
  | None => Crash
  end.

(* ================================================================== the pipeline *)
Definition stages_before_gate (fuel : nat) (fs : entries) (dirs : list string) (root : yaml) : res yaml :=
  rbind (include_stage fuel fs dirs root) (fun t1 =>
  rbind (expand_fts fuel t1) (fun t2 =>
  sub_log_level_aliases t2)).

(* what _create_config is handed: the tree, the byte order property key, the byte order *)
Definition pipeline (fuel : nat) (fs : entries) (dirs : list string) (root : yaml) : res (yaml * string * string) :=
  rbind (stages_before_gate fuel fs dirs root) (fun t3 =>
  if final_ok true t3 then
    match trace_type_of t3 with
    | Some ttl =>
        let key := bo_key_of ttl in
        rbind (normalize_props t3) (fun t4 =>
        rbind (byte_order_of key t4) (fun bo => Ok (t4, key, bo)))
    | None => Crash
    end
  else CfgErr "schema: config/3/config").

Definition effective (fuel : nat) (fs : entries) (dirs : list string) (root : yaml) : res yaml :=
  rbind (pipeline fuel fs dirs root) (fun r => Ok (fst (fst r))).

(* ================================================================== clean
   The effective document: passes the final schema (hence: objects at field type positions — never
   a string —, integer log levels, none of `$field-type-aliases`, `$log-level-aliases`, `$include`
   in the trace type / clock type / data stream type / event record type objects, no `$inherit`
   in a field type object), has no `$include` in the trace object, is in normal form (no null
   valued property in the trace type, canonical `class` and `preferred-display-base` spellings),
   canonical byte order, and `environment` is not null.
   clean = cleanb true; wclean = cleanb false is the same with the weaker gate. *)
Definition cleanb (strict : bool) (root : yaml) : bool :=
  final_ok strict root && no_include_in_trace root &&
  match ylookup "trace" root with
  | Some (YMap tl) =>
      match lookup "environment" tl with Some YNull => false | _ => true end &&
      match lookup "type" tl with
      | Some (YMap ttl) =>
          nf (YMap ttl) &&
          match lookup (bo_key_of ttl) ttl with Some (YStr s) => mem s canonical_bos | _ => false end
      | _ => false
      end
  | _ => false
  end.

Definition clean : yaml -> bool := cleanb true.
Definition wclean : yaml -> bool := cleanb false.

(* ================================================================== correspondence cases
   (file system, inclusion directories, root node, Some effective tree | None = configuration error) *)
Definition eff_case : Type := (entries * list string * yaml * option yaml)%type.

Definition FUEL : nat := 200.

(* 0 = agree; 1 = trees differ; 2 = the model rejects what the code accepts; 3 = the model accepts
   what the code rejects (allowed: the schema gates are necessary conditions only); 4 / 5 = crash or
   out of fuel in the model on a document the code accepts / rejects *)
Definition eff_case_code (c : eff_case) : nat :=
  match c with (fs, dirs, root, expected) =>
    match effective FUEL fs dirs root, expected with
    | Ok r, Some e => if yaml_eqb r e then 0 else 1
    | CfgErr _, None => 0
    | CfgErr _, Some _ => 2
    | Ok _, None => 3
    | _, Some _ => 4
    | _, None => 5
    end
  end%nat.

(* on an accepted case: the effective tree is clean and a fixed point that needs no file *)
Definition eff_case_fix (c : eff_case) : bool :=
  match c with (fs, dirs, root, expected) =>
    match expected with
    | Some e => clean e && match effective FUEL [] [] e with Ok r => yaml_eqb r e | _ => false end
    | None => true
    end
  end.

Fixpoint codes (l : list eff_case) : list nat := match l with [] => [] | c :: l' => eff_case_code c :: codes l' end.
