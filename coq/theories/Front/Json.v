(* JSON-like values as the YAML loader hands them to the schema validator.

   Strings (values and object keys) are Coq [string]s holding the UTF-8 bytes of the Python
   string; objects are association lists in insertion order (Python dicts: keys are unique in
   everything the harness produces; [lookup] returns the first binding).

   [JFloat] keeps the exact value of a finite Python float as a fraction num/den
   (float.as_integer_ratio()), or one of inf / -inf / nan.
   [JOther] stands for every Python object that is none of the JSON types (date, bytes, set,
   tuple, ...): it has no JSON type and is equal to no schema constant. *)
From Coq Require Import List String ZArith Bool Ascii.
Import ListNotations.
Open Scope string_scope.

Inductive jfloat := FFin (num : Z) (den : positive) | FPInf | FNInf | FNaN.

Inductive json :=
| JNull
| JBool (b : bool)
| JInt (z : Z)
| JFloat (f : jfloat)
| JStr (s : string)
| JArr (l : list json)
| JObj (m : list (string * json))
| JOther (tag : string).

Fixpoint lookup (k : string) (m : list (string * json)) : option json :=
  match m with
  | [] => None
  | (k', v) :: m => if String.eqb k k' then Some v else lookup k m
  end.

Definition has_key (k : string) (m : list (string * json)) : bool :=
  match lookup k m with Some _ => true | None => false end.

Definition mem_str (k : string) (l : list string) : bool := existsb (String.eqb k) l.

(* Python equality between an instance and a scalar constant occurring in a schema
   (enum / const), as python-jsonschema 3.2.0 computes it: bool and int are kept apart
   (its `unbool`), a float equals an integer constant of the same value, containers and
   other objects equal no scalar.  The second argument is the schema constant: the
   translator only emits null / bool / integer / string constants. *)
Definition jeq (inst c : json) : bool :=
  match inst, c with
  | JNull, JNull => true
  | JBool a, JBool b => Bool.eqb a b
  | JInt a, JInt b => Z.eqb a b
  | JFloat (FFin n d), JInt b => Z.eqb n (b * Z.pos d)
  | JStr a, JStr b => String.eqb a b
  | _, _ => false
  end.

(* z <= x  and  x <= z  for a number instance x (as `instance < minimum` / `instance >
   maximum` of python-jsonschema decide; comparisons with nan are false there, hence no
   error). *)
Definition float_ge (f : jfloat) (z : Z) : bool :=
  match f with
  | FFin n d => Z.leb (z * Z.pos d) n
  | FPInf => true | FNInf => false | FNaN => true
  end.
Definition float_le (f : jfloat) (z : Z) : bool :=
  match f with
  | FFin n d => Z.leb n (z * Z.pos d)
  | FPInf => false | FNInf => true | FNaN => true
  end.

(* size, for well-founded induction over documents *)
Fixpoint jsize (j : json) : nat :=
  match j with
  | JArr l => S (fold_right (fun x a => jsize x + a) 0 l)
  | JObj m => S (fold_right (fun kx a => jsize (snd kx) + a) 0 m)
  | _ => 1
  end.

(* building strings with arbitrary bytes (used by generated case files) *)
Fixpoint str_of_bytes (l : list nat) : string :=
  match l with [] => EmptyString | n :: l => String (ascii_of_nat n) (str_of_bytes l) end.

(* structural equality (used to tie the witnesses of the `_refuted` theorems to the documents the
   harness replays on the real front end) *)
Definition jfloat_eqb (a b : jfloat) : bool :=
  match a, b with
  | FFin n d, FFin n' d' => Z.eqb n n' && Pos.eqb d d'
  | FPInf, FPInf | FNInf, FNInf | FNaN, FNaN => true
  | _, _ => false
  end.
Fixpoint json_eqb (a b : json) : bool :=
  match a, b with
  | JNull, JNull => true
  | JBool x, JBool y => Bool.eqb x y
  | JInt x, JInt y => Z.eqb x y
  | JFloat x, JFloat y => jfloat_eqb x y
  | JStr x, JStr y => String.eqb x y
  | JOther x, JOther y => String.eqb x y
  | JArr l1, JArr l2 =>
      (fix go (l1 l2 : list json) : bool :=
         match l1, l2 with
         | [], [] => true
         | x :: l1, y :: l2 => json_eqb x y && go l1 l2
         | _, _ => false
         end) l1 l2
  | JObj m1, JObj m2 =>
      (fix go (m1 m2 : list (string * json)) : bool :=
         match m1, m2 with
         | [], [] => true
         | kx :: m1, ky :: m2 => String.eqb (fst kx) (fst ky) && json_eqb (snd kx) (snd ky) && go m1 m2
         | _, _ => false
         end) m1 m2
  | _, _ => false
  end.
