(* JSON-like values as the YAML loader hands them to the schema validator.

   Strings (values and object keys) are Coq [string]s holding the UTF-8 bytes of the Python
   string; objects are association lists in insertion order (Python dicts: keys are unique in
   everything the harness produces; [lookup] returns the first binding).

   [JFloat] keeps the exact value of a finite Python float as a fraction num/den
   (float.as_integer_ratio()), or one of inf / -inf / nan.
   [JOther] stands for every Python object that is none of the JSON types (date, bytes, set,
   tuple, ...): it has no JSON type and is equal to no schema constant. *)
From Coq Require Import List String ZArith Bool Ascii.
Import ListNotations.
Open Scope string_scope.

Inductive jfloat := FFin (num : Z) (den : positive) | FPInf | FNInf | FNaN.

Inductive json :=
| JNull
| JBool (b : bool)
| JInt (z : Z)
| JFloat (f : jfloat)
| JStr (s : string)
| JArr (l : list json)
| JObj (m : list (string * json))
| JOther (tag : string).

Fixpoint lookup (k : string) (m : list (string * json)) : option json :=
  match m with
  | [] => None
  | (k', v) :: m => if String.eqb k k' then Some v else lookup k m
  end.

Definition has_key (k : string) (m : list (string * json)) : bool :=
  match lookup k m with Some _ => true | None => false end.

Definition mem_str (k : string) (l : list string) : bool := existsb (String.eqb k) l.

(* Python equality between an instance and a scalar constant occurring in a schema
   (enum / const), as python-jsonschema 3.2.0 computes it: bool and int are kept apart
   (its `unbool`), a float equals an integer constant of the same value, containers and
   other objects equal no scalar.  The second argument is the schema constant: the
   translator only emits null / bool / integer / string constants. *)
Definition jeq (inst c : json) : bool :=
  match inst, c with
  | JNull, JNull => true
  | JBool a, JBool b => Bool.eqb a b
  | JInt a, JInt b => Z.eqb a b
  | JFloat (FFin n d), JInt b => Z.eqb n (b * Z.pos d)
  | JStr a, JStr b => String.eqb a b
  | _, _ => false
  end.

(* z <= x  and  x <= z  for a number instance x (as `instance < minimum` / `instance >
   maximum` of python-jsonschema decide; comparisons with nan are false there, hence no
   error). *)
Definition float_ge (f : jfloat) (z : Z) : bool :=
  match f with
  | FFin n d => Z.leb (z * Z.pos d) n
  | FPInf => true | FNInf => false | FNaN => true
  end.
Definition float_le (f : jfloat) (z : Z) : bool :=
  match f with
  | FFin n d => Z.leb n (z * Z.pos d)
  | FPInf => false | FNInf => true | FNaN => true
  end.

(* size, for well-founded induction over documents *)
Fixpoint jsize (j : json) : nat :=
  match j with
  | JArr l => S (fold_right (fun x a => jsize x + a) 0 l)
  | JObj m => S (fold_right (fun kx a => jsize (snd kx) + a) 0 m)
  | _ => 1
  end.

(* building strings with arbitrary bytes (used by generated case files) *)
Fixpoint str_of_bytes (l : list nat) : string :=
  match l with [] => EmptyString | n :: l => String (ascii_of_nat n) (str_of_bytes l) end.
