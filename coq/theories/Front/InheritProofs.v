(* C12 — proofs about Front/Inherit.v *)
From Coq Require Import List String ZArith Bool.
Import ListNotations.
From BT.Front Require Import Yaml YamlRes Patch Alias Inherit.
Open Scope string_scope.
Open Scope list_scope.

(* a mapping none of whose keys is a field type position (no `$inherit`, `inherit`, element type,
   value type, members / fields): the own, plain properties of a field type object *)
Definition plain (v3 : bool) (p : entries) : bool :=
  forallb (fun kv => negb (mem (fst kv) ft_prop_names) && negb (String.eqb (fst kv) (members_prop v3))) p.

Lemma plain_cons : forall v3 kv p,
  plain v3 (kv :: p) = (negb (mem (fst kv) ft_prop_names) && negb (String.eqb (fst kv) (members_prop v3))) && plain v3 p.
Proof. reflexivity. Qed.

Lemma rmapM_plain : forall v3 (f g : string * yaml -> res (string * yaml)) p,
  plain v3 p = true ->
  rmapM (fun kv => if mem (fst kv) ft_prop_names then f kv
                   else if String.eqb (fst kv) (members_prop v3) then g kv else Ok kv) p = Ok p.
Proof.
  induction p as [|kv p IH]; intros H; [reflexivity|].
  rewrite plain_cons in H. apply andb_prop in H. destruct H as [H1 H2]. apply andb_prop in H1. destruct H1 as [Ha Hb].
  apply negb_true_iff in Ha. apply negb_true_iff in Hb.
  cbn [rmapM]. rewrite Ha, Hb. cbn [rbind]. rewrite (IH H2). reflexivity.
Qed.

Lemma plain_lookup : forall v3 p k, plain v3 p = true -> mem k ft_prop_names = true -> lookup k p = None.
Proof.
  induction p as [|kv p IH]; intros k H Hk; [reflexivity|].
  rewrite plain_cons in H. apply andb_prop in H. destruct H as [H1 H2]. apply andb_prop in H1. destruct H1 as [Ha _].
  apply negb_true_iff in Ha. cbn [lookup]. destruct (String.eqb (fst kv) k) eqn:E.
  - apply String.eqb_eq in E. subst. congruence.
  - now apply IH.
Qed.

(* a plain object is its own effective object *)
Theorem apply_plain : forall v3 p, plain v3 p = true -> apply_inherit v3 (YMap p) = Ok (YMap p).
Proof.
  intros v3 p H. cbn [apply_inherit]. rewrite (rmapM_plain v3 _ _ p H). cbn [rbind].
  rewrite (plain_lookup v3 p "inherit" H eq_refl), (plain_lookup v3 p "$inherit" H eq_refl). reflexivity.
Qed.

Definition derive (base : yaml) (p : entries) : yaml := YMap (("$inherit", base) :: p).

(* one inheritance step: the effective object of {$inherit: B, p...} is p patching the effective B *)
Lemma apply_derive : forall v3 base p, plain v3 p = true ->
  apply_inherit v3 (derive base p)
  = rbind (apply_inherit v3 base) (fun b => of_option (update v3 b (YMap p))).
Proof.
  intros v3 base p H. unfold derive. cbn [apply_inherit rmapM fst snd mem ft_prop_names String.eqb Ascii.eqb Bool.eqb orb].
  destruct (apply_inherit v3 base) as [b| | |]; cbn [rbind]; try reflexivity.
  rewrite (rmapM_plain v3 _ _ p H). cbn [rbind lookup fst snd String.eqb Ascii.eqb Bool.eqb].
  rewrite (plain_lookup v3 p "inherit" H eq_refl).
  cbn [lookup fst snd String.eqb Ascii.eqb Bool.eqb remove].
  destruct b; try reflexivity.
Qed.

(* inherit_chain: an inheritance chain of any length evaluates to the fold of `update` starting
   from the root-most base: root, then p1 over it, then p2, ... (the inheriting object last) *)
Theorem inherit_chain : forall v3 root ps,
  plain v3 root = true -> Forall (fun p => plain v3 p = true) ps ->
  apply_inherit v3 (fold_left derive ps (YMap root))
  = fold_left (fun acc p => rbind acc (fun b => of_option (update v3 b (YMap p)))) ps (Ok (YMap root)).
Proof.
  intros v3 root ps Hr Hps. induction ps as [|p ps IH] using rev_ind.
  - simpl. now apply apply_plain.
  - apply Forall_app in Hps. destruct Hps as [Hps Hp]. inversion Hp. subst.
    rewrite !fold_left_app. cbn [fold_left]. rewrite apply_derive by assumption. now rewrite IH.
Qed.

(* non-vacuity: three levels, v3 `members` merged as ordered map along the way *)
Example inherit_chain_example :
  apply_inherit true
    (YMap [("$inherit", YMap [("$inherit", YMap [("class", YStr "uint"); ("size", YInt 32); ("alignment", YInt 8)]);
                              ("size", YInt 16)]);
           ("preferred-display-base", YStr "hex"); ("alignment", YNull)])
  = Ok (YMap [("class", YStr "uint"); ("size", YInt 16); ("alignment", YNull); ("preferred-display-base", YStr "hex")]).
Proof. reflexivity. Qed.

Example inherit_members_example :
  apply_inherit true
    (YMap [("members", YSeq [YMap [("user_id", YMap [("field-type", YMap [("class", YStr "sint"); ("size", YInt 8)])])]]);
           ("$inherit", YMap [("class", YStr "struct");
                              ("members", YSeq [YMap [("msg", YMap [("field-type", YMap [("class", YStr "str")])])];
                                                YMap [("user_id", YMap [("field-type", YMap [("class", YStr "uint"); ("size", YInt 16); ("alignment", YInt 16)])])]])])])
  = Ok (YMap [("class", YStr "struct");
              ("members", YSeq [YMap [("msg", YMap [("field-type", YMap [("class", YStr "str")])])];
                                YMap [("user_id", YMap [("field-type", YMap [("class", YStr "sint"); ("size", YInt 8); ("alignment", YInt 16)])])]])]).
Proof. reflexivity. Qed.
