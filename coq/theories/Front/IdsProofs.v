(* Proofs about Front/Ids.v: the ID of a name is its rank; IDs do not depend on listing order. *)
From Coq Require Import List NArith Bool Permutation Sorting.Sorted Lia.
Import ListNotations.
From BT.Front Require Import Prefix Ids.
Open Scope N_scope.

(* ---- the order on strings ---------------------------------------------------------------- *)

Lemma str_eqb_eq : forall a b, str_eqb a b = true <-> a = b.
Proof.
  induction a as [|x a IH]; destruct b as [|y b]; cbn [str_eqb]; split; intro H; try congruence; try reflexivity.
  - apply andb_true_iff in H. destruct H as [H1 H2]. apply N.eqb_eq in H1. apply IH in H2. congruence.
  - inversion H; subst. rewrite N.eqb_refl. cbn. apply IH. reflexivity.
Qed.

Lemma str_eqb_refl : forall a, str_eqb a a = true.
Proof. intro a. apply str_eqb_eq. reflexivity. Qed.

Lemma str_ltb_irrefl : forall a, str_ltb a a = false.
Proof.
  induction a as [|x a IH]; cbn [str_ltb]; [reflexivity|].
  rewrite N.ltb_irrefl. exact IH.
Qed.

Lemma str_ltb_trich : forall a b, str_ltb a b = false -> str_ltb b a = false -> a = b.
Proof.
  induction a as [|x a IH]; destruct b as [|y b]; cbn [str_ltb]; intros H1 H2; try congruence.
  destruct (x <? y) eqn:Hxy; [congruence|].
  destruct (y <? x) eqn:Hyx.
  - congruence.
  - apply N.ltb_ge in Hxy. apply N.ltb_ge in Hyx.
    assert (x = y) by lia. subst. f_equal. apply IH; assumption.
Qed.

Lemma str_ltb_trans : forall a b c, str_ltb a b = true -> str_ltb b c = true -> str_ltb a c = true.
Proof.
  induction a as [|x a IH]; destruct b as [|y b]; destruct c as [|z c]; cbn [str_ltb]; intros H1 H2;
    try congruence; try reflexivity.
  destruct (x <? y) eqn:Hxy.
  - apply N.ltb_lt in Hxy.
    destruct (y <? z) eqn:Hyz.
    + apply N.ltb_lt in Hyz. assert (Hxz : (x <? z) = true) by (apply N.ltb_lt; lia). rewrite Hxz. reflexivity.
    + destruct (z <? y) eqn:Hzy; [congruence|].
      apply N.ltb_ge in Hyz. apply N.ltb_ge in Hzy. assert (y = z) by lia. subst.
      assert (Hxz : (x <? z) = true) by (apply N.ltb_lt; lia). rewrite Hxz. reflexivity.
  - destruct (y <? x) eqn:Hyx; [congruence|].
    apply N.ltb_ge in Hxy. apply N.ltb_ge in Hyx. assert (x = y) by lia. subst.
    destruct (y <? z) eqn:Hyz; [reflexivity|].
    destruct (z <? y) eqn:Hzy; [congruence|].
    apply (IH b c); assumption.
Qed.

Lemma str_ltb_asym : forall a b, str_ltb a b = true -> str_ltb b a = false.
Proof.
  intros a b H. destruct (str_ltb b a) eqn:E; [|reflexivity].
  pose proof (str_ltb_trans _ _ _ H E) as K. rewrite str_ltb_irrefl in K. congruence.
Qed.

Lemma str_leb_total : forall a b, str_leb a b = true \/ str_leb b a = true.
Proof.
  intros a b. unfold str_leb. destruct (str_ltb b a) eqn:E.
  - right. rewrite (str_ltb_asym _ _ E). reflexivity.
  - left. reflexivity.
Qed.

Lemma str_leb_antisym : forall a b, str_leb a b = true -> str_leb b a = true -> a = b.
Proof.
  unfold str_leb. intros a b H1 H2. apply negb_true_iff in H1. apply negb_true_iff in H2.
  apply str_ltb_trich; assumption.
Qed.

Lemma str_leb_trans : forall a b c, str_leb a b = true -> str_leb b c = true -> str_leb a c = true.
Proof.
  unfold str_leb. intros a b c H1 H2. apply negb_true_iff in H1. apply negb_true_iff in H2.
  apply negb_true_iff. destruct (str_ltb c a) eqn:E; [|reflexivity].
  destruct (str_ltb a b) eqn:Eab.
  - pose proof (str_ltb_trans _ _ _ E Eab). congruence.
  - assert (a = b) by (apply str_ltb_trich; assumption). subst. congruence.
Qed.

Lemma str_leb_neq_ltb : forall a b, str_leb a b = true -> a <> b -> str_ltb a b = true.
Proof.
  unfold str_leb. intros a b H N. apply negb_true_iff in H.
  destruct (str_ltb a b) eqn:E; [reflexivity|]. exfalso. apply N. apply str_ltb_trich; assumption.
Qed.

(* ---- insertion sort over a total preorder ------------------------------------------------ *)

Section SortProofs.
  Context {A : Type} (leb : A -> A -> bool).
  Hypothesis leb_total : forall a b, leb a b = true \/ leb b a = true.
  Hypothesis leb_trans : forall a b c, leb a b = true -> leb b c = true -> leb a c = true.
  Let le a b := leb a b = true.

  Lemma insert_perm : forall x l, Permutation (insert leb x l) (x :: l).
  Proof.
    induction l as [|y t IH]; cbn [insert]; [apply Permutation_refl|].
    destruct (leb x y); [apply Permutation_refl|].
    eapply perm_trans; [apply perm_skip; exact IH|apply perm_swap].
  Qed.

  Lemma sort_perm : forall l, Permutation (sort leb l) l.
  Proof.
    induction l as [|x t IH]; cbn [sort fold_right]; [apply perm_nil|].
    eapply perm_trans; [apply insert_perm|]. apply perm_skip. exact IH.
  Qed.

  Lemma insert_sorted : forall x l, StronglySorted le l -> StronglySorted le (insert leb x l).
  Proof.
    induction l as [|y t IH]; intro Hs; cbn [insert].
    - constructor; constructor.
    - inversion Hs as [|y' t' Hst Hall]; subst.
      destruct (leb x y) eqn:E.
      + constructor; [exact Hs|]. constructor; [exact E|].
        eapply Forall_impl; [|exact Hall]. intros a Ha. eapply leb_trans; [exact E|exact Ha].
      + constructor; [apply IH; exact Hst|].
        eapply Permutation_Forall; [apply Permutation_sym; apply insert_perm|].
        constructor; [|exact Hall].
        destruct (leb_total x y) as [K|K]; [unfold le; congruence|exact K].
  Qed.

  Lemma sort_sorted : forall l, StronglySorted le (sort leb l).
  Proof.
    induction l as [|x t IH]; cbn [sort fold_right]; [constructor|].
    apply insert_sorted. exact IH.
  Qed.

  (* a sorted list is determined by its elements when the order is antisymmetric on them *)
  Lemma sorted_perm_unique : forall l l',
      StronglySorted le l -> StronglySorted le l' -> Permutation l l' ->
      (forall a b, In a l -> In b l -> le a b -> le b a -> a = b) ->
      l = l'.
  Proof.
    induction l as [|a t IH]; intros l' Hs Hs' Hp Hanti.
    - apply Permutation_nil in Hp. congruence.
    - destruct l' as [|b t']; [apply Permutation_sym, Permutation_nil in Hp; congruence|].
      inversion Hs as [|? ? Hst Hall]; subst. inversion Hs' as [|? ? Hst' Hall']; subst.
      assert (Hab : a = b).
      { assert (Ha : In a (b :: t')) by (eapply Permutation_in; [exact Hp|left; reflexivity]).
        assert (Hb : In b (a :: t)) by (eapply Permutation_in; [apply Permutation_sym; exact Hp|left; reflexivity]).
        destruct Ha as [Ha|Ha]; [congruence|]. destruct Hb as [Hb|Hb]; [congruence|].
        rewrite Forall_forall in Hall, Hall'.
        apply Hanti; [left; reflexivity|right; exact Hb|apply Hall; exact Hb|apply Hall'; exact Ha]. }
      subst b. f_equal. apply IH; try assumption.
      + eapply Permutation_cons_inv. exact Hp.
      + intros x y Hx Hy. apply Hanti; right; assumption.
  Qed.

  Lemma sort_perm_eq : forall l l',
      Permutation l l' ->
      (forall a b, In a l -> In b l -> le a b -> le b a -> a = b) ->
      sort leb l = sort leb l'.
  Proof.
    intros l l' Hp Hanti. apply sorted_perm_unique.
    - apply sort_sorted.
    - apply sort_sorted.
    - eapply perm_trans; [apply sort_perm|]. eapply perm_trans; [exact Hp|]. apply Permutation_sym, sort_perm.
    - intros a b Ha Hb. apply Hanti; (eapply Permutation_in; [apply sort_perm|assumption]).
  Qed.
End SortProofs.

(* sorting by a key that is duplicate-free on the list: the assumption C13 needs
   ("sorting a permutation of a duplicate-free list gives the same list") *)
Lemma NoDup_map_inj : forall {A B} (f : A -> B) l a b,
    NoDup (map f l) -> In a l -> In b l -> f a = f b -> a = b.
Proof.
  induction l as [|x t IH]; intros a b Hn Ha Hb Hf; [contradiction|].
  cbn [map] in Hn. inversion Hn as [|? ? Hnotin Hn']; subst.
  destruct Ha as [Ha|Ha]; destruct Hb as [Hb|Hb]; subst.
  - reflexivity.
  - exfalso. apply Hnotin. rewrite Hf. apply in_map. exact Hb.
  - exfalso. apply Hnotin. rewrite <- Hf. apply in_map. exact Ha.
  - apply IH; assumption.
Qed.

Section SortByKey.
  Context {A : Type} (key : A -> str).
  Definition key_leb (a b : A) : bool := str_leb (key a) (key b).

  Lemma sort_by_key_perm_eq : forall l l',
      NoDup (map key l) -> Permutation l l' -> sort key_leb l = sort key_leb l'.
  Proof.
    intros l l' Hn Hp. apply sort_perm_eq.
    - intros a b. apply str_leb_total.
    - intros a b c. apply str_leb_trans.
    - exact Hp.
    - intros a b Ha Hb H1 H2. eapply NoDup_map_inj; [exact Hn|exact Ha|exact Hb|].
      apply str_leb_antisym; assumption.
  Qed.
End SortByKey.

(* ---- IDs ---------------------------------------------------------------------------------- *)

Lemma sort_names_perm_eq : forall l l', Permutation l l' -> sort_names l = sort_names l'.
Proof.
  intros l l' Hp. unfold sort_names. apply sort_perm_eq.
  - apply str_leb_total.
  - apply str_leb_trans.
  - exact Hp.
  - intros a b _ _. apply str_leb_antisym.
Qed.

(* the IDs do not depend on the order in which the names are listed (no NoDup needed) *)
Theorem ids_perm : forall l l', Permutation l l' -> assign l = assign l'.
Proof. intros l l' Hp. unfold assign. rewrite (sort_names_perm_eq l l' Hp). reflexivity. Qed.

Lemma filter_length_perm : forall {A} (f : A -> bool) l l',
    Permutation l l' -> List.length (filter f l) = List.length (filter f l').
Proof.
  intros A f l l' Hp. induction Hp; cbn [filter].
  - reflexivity.
  - destruct (f x); cbn [List.length]; congruence.
  - destruct (f x); destruct (f y); reflexivity.
  - congruence.
Qed.

Lemma rank_perm : forall l l' n, Permutation l l' -> rank l n = rank l' n.
Proof. intros l l' n Hp. unfold rank. rewrite (filter_length_perm _ l l' Hp). reflexivity. Qed.

Lemma lookup_enumerate_sorted : forall s i n,
    StronglySorted (fun a b => str_leb a b = true) s -> In n s ->
    lookup n (enumerate_from i s) = Some (i + rank s n).
Proof.
  induction s as [|x t IH]; intros i n Hs Hin; [contradiction|].
  inversion Hs as [|? ? Hst Hall]; subst. cbn [enumerate_from lookup].
  destruct (str_eqb x n) eqn:E.
  - apply str_eqb_eq in E. subst x. f_equal. unfold rank. cbn [filter]. rewrite str_ltb_irrefl.
    assert (Hz : filter (fun m => str_ltb m n) t = []).
    { clear - Hall. induction t as [|y t IH]; [reflexivity|]. cbn [filter].
      inversion Hall as [|? ? Hy Ht]; subst. unfold str_leb in Hy. apply negb_true_iff in Hy. rewrite Hy.
      apply IH. exact Ht. }
    rewrite Hz. cbn [List.length]. lia.
  - destruct Hin as [Hin|Hin]; [subst; rewrite str_eqb_refl in E; congruence|].
    rewrite (IH (i + 1) n Hst Hin). f_equal. unfold rank. cbn [filter].
    assert (Hlt : str_ltb x n = true).
    { apply str_leb_neq_ltb.
      - rewrite Forall_forall in Hall. apply Hall. exact Hin.
      - intro K. subst. rewrite str_eqb_refl in E. congruence. }
    rewrite Hlt. cbn [List.length]. lia.
Qed.

(* the ID of a name is the number of names smaller than it *)
Theorem ids_rank : forall l n, In n l -> id_of l n = Some (rank l n).
Proof.
  intros l n Hin. unfold id_of, assign.
  rewrite lookup_enumerate_sorted.
  - f_equal. rewrite N.add_0_l. apply rank_perm. unfold sort_names. apply sort_perm.
  - unfold sort_names. apply sort_sorted; [apply str_leb_total|apply str_leb_trans].
  - eapply Permutation_in; [apply Permutation_sym; apply sort_perm|exact Hin].
Qed.

(* consequently IDs are 0 .. n-1 without gaps for duplicate-free names: stated as the image *)
Lemma map_snd_enumerate_from : forall {A} (l : list A) i,
    map snd (enumerate_from i l) = map (fun k => i + N.of_nat k) (seq 0 (List.length l)).
Proof.
  induction l as [|x t IH]; intro i; [reflexivity|].
  cbn [enumerate_from map List.length seq snd]. f_equal; [lia|].
  rewrite IH. rewrite <- seq_shift. rewrite map_map. apply map_ext. intro k. lia.
Qed.

Theorem ids_contiguous : forall l,
    map snd (assign l) = map N.of_nat (seq 0 (List.length l)).
Proof.
  intro l. unfold assign. rewrite map_snd_enumerate_from.
  assert (Hl : List.length (sort_names l) = List.length l)
    by (apply Permutation_length; unfold sort_names; apply sort_perm).
  rewrite Hl. apply map_ext. intro k. lia.
Qed.
