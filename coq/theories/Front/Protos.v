(* C14: the DOCUMENTED prototypes of the generated public functions, as an executable model.

   docs/modules/tracing-funcs/pages/index.adoc ("Tracing function parameters"),
   docs/modules/platform/pages/api.adoc ("Packet opening" / "Packet closing"),
   docs/modules/yaml/pages/ft-obj.adoc ("Generated C types", CTypes.doc_c_type):
     void PREFIX DST _open_packet(struct PREFIX DST _ctx *sctx, pc_<extra member>...);
     void PREFIX DST _close_packet(struct PREFIX DST _ctx *sctx);
     void PREFIX DST _trace_ ERT(struct PREFIX DST _ctx *sctx, cc_<m>..., sc_<m>..., p_<m>...);
   members in order; a dynamic array member M gives two adjacent parameters
   `uint32_t X___M_len` and `const T *X_M`.

   The check prints these prototypes (cases.v, vm_compute) into a glue.c that re-declares every
   public function after including the generated header: a disagreement is a compile error. *)
From Coq Require Import List NArith Bool String Ascii.
Import ListNotations.
From BT.Front Require Import Prefix CTypes.
Open Scope N_scope.

Definition sstruct := list (str * ft).        (* members as configured, in order *)

Record ertc := mk_ert { e_name : str; e_spec : option sstruct; e_payload : option sstruct }.
Record dstc := mk_dst { d_name : str; d_pc_extra : sstruct; d_common : option sstruct; d_erts : list ertc }.
Record cfgc := mk_cfg { c_prefix : str; c_dsts : list dstc }.

Definition param := (ctype * str)%type.

(* [ctype_of] is the C type table in use: CTypes.doc_c_type for the documented prototypes *)
Definition params_of (ctype_of : ft -> bool -> ctype) (pfx : str) (st : sstruct) : list param :=
  flat_map (fun m =>
    match snd m with
    | FDArr e => [(CArith (s2l "uint32_t") false, pfx ++ s2l "___" ++ fst m ++ s2l "_len");
                  (CPtr (ctype_of e true) false, pfx ++ s2l "_" ++ fst m)]
    | t => [(ctype_of t false, pfx ++ s2l "_" ++ fst m)]
    end) st.

Definition oparams (ctype_of : ft -> bool -> ctype) (pfx : str) (st : option sstruct) : list param :=
  match st with Some s => params_of ctype_of pfx s | None => [] end.

Record proto := mk_proto { p_name : str; p_ctx : str; p_params : list param }.

Definition ctx_type (p : str) (dst : str) : str := s2l "struct " ++ p ++ dst ++ s2l "_ctx *".

Definition protos_of (ctype_of : ft -> bool -> ctype) (c : cfgc) : list proto :=
  flat_map (fun d =>
    let p := c_prefix c in
    mk_proto (p ++ d_name d ++ s2l "_open_packet") (ctx_type p (d_name d)) (params_of ctype_of (s2l "pc") (d_pc_extra d)) ::
    mk_proto (p ++ d_name d ++ s2l "_close_packet") (ctx_type p (d_name d)) [] ::
    map (fun e =>
      mk_proto (p ++ d_name d ++ s2l "_trace_" ++ e_name e) (ctx_type p (d_name d))
               (oparams ctype_of (s2l "cc") (d_common d) ++ oparams ctype_of (s2l "sc") (e_spec e) ++
                oparams ctype_of (s2l "p") (e_payload e))) (d_erts d)) (c_dsts c).

Definition doc_protos : cfgc -> list proto := protos_of doc_c_type.

(* C text *)
Definition param_str (x : param) : str :=
  let t := ctype_str (fst x) in
  (if ends_with t (s2l "*") then t else t ++ s2l " ") ++ snd x.

Fixpoint join (sep : str) (l : list str) : str :=
  match l with
  | [] => []
  | [x] => x
  | x :: t => x ++ sep ++ join sep t
  end.

Definition proto_str (x : proto) : str :=
  s2l "void " ++ p_name x ++ s2l "(" ++ join (s2l ", ") ((p_ctx x ++ s2l "sctx") :: map param_str (p_params x)) ++ s2l ");".

Definition l2s (l : str) : string := string_of_list_ascii (map ascii_of_N l).

Definition glue_lines (c : cfgc) : list string := map (fun x => l2s (proto_str x)) (doc_protos c).

(* the same prototypes with the C type table the generator really uses (Gen/PyFuns.ft_c_type is
   passed in by the caller, with its fuel): used by the check to tell a deviation that is entirely
   explained by a known finding about the type table from any other one *)
Definition glue_lines_with (ctype_of : ft -> bool -> ctype) (c : cfgc) : list string :=
  map (fun x => l2s (proto_str x)) (protos_of ctype_of c).

(* one open/close pair per data stream type, one tracing function per event record type *)
Definition count_protos (c : cfgc) : nat :=
  fold_right (fun d n => (2 + List.length (d_erts d) + n)%nat) 0%nat (c_dsts c).
