(* C12 — the result of patching well-formed trees is well formed (so that patches compose:
   inclusion lists, inheritance chains), and the composition is the documented one. *)
From Coq Require Import List String ZArith Bool Lia Arith.
Import ListNotations.
From BT.Front Require Import Yaml YamlRes Patch PatchProofs Include.
Open Scope string_scope.
Open Scope list_scope.

Definition cond (v3 : bool) (kv : string * yaml) : bool :=
  wf v3 (snd kv) && members_ok v3 (fst kv) (snd kv).

Lemma wf_map_unfold : forall v3 l, wf v3 (YMap l) = nodupb (keys l) && forallb (cond v3) l.
Proof. reflexivity. Qed.

Lemma mapM_Forall2 : forall {A B} (f : A -> option B) l r,
  mapM f l = Some r -> Forall2 (fun x y => f x = Some y) l r.
Proof.
  induction l as [|x l IH]; intros r H; simpl in H.
  - inversion H. constructor.
  - destruct (f x) as [y|] eqn:E; [|discriminate].
    destruct (mapM f l) as [r'|] eqn:E'; simpl in H; [|discriminate].
    inversion H. subst. constructor; auto.
Qed.

Lemma mem_filter : forall k p l, mem k (filter p l) = true -> mem k l = true /\ p k = true.
Proof.
  induction l as [|x l IH]; simpl; intros H; [discriminate|].
  destruct (p x) eqn:E; simpl in H.
  - apply orb_true_iff in H. destruct H as [H|H].
    + apply String.eqb_eq in H. subst. rewrite String.eqb_refl. auto.
    + apply IH in H. destruct H as [H1 H2]. rewrite H1, orb_true_r. auto.
  - apply IH in H. destruct H as [H1 H2]. rewrite H1, orb_true_r. auto.
Qed.

Lemma nodupb_filter : forall p l, nodupb l = true -> nodupb (filter p l) = true.
Proof.
  induction l as [|x l IH]; simpl; intros H; [reflexivity|].
  apply andb_prop in H. destruct H as [H1 H2]. destruct (p x); simpl; [|auto].
  rewrite (IH H2), andb_true_r. apply negb_true_iff in H1. apply negb_true_iff.
  destruct (mem x (filter p l)) eqn:E; [|reflexivity].
  apply mem_filter in E. destruct E. congruence.
Qed.

Lemma nodupb_app : forall l1 l2, nodupb l1 = true -> nodupb l2 = true ->
  (forall x, mem x l2 = true -> mem x l1 = false) -> nodupb (l1 ++ l2) = true.
Proof.
  induction l1 as [|x l1 IH]; simpl; intros l2 H1 H2 H; [assumption|].
  apply andb_prop in H1. destruct H1 as [Ha Hb]. apply negb_true_iff in Ha.
  rewrite mem_app, Ha. simpl.
  destruct (mem x l2) eqn:E.
  - apply H in E. rewrite String.eqb_refl in E. discriminate.
  - simpl. apply IH; auto. intros y Hy. apply H in Hy. apply orb_false_iff in Hy. tauto.
Qed.

Lemma keys_filter : forall K (al : entries),
  keys (filter (fun ka => negb (mem (fst ka) K)) al) = filter (fun k => negb (mem k K)) (keys al).
Proof.
  induction al as [|kv al IH]; simpl; [reflexivity|].
  destruct (negb (mem (fst kv) K)); simpl; now rewrite IH.
Qed.

(* what spec_entries returns, as a statement *)
Lemma spec_entries_shape : forall pv al bl rl,
  spec_entries pv al bl = Some rl ->
  exists bl', rl = bl' ++ filter (fun ka => negb (mem (fst ka) (keys bl))) al
    /\ Forall2 (fun kb kb' => fst kb' = fst kb /\
                  match lookup (fst kb) al with
                  | None => kb' = kb
                  | Some a => pv (fst kb) a (snd kb) = Some (snd kb')
                  end) bl bl'.
Proof.
  intros pv al bl rl H. unfold spec_entries in H.
  destruct (mapM _ bl) as [bl'|] eqn:E; simpl in H; [|discriminate]. inversion H. subst rl.
  exists bl'. split; [reflexivity|].
  apply mapM_Forall2 in E. induction E as [|kb kb' l l' Hx _ IH]; constructor; auto.
  destruct (lookup (fst kb) al) as [a|].
  - destruct (pv (fst kb) a (snd kb)) as [v|]; simpl in Hx; [|discriminate]. inversion Hx. simpl. auto.
  - inversion Hx. auto.
Qed.

Lemma Forall2_keys : forall (P : string * yaml -> string * yaml -> Prop) l l',
  Forall2 (fun kb kb' => fst kb' = fst kb /\ P kb kb') l l' -> keys l' = keys l.
Proof.
  intros P l l' H. induction H as [|x y l l' [Hk _] _ IH]; [reflexivity|]. simpl. now rewrite Hk, IH.
Qed.

Section Wf.
  Variable v3 : bool.

  (* entries-level statement, given the value-level one for the values involved *)
  Lemma spec_entries_wf : forall pv al bl rl,
    nodupb (keys al) = true -> nodupb (keys bl) = true ->
    forallb (cond v3) al = true -> forallb (cond v3) bl = true ->
    (forall k a b r, lookup k al = Some a -> In (k, b) bl -> pv k a b = Some r -> cond v3 (k, r) = true) ->
    spec_entries pv al bl = Some rl ->
    nodupb (keys rl) = true /\ forallb (cond v3) rl = true.
  Proof.
    intros pv al bl rl Na Nb Ca Cb Hpv H.
    destruct (spec_entries_shape _ _ _ _ H) as (bl' & -> & HF).
    pose proof (Forall2_keys _ _ _ HF) as Hk. split.
    - rewrite keys_app, Hk, keys_filter. apply nodupb_app; auto.
      + now apply nodupb_filter.
      + intros x Hx. apply mem_filter in Hx. destruct Hx as [_ Hx]. now apply negb_true_iff in Hx.
    - rewrite forallb_app. apply andb_true_intro. split.
      + rewrite forallb_forall in Cb. clear Hk H Nb.
        induction HF as [|kb kb' l l' [Hfst Hx] _ IH]; [reflexivity|].
        cbn [forallb]. apply andb_true_intro. split.
        * destruct (lookup (fst kb) al) as [a|] eqn:E.
          -- destruct kb as [k b], kb' as [k' r]. simpl in *. subst k'.
             apply (Hpv k a b r E); [now left|assumption].
          -- subst kb'. apply Cb. now left.
        * apply IH.
          -- intros x Hin. apply Cb. now right.
          -- intros k a b r La Hin. apply Hpv; auto. now right.
      + rewrite forallb_forall in Ca. apply forallb_forall. intros x Hx.
        apply filter_In in Hx. destruct Hx. now apply Ca.
  Qed.

  Lemma wf_members_of : forall m, forallb (wf v3) (members_of m) = forallb (cond v3) m.
  Proof.
    induction m as [|kv m IH]; [reflexivity|].
    cbn [members_of map forallb]. fold (members_of m). rewrite IH. f_equal.
    rewrite wf_map_unfold. cbn [keys map nodupb mem negb andb forallb]. unfold cond.
    now rewrite andb_true_r.
  Qed.

  Lemma is_omap_members_of : forall m, is_omap (members_of m) = nodupb (keys m).
  Proof. intros. unfold is_omap. now rewrite omap_of_members_of_id. Qed.

  Lemma spec_value_wf : forall n a, ysize a < n -> forall b k r,
    wf v3 a = true -> wf v3 b = true -> members_ok v3 k a = true -> members_ok v3 k b = true ->
    spec_value v3 k a b = Some r -> cond v3 (k, r) = true.
  Proof.
    induction n as [|n IHn]; intros a Hs b k r Wa Wb Ma Mb H; [lia|].
    assert (Hrepl : r = a -> cond v3 (k, r) = true).
    { intros ->. unfold cond. simpl. now rewrite Wa, Ma. }
    destruct b as [| | | | |bs|bl]; try (destruct a; simpl in H; injection H as E; subst r; apply Hrepl; reflexivity).
    - destruct a as [| | | | |as_|al]; try (simpl in H; injection H as E; subst r; apply Hrepl; reflexivity).
      cbn [spec_value] in H. destruct (is_members v3 k) eqn:Em.
      + unfold members_ok in Ma, Mb. rewrite Em in Ma, Mb. unfold is_omap in Ma, Mb.
        destruct (omap_of as_) as [am|] eqn:Oa; [|discriminate].
        destruct (omap_of bs) as [bm|] eqn:Ob; [|discriminate].
        pose proof (omap_of_members_of _ _ Oa) as Ha. pose proof (omap_of_members_of _ _ Ob) as Hb.
        subst as_ bs. cbn [obind] in H. rewrite spec_members_entries in H by assumption.
        destruct (spec_entries (spec_value v3) am bm) as [rm|] eqn:E; simpl in H; [|discriminate].
        inversion H. subst r. clear H.
        simpl in Wa, Wb. rewrite wf_members_of in Wa, Wb.
        destruct (spec_entries_wf (spec_value v3) am bm rm Ma Mb Wa Wb) as [Hn Hc]; [|assumption|].
        * intros n' a' b' r' La Hin Hr. apply lookup_In in La.
          rewrite forallb_forall in Wa, Wb. pose proof (Wa _ La) as Ca. pose proof (Wb _ Hin) as Cb.
          unfold cond in Ca, Cb. simpl in Ca, Cb. apply andb_prop in Ca. apply andb_prop in Cb.
          destruct Ca, Cb. eapply (IHn a'); eauto.
          pose proof (ysize_seq_in _ _ (In_members_of _ _ La)) as S1.
          pose proof (ysize_map_in n' a' [(n', a')] (or_introl eq_refl)) as S2. lia.
        * unfold cond. cbn [fst snd wf]. rewrite wf_members_of, Hc. unfold members_ok. rewrite Em.
          now rewrite is_omap_members_of.
      + inversion H. subst r. unfold cond. cbn [fst snd wf]. simpl in Wa, Wb.
        rewrite forallb_app, Wa, Wb. unfold members_ok. now rewrite Em.
    - destruct a as [| | | | |as_|al]; try (simpl in H; injection H as E; subst r; apply Hrepl; reflexivity).
      cbn [spec_value] in H.
      destruct (spec_entries (spec_value v3) al bl) as [rl|] eqn:E; simpl in H; [|discriminate].
      inversion H. subst r. clear H.
      rewrite wf_map_unfold in Wa, Wb. apply andb_prop in Wa. apply andb_prop in Wb.
      destruct Wa as [Na Ca], Wb as [Nb Cb].
      destruct (spec_entries_wf (spec_value v3) al bl rl Na Nb Ca Cb) as [Hn Hc]; [|assumption|].
      + intros n' a' b' r' La Hin Hr. apply lookup_In in La.
        rewrite forallb_forall in Ca, Cb. pose proof (Ca _ La) as Ca'. pose proof (Cb _ Hin) as Cb'.
        unfold cond in Ca', Cb'. simpl in Ca', Cb'. apply andb_prop in Ca'. apply andb_prop in Cb'.
        destruct Ca', Cb'. eapply (IHn a'); eauto.
        pose proof (ysize_map_in _ _ _ La). lia.
      + unfold cond. cbn [fst snd]. rewrite wf_map_unfold, Hn, Hc. unfold members_ok.
        destruct (is_members v3 k); reflexivity.
  Qed.

  (* update_wf: patching two well-formed trees gives a well-formed tree *)
  Theorem update_wf : forall base overlay r,
    wf v3 base = true -> wf v3 overlay = true -> update v3 base overlay = Some r -> wf v3 r = true.
  Proof.
    intros base overlay r Wb Wo H. rewrite (update_eq_spec _ _ _ Wb Wo) in H.
    unfold patch_spec in H. destruct overlay; try discriminate. destruct base; try discriminate.
    assert (M : forall y, members_ok v3 "" y = true).
    { intros y. unfold members_ok, is_members. simpl. now rewrite andb_false_r. }
    pose proof (spec_value_wf _ _ (Nat.lt_succ_diag_r _) _ "" r Wo Wb (M _) (M _) H) as C.
    unfold cond in C. simpl in C. now apply andb_prop in C.
  Qed.
End Wf.

(* The documented composition of an inclusion list: every listed document patches what precedes
   it ("A patching B" with B = the documents before it), the including object last.  On
   well-formed documents the implementation's fold (Include.apply_all) is exactly that, and never
   crashes. *)
Fixpoint spec_all (v3 : bool) (base : option yaml) (l : list yaml) : option (option yaml) :=
  match l with
  | [] => Some base
  | f :: l' =>
      match base with
      | None => spec_all v3 (Some f) l'
      | Some b => match patch_spec v3 f b with
                  | Some r => spec_all v3 (Some r) l'
                  | None => None
                  end
      end
  end.

Definition wfm (v3 : bool) (y : yaml) : bool :=
  wf v3 y && match y with YMap _ => true | _ => false end.

Theorem apply_all_spec : forall v3 l base,
  match base with Some b => wfm v3 b = true | None => True end ->
  Forall (fun f => wfm v3 f = true) l ->
  exists r, apply_all v3 base l = Ok r /\ spec_all v3 base l = Some r
            /\ match r with Some y => wfm v3 y = true | None => True end.
Proof.
  intros v3 l. induction l as [|f l IH]; intros base Wb Wl.
  - exists base. simpl. auto.
  - inversion Wl as [|? ? Wf Wl']. subst. destruct base as [b|]; simpl.
    + unfold wfm in Wb, Wf. apply andb_prop in Wb. apply andb_prop in Wf.
      destruct Wb as [Wb Mb], Wf as [Wf Mf].
      destruct b as [| | | | | |bl]; try discriminate. destruct f as [| | | | | |fl]; try discriminate.
      rewrite <- (update_eq_spec v3 _ _ Wb Wf).
      destruct (update_total v3 _ _ Wb Wf) as [rl Hr]. rewrite Hr. cbn [of_option rbind].
      apply IH; [|assumption]. unfold wfm. rewrite (update_wf v3 _ _ _ Wb Wf Hr). reflexivity.
    + apply IH; assumption.
Qed.
