(* Generic facts about the validator of JsonSchema.v (proved once, independent of the schemas):
   - one-step unfolding and fuel monotonicity;
   - [V] / [NV]: valid / invalid with some fuel; they exclude each other;
   - inversion of every keyword in both polarities, packaged as a reflective
     "denotation" [den]: a Gallina function from a (concrete, regenerated) schema to a
     first-order formula over the (arbitrary) instance, with ONE soundness theorem
     [den_sound]:  V st s j -> den st unf d true s j   and   NV st s j -> den st unf d false s j.
     [den] never inspects the instance, so computing it (cbv) on a concrete schema and a
     variable instance is linear in the schema.  References are inlined when [unf key] is true
     and left as atoms [V st (SRef key) x] otherwise (and when the depth [d] is exhausted). *)
From Coq Require Import List String ZArith Bool Ascii Arith Lia.
Import ListNotations.
From BT.Front Require Import Json JsonSchema.
Open Scope string_scope.

Lemma validate_S st f s j : validate st (S f) s j = body st (validate st f) s j.
Proof. reflexivity. Qed.

(* ---------------------------------------------------------------- combinators *)

Lemma all_seq_Valid {A} (f : A -> res) l :
  all_seq f l = Valid -> forall x, In x l -> f x = Valid.
Proof.
  induction l as [|a l IH]; simpl; intros H x Hx; [contradiction|].
  destruct (f a) eqn:Ea; simpl in H; try discriminate.
  destruct Hx as [<-|Hx]; auto.
Qed.
Lemma all_seq_Valid_intro {A} (f : A -> res) l :
  (forall x, In x l -> f x = Valid) -> all_seq f l = Valid.
Proof.
  induction l as [|a l IH]; simpl; intros H; auto.
  rewrite (H a (or_introl eq_refl)). simpl. apply IH. intros; apply H; auto.
Qed.
Lemma all_seq_Invalid {A} (f : A -> res) l :
  all_seq f l = Invalid -> exists x, In x l /\ f x = Invalid.
Proof.
  induction l as [|a l IH]; simpl; intros H; [discriminate|].
  destruct (f a) eqn:Ea; simpl in H; try discriminate.
  - destruct (IH H) as (x & Hx & E). exists x; auto.
  - exists a; auto.
Qed.
Lemma any_of_Valid {A} (f : A -> res) l :
  any_of f l = Valid -> exists x, In x l /\ f x = Valid.
Proof.
  induction l as [|a l IH]; simpl; intros H; [discriminate|].
  destruct (f a) eqn:Ea; try discriminate.
  - exists a; auto.
  - destruct (IH H) as (x & Hx & E). exists x; auto.
Qed.
Lemma any_of_Invalid {A} (f : A -> res) l :
  any_of f l = Invalid -> forall x, In x l -> f x = Invalid.
Proof.
  induction l as [|a l IH]; simpl; intros H x Hx; [contradiction|].
  destruct (f a) eqn:Ea; try discriminate.
  destruct Hx as [<-|Hx]; auto.
Qed.
Lemma none_of_Valid {A} (f : A -> res) l :
  none_of f l = Valid -> forall x, In x l -> f x = Invalid.
Proof.
  induction l as [|a l IH]; simpl; intros H x Hx; [contradiction|].
  destruct (f a) eqn:Ea; try discriminate.
  - destruct (none_of f l); discriminate.
  - destruct Hx as [<-|Hx]; auto.
Qed.
Lemma none_of_Invalid {A} (f : A -> res) l :
  none_of f l = Invalid -> exists x, In x l /\ f x = Valid.
Proof.
  induction l as [|a l IH]; simpl; intros H; [discriminate|].
  destruct (f a) eqn:Ea; try discriminate.
  - exists a; auto.
  - destruct (IH H) as (x & Hx & E). exists x; auto.
Qed.

(* exactly one / at least two, as propositions over two predicates (P: valid, N: invalid) *)
Fixpoint one_true {A} (P N : A -> Prop) (l : list A) : Prop :=
  match l with
  | [] => False
  | a :: l => (P a /\ fold_right and True (map N l)) \/ (N a /\ one_true P N l)
  end.
Fixpoint two_true {A} (P : A -> Prop) (l : list A) : Prop :=
  match l with
  | [] => False
  | a :: l => (P a /\ fold_right or False (map P l)) \/ two_true P l
  end.
Definition conj (l : list Prop) : Prop := fold_right and True l.
Definition disj (l : list Prop) : Prop := fold_right or False l.

Lemma conj_map_intro {A} (P : A -> Prop) l : (forall x, In x l -> P x) -> conj (map P l).
Proof.
  induction l as [|a l IH]; simpl; intros H; [exact I|].
  split; [apply H; auto | apply IH; intros; apply H; auto].
Qed.
Lemma conj_map_elim {A} (P : A -> Prop) l : conj (map P l) -> forall x, In x l -> P x.
Proof.
  induction l as [|a l IH]; simpl; intros H x Hx; [contradiction|].
  destruct H as [Ha Hl]. destruct Hx as [<-|Hx]; auto.
Qed.
Lemma disj_map_intro {A} (P : A -> Prop) l : (exists x, In x l /\ P x) -> disj (map P l).
Proof.
  induction l as [|a l IH]; simpl; intros (x & Hx & Px); [contradiction|].
  destruct Hx as [<-|Hx]; [left; exact Px | right; apply IH; exists x; auto].
Qed.
Lemma disj_map_elim {A} (P : A -> Prop) l : disj (map P l) -> exists x, In x l /\ P x.
Proof.
  induction l as [|a l IH]; simpl; intros H; [contradiction|].
  destruct H as [H|H]; [exists a; auto|]. destruct (IH H) as (x & Hx & Px). exists x; auto.
Qed.

Lemma one_of_Valid {A} (f : A -> res) l :
  one_of f l = Valid -> one_true (fun x => f x = Valid) (fun x => f x = Invalid) l.
Proof.
  induction l as [|a l IH]; simpl; intros H; [discriminate|].
  destruct (f a) eqn:Ea; try discriminate.
  - left. split; [reflexivity|]. apply (conj_map_intro (fun x => f x = Invalid)). apply none_of_Valid; exact H.
  - right. split; [reflexivity|]. apply IH; exact H.
Qed.
Lemma one_of_Invalid {A} (f : A -> res) l :
  one_of f l = Invalid ->
  conj (map (fun x => f x = Invalid) l) \/ two_true (fun x => f x = Valid) l.
Proof.
  induction l as [|a l IH]; simpl; intros H; [left; exact I|].
  destruct (f a) eqn:Ea; try discriminate.
  - right. left. split; [reflexivity|].
    apply (disj_map_intro (fun x => f x = Valid)). apply none_of_Invalid; exact H.
  - destruct (IH H) as [H1|H1]; [left; split; auto | right; right; exact H1].
Qed.
Lemma one_true_imp {A} (P N P' N' : A -> Prop) l :
  (forall x, P x -> P' x) -> (forall x, N x -> N' x) -> one_true P N l -> one_true P' N' l.
Proof.
  intros HP HN. induction l as [|a l IH]; simpl; [auto|].
  intros [[Pa Hl]|[Na Hl]]; [left|right]; split; auto.
  apply (conj_map_intro N'). intros x Hx. apply HN. exact (conj_map_elim N l Hl x Hx).
Qed.
Lemma two_true_imp {A} (P P' : A -> Prop) l :
  (forall x, P x -> P' x) -> two_true P l -> two_true P' l.
Proof.
  intros HP. induction l as [|a l IH]; simpl; [auto|].
  intros [[Pa Hl]|Hl]; [left|right; auto]. split; auto.
  apply (disj_map_intro P'). destruct (disj_map_elim P l Hl) as (x & Hx & Px). exists x; auto.
Qed.

(* ---------------------------------------------------------------- fuel monotonicity *)

Definition le_v (v v' : schema -> json -> res) : Prop :=
  forall s j, v s j <> OutOfFuel -> v' s j = v s j.

Lemma seq_mono a b a' b' :
  (a <> OutOfFuel -> a' = a) -> (b <> OutOfFuel -> b' = b) ->
  seq a b <> OutOfFuel -> seq a' b' = seq a b.
Proof.
  intros Ha Hb H. destruct a; simpl in *; try (rewrite Ha by discriminate; reflexivity).
  - rewrite Ha by discriminate. simpl. auto.
  - contradiction.
Qed.
Lemma all_seq_mono {A} (f g : A -> res) l :
  (forall x, f x <> OutOfFuel -> g x = f x) ->
  all_seq f l <> OutOfFuel -> all_seq g l = all_seq f l.
Proof.
  intros Hfg. induction l as [|a l IH]; simpl; intros H; [reflexivity|].
  apply seq_mono; auto.
Qed.
Lemma any_of_mono {A} (f g : A -> res) l :
  (forall x, f x <> OutOfFuel -> g x = f x) ->
  any_of f l <> OutOfFuel -> any_of g l = any_of f l.
Proof.
  intros Hfg. induction l as [|a l IH]; simpl; intros H; [reflexivity|].
  destruct (f a) eqn:Ea; try (rewrite Hfg by congruence; rewrite Ea; auto; fail).
Qed.
Lemma none_of_mono {A} (f g : A -> res) l :
  (forall x, f x <> OutOfFuel -> g x = f x) ->
  none_of f l <> OutOfFuel -> none_of g l = none_of f l.
Proof.
  intros Hfg. induction l as [|a l IH]; simpl; intros H; [reflexivity|].
  destruct (f a) eqn:Ea; try (rewrite Hfg by congruence; rewrite Ea; auto; fail).
  rewrite Hfg by congruence. rewrite Ea. rewrite IH; [reflexivity|].
  destruct (none_of f l); congruence.
Qed.
Lemma one_of_mono {A} (f g : A -> res) l :
  (forall x, f x <> OutOfFuel -> g x = f x) ->
  one_of f l <> OutOfFuel -> one_of g l = one_of f l.
Proof.
  intros Hfg. induction l as [|a l IH]; simpl; intros H; [reflexivity|].
  destruct (f a) eqn:Ea; try (rewrite Hfg by congruence; rewrite Ea; auto; fail).
  rewrite Hfg by congruence. rewrite Ea. apply none_of_mono; auto.
Qed.

Lemma kw_eval_mono v v' k j :
  le_v v v' -> kw_eval v k j <> OutOfFuel -> kw_eval v' k j = kw_eval v k j.
Proof.
  intros L. destruct k; simpl; try reflexivity.
  - (* properties *) destruct j; try reflexivity. apply all_seq_mono.
    intros [k s]; simpl. destruct (lookup k m); auto.
  - (* patternProperties *) destruct j; try reflexivity. apply all_seq_mono.
    intros [p s] H; simpl in *. apply all_seq_mono; [|exact H].
    intros [k x]; simpl. destruct (pat_match p k); auto.
  - (* additionalProperties *) destruct j; try reflexivity. apply all_seq_mono.
    intros [k x]; simpl. destruct (is_extra props pats k); auto.
  - (* items *) destruct j; try reflexivity. apply all_seq_mono. intros; apply L; auto.
  - apply all_seq_mono. intros; apply L; auto.
  - apply any_of_mono. intros; apply L; auto.
  - apply one_of_mono. intros; apply L; auto.
  - (* not *) intros H. rewrite L; [reflexivity|]. destruct (v s j); simpl in H; congruence.
  - (* if *) intros H. destruct (v c j) eqn:Ec; try (rewrite L by congruence; rewrite Ec).
    + destruct t; simpl in *; auto.
    + destruct e; simpl in *; auto.
    + contradiction.
    + reflexivity.
Qed.

Lemma body_mono st v v' s j :
  le_v v v' -> body st v s j <> OutOfFuel -> body st v' s j = body st v s j.
Proof.
  intros L. destruct s; simpl; try reflexivity.
  - destruct (slookup key st); auto.
  - apply all_seq_mono. intros k. apply kw_eval_mono; exact L.
Qed.

Lemma validate_mono_S st f : le_v (validate st f) (validate st (S f)).
Proof.
  induction f as [|f IH]; intros s j H.
  - simpl in H. contradiction.
  - rewrite (validate_S st (S f)), (validate_S st f) in *. apply body_mono; auto.
Qed.
Lemma validate_mono st f f' s j :
  f <= f' -> validate st f s j <> OutOfFuel -> validate st f' s j = validate st f s j.
Proof.
  induction 1 as [|f' Hle IH]; intros H; [reflexivity|].
  rewrite validate_mono_S; rewrite IH; auto.
Qed.

(* ---------------------------------------------------------------- V / NV *)

Definition V (st : list (string * schema)) (s : schema) (j : json) : Prop :=
  exists f, validate st f s j = Valid.
Definition NV (st : list (string * schema)) (s : schema) (j : json) : Prop :=
  exists f, validate st f s j = Invalid.

Lemma V_NV_excl st s j : V st s j -> NV st s j -> False.
Proof.
  intros [f1 H1] [f2 H2].
  assert (A : validate st (f1 + f2) s j = Valid) by (rewrite (validate_mono st f1); [auto|lia|congruence]).
  assert (B : validate st (f1 + f2) s j = Invalid) by (rewrite (validate_mono st f2); [auto|lia|congruence]).
  congruence.
Qed.
Lemma V_any_fuel st f f' s j : validate st f s j = Valid -> f <= f' -> validate st f' s j = Valid.
Proof. intros H L. rewrite (validate_mono st f f'); auto. congruence. Qed.

(* deciding V by evaluation: a fuel at which the verdict is Valid *)
Lemma V_by_eval st f s j : validate st f s j = Valid -> V st s j.
Proof. intros H; exists f; exact H. Qed.
Lemma NV_by_eval st f s j : validate st f s j = Invalid -> NV st s j.
Proof. intros H; exists f; exact H. Qed.

(* ---------------------------------------------------------------- denotation *)

Section Den.
  Variable st : list (string * schema).
  (* the function used to inline references; kept apart from [st] so that computing a
     denotation can unfold the store for look-ups while the store stays folded inside atoms *)
  Variable lkp : string -> option schema.
  Hypothesis lkp_ok : forall k, lkp k = slookup k st.
  Variable unf : string -> bool.

  Definition dopt (D : bool -> schema -> json -> Prop) (pol : bool) (o : option schema) (j : json) : Prop :=
    match o with Some s => D pol s j | None => if pol then True else False end.

  Definition denk (D : bool -> schema -> json -> Prop) (pol : bool) (k : kw) (j : json) : Prop :=
    match k with
    | KType ts => has_type_in j ts = pol
    | KEnum vs => enum_mem j vs = pol
    | KConst c => jeq j c = pol
    | KProperties ps =>
        if pol
        then forall m, j = JObj m ->
               conj (map (fun ks => forall x, lookup (fst ks) m = Some x -> D true (snd ks) x) ps)
        else exists m, j = JObj m /\
               disj (map (fun ks => exists x, lookup (fst ks) m = Some x /\ D false (snd ks) x) ps)
    | KPatternProperties ps =>
        if pol
        then forall m, j = JObj m ->
               conj (map (fun ps' => forall k x, In (k, x) m -> pat_match (fst ps') k = true ->
                                                  D true (snd ps') x) ps)
        else exists m, j = JObj m /\
               disj (map (fun ps' => exists k x, In (k, x) m /\ pat_match (fst ps') k = true /\
                                                  D false (snd ps') x) ps)
    | KAdditionalProperties props pats s =>
        if pol
        then forall m, j = JObj m -> forall k x, In (k, x) m -> is_extra props pats k = true -> D true s x
        else exists m k x, j = JObj m /\ In (k, x) m /\ is_extra props pats k = true /\ D false s x
    | KRequired ks =>
        if pol
        then forall m, j = JObj m -> conj (map (fun k => has_key k m = true) ks)
        else exists m, j = JObj m /\ disj (map (fun k => has_key k m = false) ks)
    | KDependencies ds =>
        if pol
        then forall m, j = JObj m ->
               conj (map (fun d => has_key (fst d) m = true ->
                                   conj (map (fun k => has_key k m = true) (snd d))) ds)
        else exists m, j = JObj m /\
               disj (map (fun d => has_key (fst d) m = true /\
                                   disj (map (fun k => has_key k m = false) (snd d))) ds)
    | KMinProperties n =>
        if pol then forall m, j = JObj m -> n <= List.length m
        else exists m, j = JObj m /\ List.length m < n
    | KMaxProperties n =>
        if pol then forall m, j = JObj m -> List.length m <= n
        else exists m, j = JObj m /\ n < List.length m
    | KItems s =>
        if pol then forall l, j = JArr l -> forall x, In x l -> D true s x
        else exists l x, j = JArr l /\ In x l /\ D false s x
    | KMinItems n =>
        if pol then forall l, j = JArr l -> n <= List.length l
        else exists l, j = JArr l /\ List.length l < n
    | KMaxItems n =>
        if pol then forall l, j = JArr l -> List.length l <= n
        else exists l, j = JArr l /\ n < List.length l
    | KMinimum z => num_ge j z = pol
    | KMaximum z => num_le j z = pol
    | KPattern p =>
        if pol then forall s, j = JStr s -> pat_match p s = true
        else exists s, j = JStr s /\ pat_match p s = false
    | KAllOf ss =>
        if pol then conj (map (fun s => D true s j) ss) else disj (map (fun s => D false s j) ss)
    | KAnyOf ss =>
        if pol then disj (map (fun s => D true s j) ss) else conj (map (fun s => D false s j) ss)
    | KOneOf ss =>
        if pol then one_true (fun s => D true s j) (fun s => D false s j) ss
        else conj (map (fun s => D false s j) ss) \/ two_true (fun s => D true s j) ss
    | KNot s => D (negb pol) s j
    | KIf c t e => (D true c j /\ dopt D pol t j) \/ (D false c j /\ dopt D pol e j)
    end.

  Definition atom (pol : bool) (s : schema) (j : json) : Prop :=
    if pol then V st s j else NV st s j.

  Fixpoint den (d : nat) (pol : bool) (s : schema) (j : json) : Prop :=
    match d with
    | O => atom pol s j
    | S d =>
        match s with
        | SBool b => if Bool.eqb b pol then True else False
        | SBad => False
        | SRef key =>
            if unf key
            then match lkp key with Some t => den d pol t j | None => False end
            else atom pol s j
        | SKws ks =>
            if pol then conj (map (fun k => denk (den d) true k j) ks)
            else disj (map (fun k => denk (den d) false k j) ks)
        end
    end.

  (* soundness of one keyword, given soundness of the sub-schema denotation at the fuel used *)
  Lemma denk_sound f (D : bool -> schema -> json -> Prop) :
    (forall s x, (validate st f s x = Valid -> D true s x) /\
                 (validate st f s x = Invalid -> D false s x)) ->
    forall k j,
      (kw_eval (validate st f) k j = Valid -> denk D true k j) /\
      (kw_eval (validate st f) k j = Invalid -> denk D false k j).
  Proof.
    intros HD k j.
    assert (HDt : forall s x, validate st f s x = Valid -> D true s x) by (intros; apply HD; auto).
    assert (HDf : forall s x, validate st f s x = Invalid -> D false s x) by (intros; apply HD; auto).
    destruct k; simpl.
    - (* type *) destruct (has_type_in j ts); simpl; split; congruence.
    - destruct (enum_mem j vs); simpl; split; congruence.
    - destruct (jeq j c); simpl; split; congruence.
    - (* properties *) split.
      + intros H m ->. apply (conj_map_intro (fun ks => forall x, lookup (fst ks) m = Some x -> D true (snd ks) x)).
        intros ks Hks x Hx. pose proof (all_seq_Valid _ _ H ks Hks) as E. simpl in E. rewrite Hx in E. auto.
      + destruct j; try discriminate. intros H. exists m. split; [reflexivity|].
        apply (disj_map_intro (fun ks => exists x, lookup (fst ks) m = Some x /\ D false (snd ks) x)).
        destruct (all_seq_Invalid _ _ H) as (ks & Hks & E). exists ks. split; [exact Hks|].
        simpl in E. destruct (lookup (fst ks) m) eqn:El; [|discriminate]. exists j; auto.
    - (* patternProperties *) split.
      + intros H m ->.
        apply (conj_map_intro (fun ps' => forall k x, In (k, x) m -> pat_match (fst ps') k = true -> D true (snd ps') x)).
        intros ps' Hps k x Hkx Hm. pose proof (all_seq_Valid _ _ H ps' Hps) as E. simpl in E.
        pose proof (all_seq_Valid _ _ E (k, x) Hkx) as E2. simpl in E2. rewrite Hm in E2. auto.
      + destruct j; try discriminate. intros H. exists m. split; [reflexivity|].
        apply (disj_map_intro (fun ps' => exists k x, In (k, x) m /\ pat_match (fst ps') k = true /\ D false (snd ps') x)).
        destruct (all_seq_Invalid _ _ H) as (ps' & Hps & E). exists ps'. split; [exact Hps|].
        simpl in E. destruct (all_seq_Invalid _ _ E) as ([k x] & Hkx & E2). simpl in E2.
        destruct (pat_match (fst ps') k) eqn:Em; [|discriminate]. exists k, x; auto.
    - (* additionalProperties *) split.
      + intros H m -> k x Hkx He. pose proof (all_seq_Valid _ _ H (k, x) Hkx) as E. simpl in E.
        rewrite He in E. auto.
      + destruct j; try discriminate. intros H.
        destruct (all_seq_Invalid _ _ H) as ([k x] & Hkx & E). simpl in E.
        destruct (is_extra props pats k) eqn:Ee; [|discriminate]. exists m, k, x; auto.
    - (* required *) split.
      + intros H m ->. apply (conj_map_intro (fun k => has_key k m = true)).
        destruct (forallb (fun k => has_key k m) ks) eqn:E; [|discriminate].
        rewrite forallb_forall in E. exact E.
      + destruct j; try discriminate. intros H. exists m. split; [reflexivity|].
        apply (disj_map_intro (fun k => has_key k m = false)).
        destruct (forallb (fun k => has_key k m) ks) eqn:E; [discriminate|].
        clear H. induction ks as [|a ks IH]; simpl in E; [discriminate|].
        destruct (has_key a m) eqn:Ea; simpl in E.
        * destruct (IH E) as (x & Hx & Px). exists x; simpl; auto.
        * exists a; simpl; auto.
    - (* dependencies *) split.
      + intros H m ->.
        apply (conj_map_intro (fun d => has_key (fst d) m = true -> conj (map (fun k => has_key k m = true) (snd d)))).
        destruct (forallb _ ds) eqn:E; [|discriminate]. rewrite forallb_forall in E.
        intros d Hd Hk. specialize (E d Hd). rewrite Hk in E. simpl in E.
        apply (conj_map_intro (fun k => has_key k m = true)). rewrite forallb_forall in E. exact E.
      + destruct j; try discriminate. intros H. exists m. split; [reflexivity|].
        apply (disj_map_intro (fun d => has_key (fst d) m = true /\ disj (map (fun k => has_key k m = false) (snd d)))).
        destruct (forallb _ ds) eqn:E; [discriminate|]. clear H.
        induction ds as [|a ds IH]; simpl in E; [discriminate|].
        destruct (negb (has_key (fst a) m) || forallb (fun k => has_key k m) (snd a)) eqn:Ea; simpl in E.
        * destruct (IH E) as (x & Hx & Px). exists x; simpl; auto.
        * exists a. split; [simpl; auto|]. apply orb_false_iff in Ea. destruct Ea as [E1 E2].
          apply negb_false_iff in E1. split; [exact E1|].
          apply (disj_map_intro (fun k => has_key k m = false)). clear -E2.
          induction (snd a) as [|b l IH]; simpl in E2; [discriminate|].
          destruct (has_key b m) eqn:Eb; simpl in E2.
          -- destruct (IH E2) as (x & Hx & Px). exists x; simpl; auto.
          -- exists b; simpl; auto.
    - (* minProperties *) split.
      + intros H m ->. destruct (n <=? List.length m)%nat eqn:E; [|discriminate]. apply Nat.leb_le; exact E.
      + destruct j; try discriminate. intros H. exists m. split; [reflexivity|].
        destruct (n <=? List.length m)%nat eqn:E; [discriminate|]. apply Nat.leb_gt; exact E.
    - (* maxProperties *) split.
      + intros H m ->. destruct (List.length m <=? n)%nat eqn:E; [|discriminate]. apply Nat.leb_le; exact E.
      + destruct j; try discriminate. intros H. exists m. split; [reflexivity|].
        destruct (List.length m <=? n)%nat eqn:E; [discriminate|]. apply Nat.leb_gt; exact E.
    - (* items *) split.
      + intros H l -> x Hx. apply HDt. exact (all_seq_Valid _ _ H x Hx).
      + destruct j; try discriminate. intros H. destruct (all_seq_Invalid _ _ H) as (x & Hx & E).
        exists l, x; auto.
    - (* minItems *) split.
      + intros H l ->. destruct (n <=? List.length l)%nat eqn:E; [|discriminate]. apply Nat.leb_le; exact E.
      + destruct j; try discriminate. intros H. exists l. split; [reflexivity|].
        destruct (n <=? List.length l)%nat eqn:E; [discriminate|]. apply Nat.leb_gt; exact E.
    - (* maxItems *) split.
      + intros H l ->. destruct (List.length l <=? n)%nat eqn:E; [|discriminate]. apply Nat.leb_le; exact E.
      + destruct j; try discriminate. intros H. exists l. split; [reflexivity|].
        destruct (List.length l <=? n)%nat eqn:E; [discriminate|]. apply Nat.leb_gt; exact E.
    - destruct (num_ge j z); simpl; split; congruence.
    - destruct (num_le j z); simpl; split; congruence.
    - (* pattern *) split.
      + intros H s ->. destruct (pat_match p s); [reflexivity|discriminate].
      + destruct j; try discriminate. intros H. exists s. split; [reflexivity|].
        destruct (pat_match p s); [discriminate|reflexivity].
    - (* allOf *) split.
      + intros H. apply (conj_map_intro (fun s => D true s j)). intros s Hs. apply HDt.
        exact (all_seq_Valid _ _ H s Hs).
      + intros H. apply (disj_map_intro (fun s => D false s j)).
        destruct (all_seq_Invalid _ _ H) as (s & Hs & E). exists s; auto.
    - (* anyOf *) split.
      + intros H. apply (disj_map_intro (fun s => D true s j)).
        destruct (any_of_Valid _ _ H) as (s & Hs & E). exists s; auto.
      + intros H. apply (conj_map_intro (fun s => D false s j)). intros s Hs. apply HDf.
        exact (any_of_Invalid _ _ H s Hs).
    - (* oneOf *) split.
      + intros H. apply one_of_Valid in H.
        eapply one_true_imp; [| |exact H]; simpl; auto.
      + intros H. apply one_of_Invalid in H. destruct H as [H|H].
        * left. apply (conj_map_intro (fun s => D false s j)). intros s Hs. apply HDf.
          exact (conj_map_elim (fun x => validate st f x j = Invalid) ss H s Hs).
        * right. eapply two_true_imp; [|exact H]; simpl; auto.
    - (* not *) simpl. destruct (validate st f s j) eqn:E; simpl; split; try discriminate; intros _; auto.
    - (* if *) destruct (validate st f c j) eqn:Ec; split; try discriminate; intros H.
      + left. split; [auto|]. destruct t; simpl in *; auto.
      + left. split; [auto|]. destruct t; simpl in *; [auto|discriminate].
      + right. split; [auto|]. destruct e; simpl in *; auto.
      + right. split; [auto|]. destruct e; simpl in *; [auto|discriminate].
  Qed.

  Theorem den_sound d : forall s j,
    (V st s j -> den d true s j) /\ (NV st s j -> den d false s j).
  Proof.
    induction d as [|d IH]; intros s j; [split; auto|].
    assert (HD : forall f s x, (validate st f s x = Valid -> den d true s x) /\
                               (validate st f s x = Invalid -> den d false s x)).
    { intros f s' x. split; intros H; apply IH; exists f; exact H. }
    split; intros [f H]; (destruct f as [|f]; [discriminate|]); rewrite validate_S in H;
      destruct s; simpl in *.
    - destruct b; [exact I|discriminate].
    - destruct (unf key).
      + rewrite lkp_ok. destruct (slookup key st); [|discriminate]. apply (HD f); exact H.
      + exists (S f). rewrite validate_S. exact H.
    - apply (conj_map_intro (fun k => denk (den d) true k j)). intros k Hk.
      apply (denk_sound f (den d) (HD f)). exact (all_seq_Valid _ _ H k Hk).
    - discriminate.
    - destruct b; [discriminate|exact I].
    - destruct (unf key).
      + rewrite lkp_ok. destruct (slookup key st); [|discriminate]. apply (HD f); exact H.
      + exists (S f). rewrite validate_S. exact H.
    - apply (disj_map_intro (fun k => denk (den d) false k j)).
      destruct (all_seq_Invalid _ _ H) as (k & Hk & E). exists k. split; [exact Hk|].
      apply (denk_sound f (den d) (HD f)). exact E.
    - discriminate.
  Qed.

  Corollary den_V d s j : V st s j -> den d true s j.
  Proof. apply den_sound. Qed.
  Corollary den_NV d s j : NV st s j -> den d false s j.
  Proof. apply den_sound. Qed.
End Den.

(* ---------------------------------------------------------------- small instance-side facts *)

Lemma has_type_obj j : has_type_in j [TObj] = true -> exists m, j = JObj m.
Proof. destruct j; simpl; try discriminate. eauto. Qed.
Lemma has_type_arr j : has_type_in j [TArr] = true -> exists l, j = JArr l.
Proof. destruct j; simpl; try discriminate. eauto. Qed.
Lemma has_type_str j : has_type_in j [TStr] = true -> exists s, j = JStr s.
Proof. destruct j; simpl; try discriminate. eauto. Qed.
Lemma has_type_null j : has_type_in j [TNull] = true -> j = JNull.
Proof. destruct j; simpl; try discriminate. eauto. Qed.
Lemma has_type_bool j : has_type_in j [TBool] = true -> exists b, j = JBool b.
Proof. destruct j; simpl; try discriminate. eauto. Qed.

Lemma has_key_lookup k m : has_key k m = true -> exists x, lookup k m = Some x.
Proof. unfold has_key. destruct (lookup k m); [eauto|discriminate]. Qed.
Lemma lookup_In k m x : lookup k m = Some x -> In (k, x) m.
Proof.
  induction m as [|[k' v] m IH]; simpl; [discriminate|].
  destruct (String.eqb k k') eqn:E.
  - apply String.eqb_eq in E. subst. intros [= ->]. auto.
  - auto.
Qed.
Lemma mem_str_In k l : mem_str k l = true <-> In k l.
Proof.
  unfold mem_str. rewrite existsb_exists. split.
  - intros (x & Hx & E). apply String.eqb_eq in E. subst; auto.
  - intros H. exists k. split; [auto|apply String.eqb_refl].
Qed.
Lemma is_extra_no_pats props k : is_extra props [] k = negb (mem_str k props).
Proof. unfold is_extra. simpl. destruct (mem_str k props); reflexivity. Qed.

(* sizes, for induction over documents *)
Lemma jsize_lookup k m x : lookup k m = Some x -> jsize x < jsize (JObj m).
Proof.
  simpl. induction m as [|[k' v] m IH]; simpl; [discriminate|].
  destruct (String.eqb k k').
  - intros [= ->]. lia.
  - intros H. specialize (IH H). lia.
Qed.
Lemma jsize_In_obj k m x : In (k, x) m -> jsize x < jsize (JObj m).
Proof.
  simpl. induction m as [|[k' v] m IH]; simpl; [contradiction|].
  intros [[= -> ->]|H]; [lia|]. specialize (IH H). lia.
Qed.
Lemma jsize_In_arr l x : In x l -> jsize x < jsize (JArr l).
Proof.
  simpl. induction l as [|a l IH]; simpl; [contradiction|].
  intros [->|H]; [lia|]. specialize (IH H). lia.
Qed.
