(* C11 — model of config_parse_v3._Parser._normalize_props (the generic walk over the trace type
   node) and of the spelling tables it uses.

   Python (config_parse_v3.py):
       for parent_node, key in self._trace_type_props():      # _props: post-order, every mapping
           node = parent_node[key]                            #   entry of every nested mapping;
           if node is None: del parent_node[key]; continue    #   sequences are traversed, their
           if key == 'class' and type(node) is str: ...       #   items are not "properties"
           elif key == 'preferred-display-base' and type(node) is str: ...
   The walk is key-driven and context-free: ANY entry named `class` (resp. `preferred-display-base`)
   whose value is a string is rewritten, wherever it is; ANY null-valued entry of ANY mapping is
   removed; a null ITEM of a sequence stays.  `norm` is that function; `nf` is "norm changes
   nothing".  No proof here (EffectiveProofs.v). *)
From Coq Require Import List String ZArith Bool.
Import ListNotations.
From BT.Front Require Import Yaml.
Open Scope string_scope.
Open Scope list_scope.

(* ------------------------------------------------------------------ spelling tables *)
Definition canon_class (s : string) : string :=
  if String.eqb s "uint" || String.eqb s "unsigned-int" then "unsigned-integer"
  else if String.eqb s "sint" || String.eqb s "signed-int" then "signed-integer"
  else if String.eqb s "uenum" || String.eqb s "unsigned-enum" then "unsigned-enumeration"
  else if String.eqb s "senum" || String.eqb s "signed-enum" then "signed-enumeration"
  else if String.eqb s "str" then "string"
  else if String.eqb s "struct" then "structure"
  else s.

Definition canon_base (s : string) : string :=
  if String.eqb s "bin" then "binary"
  else if String.eqb s "oct" then "octal"
  else if String.eqb s "dec" then "decimal"
  else if String.eqb s "hex" then "hexadecimal"
  else s.

(* normalize_byte_order_prop *)
Definition canon_bo (s : string) : string :=
  if String.eqb s "be" || String.eqb s "big" then "big-endian"
  else if String.eqb s "le" || String.eqb s "little" then "little-endian"
  else s.

(* every spelling the schemas accept (field-type.yaml `ft`, common.yaml byte-order-prop and
   opt-int-ft-preferred-display-base-prop) *)
Definition class_spellings : list string :=
  ["uint"; "unsigned-int"; "unsigned-integer"; "sint"; "signed-int"; "signed-integer";
   "uenum"; "unsigned-enum"; "unsigned-enumeration"; "senum"; "signed-enum"; "signed-enumeration";
   "real"; "str"; "string"; "static-array"; "dynamic-array"; "struct"; "structure"].
Definition canonical_classes : list string :=
  ["unsigned-integer"; "signed-integer"; "unsigned-enumeration"; "signed-enumeration"; "real";
   "string"; "static-array"; "dynamic-array"; "structure"].
Definition base_spellings : list string := ["bin"; "binary"; "oct"; "octal"; "dec"; "decimal"; "hex"; "hexadecimal"].
Definition canonical_bases : list string := ["binary"; "octal"; "decimal"; "hexadecimal"].
Definition bo_spellings : list string := ["le"; "little"; "little-endian"; "be"; "big"; "big-endian"].
Definition canonical_bos : list string := ["little-endian"; "big-endian"].

(* what the loop body does to a string-valued entry *)
Definition fix_scalar (k s : string) : string :=
  if String.eqb k "class" then canon_class s
  else if String.eqb k "preferred-display-base" then canon_base s
  else s.

(* ------------------------------------------------------------------ the walk *)
Fixpoint norm (y : yaml) {struct y} : yaml :=
  match y with
  | YMap l =>
      YMap (flat_map (fun kv => match snd kv with
                                | YNull => []
                                | YStr s => [(fst kv, YStr (fix_scalar (fst kv) s))]
                                | _ => [(fst kv, norm (snd kv))]
                                end) l)
  | YSeq l => YSeq (map norm l)
  | other => other
  end.

(* the entries of norm (YMap l) *)
Definition norm_entry (kv : string * yaml) : list (string * yaml) :=
  match snd kv with
  | YNull => []
  | YStr s => [(fst kv, YStr (fix_scalar (fst kv) s))]
  | _ => [(fst kv, norm (snd kv))]
  end.
Definition norm_entries (l : entries) : entries := flat_map norm_entry l.

(* normal form: the walk would change nothing *)
Fixpoint nf (y : yaml) {struct y} : bool :=
  match y with
  | YMap l => forallb (fun kv => match snd kv with
                                 | YNull => false
                                 | YStr s => String.eqb (fix_scalar (fst kv) s) s
                                 | _ => nf (snd kv)
                                 end) l
  | YSeq l => forallb nf l
  | _ => true
  end.
