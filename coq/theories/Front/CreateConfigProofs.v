(* Totality of the field type part of `_create_config` (model: CreateConfig.create_ft):
   a field type tree accepted by the final schema (shape DocValid.ft_doc false, Props/C09.v)
   never makes it crash - the claim in the comment of `_Parser._parse` ("the node already has the
   expected structure").  The former crash witnesses (defects repaired in /repo) are rejected by
   the regenerated schema. *)
From Coq Require Import List String ZArith Bool Lia.
Import ListNotations.
From BT.Front Require Import Json JsonSchema JsonSchemaLemmas DocValid JsonSchemaDoc JsonWitness CreateConfig.
Open Scope string_scope.

Definition safe (r : outcome) : Prop := is_crash r = false.

Lemma oseq_safe a b : safe a -> safe b -> safe (oseq a b).
Proof. unfold safe. destruct a; simpl; auto. Qed.
Lemma oall_ok {A} (f : A -> outcome) l : (forall x, In x l -> f x = Ok) -> oall f l = Ok.
Proof.
  induction l as [|a l IH]; simpl; intros H; [reflexivity|].
  rewrite (H a (or_introl eq_refl)). simpl. apply IH. intros; apply H; auto.
Qed.

(* ---- accessors under the shapes *)
Lemma pget_required m k (P : json -> Prop) :
  required m k P -> (forall x, P x -> x <> JNull) -> exists x, pget k m = Some x /\ P x.
Proof.
  intros (x & L & Px) NN. exists x. split; [|exact Px]. unfold pget. rewrite L.
  destruct x; try reflexivity. exfalso. exact (NN _ Px eq_refl).
Qed.
Lemma pget_optional m k (P : json -> Prop) :
  optional m k P -> pget k m = None \/ exists x, pget k m = Some x /\ lookup k m = Some x /\ P x.
Proof.
  intros O. unfold pget. destruct (lookup k m) as [x|] eqn:L; [|left; reflexivity].
  destruct (O x L) as [->|Px]; [left; reflexivity|].
  destruct x; try (right; eexists; split; [reflexivity|split; [reflexivity|exact Px]]). left; reflexivity.
Qed.

Lemma int_val_not_null lo hi x : int_doc lo hi x -> x <> JNull.
Proof. intros (z & -> & _). discriminate. Qed.

Lemma check_alignment_safe m k :
  optional m k (intP false 1 None) -> safe (check_alignment (pget k m)).
Proof.
  intros O. unfold intP in O. destruct (pget_optional _ _ _ O) as [->|(x & -> & L & I)]; [reflexivity|].
  destruct I as (z & -> & Hz & _).
  unfold safe. simpl. destruct (Z.ltb z 1) eqn:E; [apply Z.ltb_lt in E; lia|].
  destruct (is_pow2 z); reflexivity.
Qed.
Lemma check_base_safe m : optional m "preferred-display-base" (str_in base_names) ->
  check_base (pget "preferred-display-base" m) = Ok.
Proof.
  intros O. destruct (pget_optional _ _ _ O) as [->|(x & -> & _ & s & -> & Hin)]; [reflexivity|].
  unfold check_base. apply mem_str_In in Hin. rewrite Hin. reflexivity.
Qed.

Lemma create_int_safe' m :
  required m "size" (intP false 1 (Some 64%Z)) -> optional m "alignment" (intP false 1 None) ->
  optional m "preferred-display-base" (str_in base_names) -> safe (create_int m).
Proof.
  intros S A B. unfold intP in S.
  destruct (pget_required _ _ _ S (int_val_not_null _ _)) as (x & Lx & z & Ez & _).
  unfold create_int, create_bit_array, need. rewrite (check_base_safe _ B), Lx. simpl.
  apply oseq_safe.
  - apply oseq_safe; [apply check_alignment_safe; assumption|reflexivity].
  - destruct (pget "alignment" m); [reflexivity|]. subst x. reflexivity.
Qed.
Lemma create_int_safe m classes :
  int_ft_doc false classes (JObj m) -> safe (create_int m).
Proof.
  intros (m' & E & _ & S & A & B & _). injection E as <-. apply create_int_safe'; assumption.
Qed.

Lemma check_range_ok r : enum_range (is_int false) r -> check_range r = Ok.
Proof. intros [(z & ->)|(a & b & -> & (za & ->) & (zb & ->))]; reflexivity. Qed.
Lemma check_mapping_ok v : enum_mapping (is_int false) v -> check_mapping v = Ok.
Proof. intros (l & -> & _ & R). simpl. apply oall_ok. intros r Hr. apply check_range_ok; auto. Qed.
Lemma pentries_In m k v : In (k, v) (pentries m) -> In (k, v) m.
Proof. unfold pentries. intros H. apply filter_In in H. tauto. Qed.

Lemma create_enum_safe m classes :
  enum_ft_doc false classes (JObj m) -> safe (create_enum m).
Proof.
  intros (m' & E & C & S & A & B & (x & Lm & M) & K). injection E as <-.
  destruct M as (mm & -> & _ & R).
  unfold create_enum, pget. rewrite Lm. rewrite oall_ok.
  - simpl. apply create_int_safe'; assumption.
  - intros [k v] Hin. simpl. apply pentries_In in Hin. apply check_mapping_ok. exact (R k v Hin).
Qed.

Lemma create_real_safe m :
  real_ft_doc false (JObj m) -> safe (oseq (create_bit_array m) Ok).
Proof.
  intros (m' & E & _ & S & A & _). injection E as <-.
  assert (NN : forall x, real_size false x -> x <> JNull) by (intros x [->| ->]; discriminate).
  destruct (pget_required _ _ _ S NN) as (x & Lx & _).
  unfold create_bit_array, need. rewrite Lx.
  apply oseq_safe; [|reflexivity]. apply oseq_safe; [apply check_alignment_safe; assumption|reflexivity].
Qed.

(* the class of a field type node *)
Lemma class_lookup_doc m c names C :
  required m "class" (str_in names) -> lookup "class" m = Some (JStr c) ->
  (forall s, In s names -> class_of s = Some C) ->
  class_lookup (JObj m) = inl C.
Proof.
  intros R L HC. pose proof (str_in_class _ _ _ L R) as Hin.
  unfold class_lookup, pget. rewrite L. rewrite (HC c Hin). reflexivity.
Qed.
Ltac class_names_tac := intros s Hs; simpl in Hs; intuition (subst; reflexivity).

Lemma ft_doc_obj strict j : ft_doc strict j -> exists m c, j = JObj m /\ lookup "class" m = Some (JStr c).
Proof.
  intros H. inversion H as [j0 D|j0 D|j0 D|j0 D|j0 D|j0 D|j0 D|j0 D|j0 D]; subst j0;
    destruct D as (m & -> & (x & L & s & -> & _) & _); exists m, s; auto.
Qed.

(* main theorem, by induction on the size of the node: what the current schemas enforce
   ([ft_doc false], Props/C09.v) plus [clean] suffices *)
Theorem create_ft_total : forall j, ft_doc false j -> forall fuel, safe (create_ft fuel j).
Proof.
  intros j. remember (jsize j) as n eqn:En. revert j En.
  induction n as [n IH] using lt_wf_ind. intros j -> H fuel.
  destruct fuel as [|fuel]; [reflexivity|].
  destruct (ft_doc_obj _ _ H) as (m & c & -> & Lc).
  assert (REC : forall x, jsize x < jsize (JObj m) -> ft_doc false x -> safe (fst (create_fts fuel x))).
  { intros x Sx Dx. exact (IH (jsize x) Sx x eq_refl Dx fuel). }
  unfold create_ft. simpl create_fts. unfold create_body.
  destruct (ft_doc_inv _ _ _ H Lc) as [[C D]|[[C D]|[[C D]|[[C D]|[[C D]|[[C D]|[[C D]|[[C D]|[C D]]]]]]]]].
  - rewrite (class_lookup_doc m c uint_names CUint); [|destruct D as (m' & E & R & _); injection E as <-; exact R|exact Lc|class_names_tac].
    simpl. exact (create_int_safe _ _ D).
  - rewrite (class_lookup_doc m c sint_names CSint); [|destruct D as (m' & E & R & _); injection E as <-; exact R|exact Lc|class_names_tac].
    simpl. exact (create_int_safe _ _ D).
  - rewrite (class_lookup_doc m c uenum_names CUenum); [|destruct D as (m' & E & R & _); injection E as <-; exact R|exact Lc|class_names_tac].
    simpl. exact (create_enum_safe _ _ D).
  - rewrite (class_lookup_doc m c senum_names CSenum); [|destruct D as (m' & E & R & _); injection E as <-; exact R|exact Lc|class_names_tac].
    simpl. exact (create_enum_safe _ _ D).
  - rewrite (class_lookup_doc m c real_names CReal); [|destruct D as (m' & E & R & _); injection E as <-; exact R|exact Lc|class_names_tac].
    simpl. exact (create_real_safe _ D).
  - rewrite (class_lookup_doc m c string_names CString); [|destruct D as (m' & E & R & _); injection E as <-; exact R|exact Lc|class_names_tac].
    reflexivity.
  - (* static array *)
    rewrite (class_lookup_doc m c sarray_names CSArray); [|destruct D as (m' & E & R & _); injection E as <-; exact R|exact Lc|class_names_tac].
    simpl. destruct D as (m' & E & _ & (e & Le & De) & Len & _). injection E as <-.
    unfold intP in Len. destruct (pget_required _ _ _ Len (int_val_not_null _ _)) as (x & Lx & _).
    unfold need. rewrite Lx. simpl.
    unfold create_array, pget. rewrite Le.
    destruct (ft_doc_obj _ _ De) as (me & ce & -> & _).
    pose proof (REC _ (jsize_lookup _ _ _ Le) De) as S.
    destruct (create_fts fuel (JObj me)) as [r oc]. simpl in S.
    destruct r; try discriminate S; try reflexivity. destruct oc as [[]|]; reflexivity.
  - (* dynamic array *)
    rewrite (class_lookup_doc m c darray_names CDArray); [|destruct D as (m' & E & R & _); injection E as <-; exact R|exact Lc|class_names_tac].
    simpl. destruct D as (m' & E & _ & (e & Le & De) & _). injection E as <-.
    unfold create_array, pget. rewrite Le.
    destruct (ft_doc_obj _ _ De) as (me & ce & -> & _).
    pose proof (REC _ (jsize_lookup _ _ _ Le) De) as S.
    destruct (create_fts fuel (JObj me)) as [r oc]. simpl in S.
    destruct r; try discriminate S; try reflexivity. destruct oc as [[]|]; reflexivity.
  - (* structure *)
    rewrite (class_lookup_doc m c struct_names CStruct); [|destruct D as (m' & E & R & _); injection E as <-; exact R|exact Lc|class_names_tac].
    simpl. destruct D as (m' & E & _ & A & M & _). injection E as <-.
    unfold create_struct. apply oseq_safe; [apply check_alignment_safe; assumption|].
    destruct (pget_optional _ _ _ M) as [->|(x & Lx & Lm & l & -> & Ml)]; [reflexivity|].
    rewrite Lx.
    pose proof (jsize_lookup _ _ _ Lm) as Sl.
    assert (G : forall seen l', (forall e, In e l' -> In e l) -> safe (create_members (create_fts fuel) seen l')).
    { intros seen l'. revert seen. induction l' as [|e l' IHl]; intros seen Sub; [reflexivity|].
      pose proof (Sub e (or_introl eq_refl)) as Ie.
      destruct (Ml e Ie) as (name & v & -> & _ & (mo & -> & (ftn & Lf & Df) & _)).
      simpl. destruct (mem_str name seen); [reflexivity|]. destruct (is_keyword name); [reflexivity|].
      destruct (ft_doc_obj _ _ Df) as (mf & cf & -> & Lcf).
      assert (Pf : pget "field-type" mo = Some (JObj mf)) by (unfold pget; rewrite Lf; reflexivity).
      rewrite Pf.
      assert (Sf : jsize (JObj mf) < jsize (JObj m)).
      { pose proof (jsize_lookup _ _ _ Lf) as S1.
        pose proof (jsize_In_arr _ _ Ie) as S2. simpl in S1, S2, Sl |- *. lia. }
      assert (CL : exists C, class_lookup (JObj mf) = inl C).
      { destruct (ft_doc_inv _ _ _ Df Lcf) as [[C' D']|[[C' D']|[[C' D']|[[C' D']|[[C' D']|[[C' D']|[[C' D']|[[C' D']|[C' D']]]]]]]]];
          destruct D' as (m' & E & R & _); injection E as <-;
          eexists; eapply class_lookup_doc; try exact R; try exact Lcf; class_names_tac. }
      destruct CL as [C2 ->].
      assert (T : safe (oseq (fst (create_fts fuel (JObj mf))) (create_members (create_fts fuel) (name :: seen) l'))).
      { apply oseq_safe; [exact (REC _ Sf Df)|]. apply IHl. intros e' He'. apply Sub. right; exact He'. }
      destruct C2; try exact T. reflexivity. }
    apply G. auto.
Qed.

(* ---------------------------------------------------------------- crash witnesses *)
(* schema-valid nodes (evaluation of the regenerated final field type schema) on which the
   skeleton crashes *)
Definition w_align_float : json :=
  JObj [("class", JStr "uint"); ("size", JInt 8); ("alignment", JFloat (FFin 8 1))].
(* former crash witness (repaired): member `a-b: 5` *)
Definition w_member_val : json :=
  JObj [("class", JStr "struct"); ("members", JArr [JObj [("a-b", JInt 5)]])].
Lemma w_align_float_rejected : validate S3 200 (SRef K_ft) w_align_float = Invalid. Proof. vm_compute. reflexivity. Qed.
Lemma w_member_val_rejected : validate S3 200 (SRef K_ft) w_member_val = Invalid. Proof. vm_compute. reflexivity. Qed.


(* accepted by the final schema => the skeleton is total *)
Lemma create_ft_total_accepted j :
  accepts3 "config/3/field-type#/definitions/ft" j -> forall fuel e, create_ft fuel j <> Crash e.
Proof.
  intros A fuel e E. pose proof (create_ft_total j (ft_accepts_doc j A) fuel) as S.
  unfold safe in S. rewrite E in S. discriminate S.
Qed.
(* string field types: the schema alone suffices *)
Lemma create_string_total j :
  VK "config/3/field-type#/definitions/string-ft" j -> forall fuel, create_ft (S fuel) j = Ok.
Proof.
  intros H fuel. destruct (string_ft_shape j H) as (m & -> & (x & L & s & -> & Hin) & _).
  unfold create_ft. simpl. unfold create_body, class_lookup, pget. rewrite L.
  simpl in Hin. destruct Hin as [<-|[<-|[]]]; reflexivity.
Qed.
