(* C13: control skeleton of a Jinja2 template and its rendering semantics.

   Gen/TemplatePlan.v (tools/j2coq.py, from Jinja2's own AST) gives one [tmpl] per template file
   and per macro.  Everything a template computes from its context -- literal text, {{ expr }}
   values, {% if %} tests, {% set %}, filters, loop variable binding -- is UNINTERPRETED here
   (Section variables: the theorems hold for every interpretation).  The only thing that is
   interpreted is iteration: a {% for %} over one of the name-hashed set attributes
   (data_stream_types / event_record_types / clock_types; their elements hash by name, so the
   iteration order is what a hash seed or the construction order can change) enumerates the
   members in an order chosen by an ORACLE; `| sort` sorts by name (elements compare by name,
   barectf/config.py _UniqueByName.__lt__).

   Model only; proofs in TemplateProofs.v. *)
From Coq Require Import List NArith Bool.
Import ListNotations.
From BT.Front Require Import Prefix Ids.
Open Scope N_scope.

Inductive coll_kind :=
| NameSet      (* iterable mentions data_stream_types / event_record_types / clock_types *)
| Ordered.     (* list / dict / OrderedDict: iteration order is part of the value *)

Inductive tmpl :=
| Nop
| Text (id : N)                                   (* literal template data *)
| Out (id : N)                                    (* {{ expr }} not calling a template macro *)
| Seq (a b : tmpl)
| For (id : N) (kind : coll_kind) (sorted : bool) (body els : tmpl)
| Cond (id : N) (a b : tmpl)                      (* {% if %} / {% else %} *)
| SetVar (id : N)                                 (* {% set x = expr %} *)
| SetBlock (id : N) (body : tmpl)                 (* {% set x %}..{% endset %} *)
| FilterBlock (id : N) (body : tmpl)              (* {% filter f %}..{% endfilter %} *)
| Include (name : str)                            (* {% include 'name' %} *)
| CallMacro (id : N) (tname mname : str).         (* {{ tname.mname(args) | filters }} *)

(* every loop over a name-hashed set is sorted *)
Fixpoint all_set_loops_sorted (t : tmpl) : bool :=
  match t with
  | Nop | Text _ | Out _ | SetVar _ | Include _ | CallMacro _ _ _ => true
  | Seq a b | Cond _ a b => all_set_loops_sorted a && all_set_loops_sorted b
  | For _ k s body els =>
      (match k with NameSet => s | Ordered => true end) &&
      all_set_loops_sorted body && all_set_loops_sorted els
  | SetBlock _ b | FilterBlock _ b => all_set_loops_sorted b
  end.

Fixpoint count_set_loops (t : tmpl) : nat :=
  match t with
  | Nop | Text _ | Out _ | SetVar _ | Include _ | CallMacro _ _ _ => 0
  | Seq a b | Cond _ a b => count_set_loops a + count_set_loops b
  | For _ k _ body els =>
      (match k with NameSet => 1 | Ordered => 0 end) + count_set_loops body + count_set_loops els
  | SetBlock _ b | FilterBlock _ b => count_set_loops b
  end.

(* names used by Include / CallMacro *)
Fixpoint includes_of (t : tmpl) : list str :=
  match t with
  | Include n => [n]
  | Seq a b | Cond _ a b => includes_of a ++ includes_of b
  | For _ _ _ body els => includes_of body ++ includes_of els
  | SetBlock _ b | FilterBlock _ b => includes_of b
  | _ => []
  end.

Fixpoint macro_calls_of (t : tmpl) : list (str * str) :=
  match t with
  | CallMacro _ tn mn => [(tn, mn)]
  | Seq a b | Cond _ a b => macro_calls_of a ++ macro_calls_of b
  | For _ _ _ body els => macro_calls_of body ++ macro_calls_of els
  | SetBlock _ b | FilterBlock _ b => macro_calls_of b
  | _ => []
  end.

(* ---- tables (what Gen/TemplatePlan.v provides) ------------------------------------------ *)

Definition ttable := list (str * tmpl).
Definition mtable := list (str * str * tmpl).

Fixpoint tlookup (tb : ttable) (n : str) : option tmpl :=
  match tb with
  | [] => None
  | (k, t) :: r => if str_eqb k n then Some t else tlookup r n
  end.

Fixpoint mlookup (mb : mtable) (tn mn : str) : option tmpl :=
  match mb with
  | [] => None
  | (k1, k2, t) :: r => if str_eqb k1 tn && str_eqb k2 mn then Some t else mlookup r tn mn
  end.

Definition plan_sorted (tb : ttable) (mb : mtable) : bool :=
  forallb (fun p => all_set_loops_sorted (snd p)) tb &&
  forallb (fun p => all_set_loops_sorted (snd p)) mb.

Definition isSome {A} (o : option A) : bool := match o with Some _ => true | None => false end.

(* every include / macro call of the plan resolves inside the plan *)
Definition plan_closed (tb : ttable) (mb : mtable) : bool :=
  let ok t := forallb (fun n => isSome (tlookup tb n)) (includes_of t) &&
              forallb (fun p => isSome (mlookup mb (fst p) (snd p))) (macro_calls_of t) in
  forallb (fun p => ok (snd p)) tb && forallb (fun p => ok (snd p)) mb.

Definition plan_set_loops (tb : ttable) (mb : mtable) : nat :=
  fold_right (fun p n => count_set_loops (snd p) + n)%nat 0%nat tb +
  fold_right (fun p n => count_set_loops (snd p) + n)%nat 0%nat mb.

(* ---- rendering --------------------------------------------------------------------------- *)

Fixpoint loop {E : Type} (body : nat -> E -> option str) (i : nat) (l : list E) : option str :=
  match l with
  | [] => Some []
  | x :: r =>
      match body i x with
      | None => None
      | Some s => match loop body (S i) r with None => None | Some s' => Some (s ++ s') end
      end
  end.

Section Render.
  Variables (env elt : Type).
  Variable key : elt -> str.                             (* element name *)
  Variable text : N -> str.
  Variable out : N -> env -> str.
  Variable cond : N -> env -> bool.
  Variable setv : N -> env -> env.
  Variable setb : N -> str -> env -> env.
  Variable filt : N -> str -> env -> str.
  Variable members : N -> env -> list elt.               (* value of the iterable of loop [id] *)
  Variable bind : N -> nat -> nat -> elt -> env -> env.  (* loop id, loop.index0, loop.length *)
  Variable margs : N -> env -> env.                      (* macro argument binding *)
  Variable mpost : N -> str -> env -> str.               (* filters applied to a macro result *)
  Variable tb : ttable.
  Variable mb : mtable.

  (* iteration order of a name-hashed set: any function of the loop, the context and the
     members that returns a permutation of the members *)
  Definition oracle := N -> env -> list elt -> list elt.

  Definition enumerate (o : oracle) (id : N) (k : coll_kind) (sorted : bool) (e : env) : list elt :=
    let raw := match k with NameSet => o id e (members id e) | Ordered => members id e end in
    if sorted then sort (fun a b => str_leb (key a) (key b)) raw else raw.

  (* result: rendered text and the context after the node; None = out of fuel / unresolved name *)
  Fixpoint render (fuel : nat) (o : oracle) (t : tmpl) (e : env) : option (str * env) :=
    match fuel with
    | O => None
    | S f =>
        match t with
        | Nop => Some ([], e)
        | Text id => Some (text id, e)
        | Out id => Some (out id e, e)
        | Seq a b =>
            match render f o a e with
            | None => None
            | Some r1 =>
                match render f o b (snd r1) with
                | None => None
                | Some r2 => Some (fst r1 ++ fst r2, snd r2)
                end
            end
        | Cond id a b => if cond id e then render f o a e else render f o b e
        | SetVar id => Some ([], setv id e)
        | SetBlock id b =>
            match render f o b e with None => None | Some r => Some ([], setb id (fst r) e) end
        | FilterBlock id b =>
            match render f o b e with None => None | Some r => Some (filt id (fst r) e, e) end
        | For id k sorted body els =>
            let l := enumerate o id k sorted e in
            match l with
            | [] => match render f o els e with None => None | Some r => Some (fst r, e) end
            | _ =>
                match loop (fun i x => option_map fst (render f o body (bind id i (List.length l) x e))) 0%nat l with
                | None => None
                | Some s => Some (s, e)
                end
            end
        | Include n =>
            match tlookup tb n with
            | None => None
            | Some t' => match render f o t' e with None => None | Some r => Some (fst r, e) end
            end
        | CallMacro id tn mn =>
            match mlookup mb tn mn with
            | None => None
            | Some t' =>
                match render f o t' (margs id e) with
                | None => None
                | Some r => Some (mpost id (fst r) e, e)
                end
            end
        end
    end.
End Render.
