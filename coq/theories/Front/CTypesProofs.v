(* C14: the translated cgen._ft_c_type (Gen/PyFuns.v) against the documented C type table. *)
From Coq Require Import List NArith Bool Lia String.
Import ListNotations.
From BT.Front Require Import Prefix CTypes.
From BT.Gen Require Import PyFuns.
Open Scope N_scope.

Lemma int_case : forall sg s a k f, (1 <=? s) && (s <=? 64) && (1 <=? a) = true ->
    ft_c_type (S f) (FInt sg s a) k = Some (doc_c_type (FInt sg s a) k) /\
    ft_c_type (S f) (FEnum sg s a) k = Some (doc_c_type (FEnum sg s a) k).
Proof.
  intros sg s a k f H.
  apply andb_true_iff in H. destruct H as [H Ha]. apply andb_true_iff in H. destruct H as [H1 H64].
  cbn [doc_c_type]. unfold doc_int_name, doc_int_bits.
  split; destruct sg; cbn [ft_c_type ft_class_in ft_class existsb ftclass_eqb orb ft_size];
    (destruct (s <=? 8) eqn:E8; [reflexivity|]);
    (destruct (s <=? 16) eqn:E16; [reflexivity|]);
    (destruct (s <=? 32) eqn:E32; [reflexivity|]);
    rewrite H64; reflexivity.
Qed.

Theorem ctype_partial : forall t k fuel,
    wf_ft t = true -> reals_naturally_aligned t = true -> (ft_depth t <= fuel)%nat ->
    ft_c_type fuel t k = Some (doc_c_type t k).
Proof.
  induction t as [sg s a|sg s a|s a| |len e IH|e IH]; intros k fuel Hwf Hr Hd;
    (destruct fuel as [|f]; [cbn in Hd; lia|]).
  - apply int_case. exact Hwf.
  - apply int_case. exact Hwf.
  - cbn [wf_ft] in Hwf. cbn [reals_naturally_aligned] in Hr. apply N.eqb_eq in Hr. subst a.
    apply andb_true_iff in Hwf. destruct Hwf as [Hs _]. apply orb_true_iff in Hs.
    destruct Hs as [Hs|Hs]; apply N.eqb_eq in Hs; subst s; reflexivity.
  - reflexivity.
  - cbn [wf_ft reals_naturally_aligned ft_depth] in *.
    cbn [ft_c_type ft_class_in ft_class existsb ftclass_eqb orb ft_elem].
    rewrite (IH true f Hwf Hr); [reflexivity|lia].
  - cbn [wf_ft reals_naturally_aligned ft_depth] in *.
    cbn [ft_c_type ft_class_in ft_class existsb ftclass_eqb orb ft_elem].
    rewrite (IH true f Hwf Hr); [reflexivity|lia].
Qed.

(* S1: a real field type whose alignment is not its size gets uint64_t *)
Theorem ctype_refuted : exists t k fuel,
    wf_ft t = true /\ (ft_depth t <= fuel)%nat /\
    ft_c_type fuel t k = Some (CArith (s2l "uint64_t"%string) k) /\
    ft_c_type fuel t k <> Some (doc_c_type t k).
Proof.
  exists (FReal 32 8), false, 1%nat. repeat split; try reflexivity.
  vm_compute. discriminate.
Qed.

(* every real whose alignment differs from its size is affected, whatever the nesting *)
Theorem ctype_real_misaligned : forall s a k f,
    wf_ft (FReal s a) = true -> s <> a ->
    ft_c_type (S f) (FReal s a) k = Some (CArith (s2l "uint64_t"%string) k).
Proof.
  intros s a k f Hwf Hne. cbn [wf_ft] in Hwf. apply andb_true_iff in Hwf. destruct Hwf as [Hs _].
  apply orb_true_iff in Hs.
  destruct Hs as [Hs|Hs]; apply N.eqb_eq in Hs; subst s;
    cbn [ft_c_type ft_class_in ft_class existsb ftclass_eqb orb ft_size ft_alignment].
  - assert (E : (a =? 32) = false) by (apply N.eqb_neq; congruence). rewrite E. reflexivity.
  - assert (E : (a =? 64) = false) by (apply N.eqb_neq; congruence). rewrite E. reflexivity.
Qed.

(* the loop variable names of the generated code: i, j, k, k1, k2, ... *)
Theorem loop_var_name_spec : forall level, loop_var_name level = Some (doc_loop_var_name level).
Proof.
  intro level. unfold loop_var_name, doc_loop_var_name.
  destruct (level <? 3) eqn:E.
  - apply N.ltb_lt in E.
    assert (H : level = 0 \/ level = 1 \/ level = 2) by lia.
    destruct H as [H|[H|H]]; subst; reflexivity.
  - apply N.ltb_ge in E. assert (E2 : (2 <=? level) = true) by (apply N.leb_le; lia). rewrite E2.
    destruct level as [|[p|p|]]; [lia|reflexivity| |lia].
    destruct p as [q|q|]; [reflexivity|reflexivity|lia].
Qed.
