(* C14: the translated cgen._ft_c_type (Gen/PyFuns.v) against the documented C type table. *)
From Coq Require Import List NArith Bool Lia String.
Import ListNotations.
From BT.Front Require Import Prefix CTypes.
From BT.Gen Require Import PyFuns.
Open Scope N_scope.

Lemma int_case : forall sg s a k f, (1 <=? s) && (s <=? 64) && (1 <=? a) = true ->
    ft_c_type (S f) (FInt sg s a) k = Some (doc_c_type (FInt sg s a) k) /\
    ft_c_type (S f) (FEnum sg s a) k = Some (doc_c_type (FEnum sg s a) k).
Proof.
  intros sg s a k f H.
  apply andb_true_iff in H. destruct H as [H Ha]. apply andb_true_iff in H. destruct H as [H1 H64].
  cbn [doc_c_type]. unfold doc_int_name, doc_int_bits.
  split; destruct sg; cbn [ft_c_type ft_class_in ft_class existsb ftclass_eqb orb ft_size];
    (destruct (s <=? 8) eqn:E8; [reflexivity|]);
    (destruct (s <=? 16) eqn:E16; [reflexivity|]);
    (destruct (s <=? 32) eqn:E32; [reflexivity|]);
    rewrite H64; reflexivity.
Qed.

(* the C type chosen by the generator is the documented one, for EVERY well-formed field type
   (reals of any alignment included since the fix: commit of S1 in /repo) *)
Theorem ft_c_type_doc : forall t k fuel,
    wf_ft t = true -> (ft_depth t <= fuel)%nat ->
    ft_c_type fuel t k = Some (doc_c_type t k).
Proof.
  induction t as [sg s a|sg s a|s a| |len e IH|e IH]; intros k fuel Hwf Hd;
    (destruct fuel as [|f]; [cbn in Hd; lia|]).
  - apply int_case. exact Hwf.
  - apply int_case. exact Hwf.
  - cbn [wf_ft] in Hwf.
    apply andb_true_iff in Hwf. destruct Hwf as [Hs _]. apply orb_true_iff in Hs.
    destruct Hs as [Hs|Hs]; apply N.eqb_eq in Hs; subst s; reflexivity.
  - reflexivity.
  - cbn [wf_ft ft_depth] in *.
    cbn [ft_c_type ft_class_in ft_class existsb ftclass_eqb orb ft_elem].
    rewrite (IH true f Hwf); [reflexivity|lia].
  - cbn [wf_ft ft_depth] in *.
    cbn [ft_c_type ft_class_in ft_class existsb ftclass_eqb orb ft_elem].
    rewrite (IH true f Hwf); [reflexivity|lia].
Qed.

(* the loop variable names of the generated code: i, j, k, k1, k2, ... *)
Theorem loop_var_name_spec : forall level, loop_var_name level = Some (doc_loop_var_name level).
Proof.
  intro level. unfold loop_var_name, doc_loop_var_name.
  destruct (level <? 3) eqn:E.
  - apply N.ltb_lt in E.
    assert (H : level = 0 \/ level = 1 \/ level = 2) by lia.
    destruct H as [H|[H|H]]; subst; reflexivity.
  - apply N.ltb_ge in E. assert (E2 : (2 <=? level) = true) by (apply N.leb_le; lia). rewrite E2.
    destruct level as [|[p|p|]]; [lia|reflexivity| |lia].
    destruct p as [q|q|]; [reflexivity|reflexivity|lia].
Qed.
