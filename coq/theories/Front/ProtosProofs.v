(* C14: with the C type table the generator really uses (Gen/PyFuns.ft_c_type), the prototype
   parameter lists are the documented ones for every well-formed configuration. *)
From Coq Require Import List NArith Bool Lia String.
Import ListNotations.
From BT.Front Require Import Prefix CTypes CTypesProofs Protos.
From BT.Gen Require Import PyFuns.
Open Scope N_scope.

(* the generator's type table, total: fuel = nesting depth is enough *)
Definition real_c_type (t : ft) (k : bool) : ctype :=
  match ft_c_type (ft_depth t) t k with Some c => c | None => CArith [] false end.

Lemma real_c_type_doc : forall t k,
    wf_ft t = true -> real_c_type t k = doc_c_type t k.
Proof.
  intros t k Hw. unfold real_c_type. rewrite (ft_c_type_doc t k (ft_depth t) Hw); [reflexivity|lia].
Qed.

Definition ft_ok (t : ft) : bool := wf_ft t.
Definition sstruct_ok (st : sstruct) : bool := forallb (fun m => ft_ok (snd m)) st.
Definition osstruct_ok (st : option sstruct) : bool := match st with Some s => sstruct_ok s | None => true end.
Definition ert_ok (e : ertc) : bool := osstruct_ok (e_spec e) && osstruct_ok (e_payload e).
Definition dst_ok (d : dstc) : bool := sstruct_ok (d_pc_extra d) && osstruct_ok (d_common d) && forallb ert_ok (d_erts d).
Definition cfg_ok (c : cfgc) : bool := forallb dst_ok (c_dsts c).

Lemma params_of_cons : forall (f : ft -> bool -> ctype) pfx n t r,
    params_of f pfx ((n, t) :: r) =
    (match t with
     | FDArr e => [(CArith (s2l "uint32_t") false, pfx ++ s2l "___" ++ n ++ s2l "_len");
                   (CPtr (f e true) false, pfx ++ s2l "_" ++ n)]
     | t' => [(f t' false, pfx ++ s2l "_" ++ n)]
     end) ++ params_of f pfx r.
Proof. intros. destruct t; reflexivity. Qed.

Lemma params_of_doc : forall pfx st, sstruct_ok st = true ->
    params_of real_c_type pfx st = params_of doc_c_type pfx st.
Proof.
  intros pfx st. induction st as [|[n t] r IH]; intro H; [reflexivity|].
  cbn [sstruct_ok forallb snd] in H. apply andb_true_iff in H. destruct H as [Ht Hr].
  unfold ft_ok in Ht. pose proof Ht as Hw.
  rewrite !params_of_cons.
  rewrite (IH Hr). apply (f_equal (fun x => x ++ params_of doc_c_type pfx r)).
  destruct t; try (rewrite real_c_type_doc by assumption; reflexivity).
Qed.

Lemma oparams_doc : forall pfx st, osstruct_ok st = true ->
    oparams real_c_type pfx st = oparams doc_c_type pfx st.
Proof. intros pfx [s|] H; [apply params_of_doc; exact H|reflexivity]. Qed.

Theorem protos_doc : forall c, cfg_ok c = true -> protos_of real_c_type c = doc_protos c.
Proof.
  intros c H. unfold doc_protos, protos_of. unfold cfg_ok in H. rewrite forallb_forall in H.
  induction (c_dsts c) as [|d r IH]; [reflexivity|].
  cbn [flat_map]. rewrite IH by (intros x Hx; apply H; right; exact Hx).
  f_equal. specialize (H d (or_introl eq_refl)). unfold dst_ok in H.
  apply andb_true_iff in H. destruct H as [H He]. apply andb_true_iff in H. destruct H as [Hp Hc].
  rewrite (params_of_doc _ _ Hp). f_equal. f_equal.
  rewrite forallb_forall in He. apply map_ext_in. intros e Hin. specialize (He e Hin).
  unfold ert_ok in He. apply andb_true_iff in He. destruct He as [H1 H2].
  rewrite (oparams_doc _ _ Hc), (oparams_doc _ _ H1), (oparams_doc _ _ H2). reflexivity.
Qed.

(* one open/close pair per data stream type, one tracing function per event record type *)
Theorem protos_count : forall f c, List.length (protos_of f c) = count_protos c.
Proof.
  intros f c. unfold protos_of, count_protos. induction (c_dsts c) as [|d r IH]; [reflexivity|].
  cbn [flat_map fold_right]. rewrite app_length. rewrite IH. cbn [List.length]. rewrite map_length. lia.
Qed.
