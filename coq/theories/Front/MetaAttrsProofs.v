(* C15: adequacy of the emission guards of the metadata templates; obligations on the regenerated
   rows (Gen/MetaGuards.v). *)
From Coq Require Import List NArith ZArith Bool String.
Import ListNotations.
From BT.Front Require Import Prefix PrefixProofs MetaAttrs.
From BT.Gen Require Import MetaGuards.
Open Scope N_scope.

(* one adequate guard: whenever the attribute must be stated the guard passes, and the guard
   never passes for None (which would print the text "None") *)
Theorem guard_adequate : forall g v,
    guard_ok g = true -> in_kind (kind_of_expr (guard_expr g)) v = true ->
    (configured (kind_of_expr (guard_expr g)) v = true -> guard_passes g v = true) /\
    (guard_passes g v = true -> is_none v = false).
Proof.
  intros g v Hok Hk. destruct g as [e|e|e]; cbn [guard_ok guard_expr guard_passes] in *.
  - destruct (kind_of_expr e); try discriminate;
      destruct v as [|z|s|b|]; try discriminate; cbn in *;
        try (destruct s; cbn in *; try discriminate); split; intros; try reflexivity; try assumption; try discriminate.
  - destruct (kind_of_expr e); try discriminate;
      destruct v as [|z|s|b|]; try discriminate; cbn in *;
        try (destruct s; cbn in *; try discriminate); split; intros; try reflexivity; try assumption; try discriminate.
  - discriminate.
Qed.

(* a row is emitted iff all its guards pass; [val] gives the value of each guarded expression *)
Definition row_emitted (r : attr_row) (val : str -> pyval) : bool :=
  forallb (fun g => guard_passes g (val (guard_expr g))) (r_guards r).

Definition vals_in_kind (r : attr_row) (val : str -> pyval) : Prop :=
  forall g, In g (r_guards r) -> in_kind (kind_of_expr (guard_expr g)) (val (guard_expr g)) = true.

Theorem guards_adequate : forall rows,
    all_guards_ok rows = true ->
    forall r, In r rows -> forall val, vals_in_kind r val ->
    ((forall g, In g (r_guards r) -> configured (kind_of_expr (guard_expr g)) (val (guard_expr g)) = true) ->
     row_emitted r val = true) /\
    (row_emitted r val = true -> forall g, In g (r_guards r) -> is_none (val (guard_expr g)) = false).
Proof.
  intros rows Hall r Hr val Hk. unfold all_guards_ok in Hall. rewrite forallb_forall in Hall.
  specialize (Hall r Hr). unfold row_guards_ok in Hall. rewrite forallb_forall in Hall.
  split.
  - intro Hc. unfold row_emitted. apply forallb_forall. intros g Hg.
    apply (guard_adequate g _ (Hall g Hg) (Hk g Hg)). apply Hc. exact Hg.
  - intros He g Hg. unfold row_emitted in He. rewrite forallb_forall in He.
    apply (guard_adequate g _ (Hall g Hg) (Hk g Hg)). apply He. exact Hg.
Qed.

(* ---- the inadequate guards of the regenerated rows ---- *)

(* first row with an inadequate `{% if e %}` on an integer-valued expression, and that guard *)
Definition int_truthy_guard (g : guard) : bool :=
  match g with
  | GTruthy e => match kind_of_expr e with KInt => true | _ => false end
  | _ => false
  end.

Definition int_truthy_witness (rows : list attr_row) : option (attr_row * guard) :=
  match find (fun r => existsb int_truthy_guard (r_guards r)) rows with
  | Some r => match find int_truthy_guard (r_guards r) with Some g => Some (r, g) | None => None end
  | None => None
  end.

Lemma int_truthy_witness_spec : forall rows r g,
    int_truthy_witness rows = Some (r, g) ->
    In r rows /\ In g (r_guards r) /\ guard_ok g = false /\
    in_kind (kind_of_expr (guard_expr g)) (PInt 0) = true /\
    configured (kind_of_expr (guard_expr g)) (PInt 0) = true /\
    guard_passes g (PInt 0) = false.
Proof.
  intros rows r g H. unfold int_truthy_witness in H.
  destruct (find (fun r => existsb int_truthy_guard (r_guards r)) rows) as [r'|] eqn:F; [|discriminate].
  destruct (find int_truthy_guard (r_guards r')) as [g'|] eqn:G; [|discriminate].
  inversion H; subst. apply find_some in F. apply find_some in G.
  destruct F as [Hr _]. destruct G as [Hg Hb].
  split; [exact Hr|]. split; [exact Hg|].
  destruct g as [e|e|e]; cbn [int_truthy_guard] in Hb; try discriminate.
  cbn [guard_ok guard_expr guard_passes]. destruct (kind_of_expr e); try discriminate.
  repeat split; reflexivity.
Qed.

(* obligation on the regenerated rows: EVERY row is adequately guarded (S2, the truthiness test on
   ert.log_level, was repaired in /repo by a fix: commit; if it ever comes back this obligation
   fails and int_truthy_witness gives the row) *)
Lemma meta_rows_guards_ok : all_guards_ok meta_rows = true.
Proof. vm_compute. reflexivity. Qed.

Lemma meta_rows_quoted_ok : all_quoted_ok meta_rows = true.
Proof. vm_compute. reflexivity. Qed.

Lemma meta_rows_required_present : all_required_present meta_rows = true.
Proof. vm_compute. reflexivity. Qed.

Theorem guards_adequate_all :
  forall r, In r meta_rows -> forall val, vals_in_kind r val ->
    ((forall g, In g (r_guards r) -> configured (kind_of_expr (guard_expr g)) (val (guard_expr g)) = true) ->
     row_emitted r val = true) /\
    (row_emitted r val = true -> forall g, In g (r_guards r) -> is_none (val (guard_expr g)) = false).
Proof. exact (guards_adequate meta_rows meta_rows_guards_ok). Qed.
