(* C15: which descriptive attributes the metadata must state, and when the generator states them.

   Gen/MetaGuards.v (tools/j2coq.py) lists every attribute line of the metadata templates with
   the {% if %} tests around it.  An attribute line is emitted iff all its guards pass under
   Jinja2 truthiness; it OUGHT to be emitted iff the attribute is configured (value is not None).
   A guard `{% if e %}` (GTruthy) is adequate only when no configured value of e is falsy:
   it is NOT adequate for an integer (0 is a meaningful value: log level 0 = EMERG).

   Model only; proofs and the obligations on the regenerated rows are in MetaAttrsProofs.v. *)
From Coq Require Import List NArith ZArith Bool String.
Import ListNotations.
From BT.Front Require Import Prefix.
Open Scope N_scope.

Inductive guard :=
| GTruthy (e : str)        (* {% if e %} *)
| GIsNotNone (e : str)     (* {% if e is not none %} *)
| GOther (e : str).        (* anything else: never adequate (fail closed) *)

Record attr_row := mk_row {
  r_tmpl : str;            (* template file *)
  r_block : str;           (* trace / env / clock / stream / event / integer / enum / ... *)
  r_attr : str;            (* attribute name; "<expr>" when the name itself is computed *)
  r_guards : list guard;   (* enclosing tests, outermost first *)
  r_value : str;           (* text of the value *)
  r_quoted : bool;         (* value written between double quotes *)
  r_escaped : bool;        (* ... and passed through escape_dq *)
  r_name_quoted : bool;    (* the NAME is a quoted computed string (enumeration labels) *)
  r_name_escaped : bool
}.

(* ---- Python values as Jinja2 sees them ---- *)
Inductive pyval :=
| PNone
| PInt (z : Z)
| PStr (s : str)
| PBool (b : bool)
| PObj.                    (* an object without __bool__/__len__: UUID, field types, clock types *)

Definition truthy (v : pyval) : bool :=
  match v with
  | PNone => false
  | PInt z => negb (Z.eqb z 0)
  | PStr s => match s with [] => false | _ => true end
  | PBool b => b
  | PObj => true
  end.

Definition is_none (v : pyval) : bool := match v with PNone => true | _ => false end.

(* kinds of the expressions that appear as guards, from the type annotations of barectf/config.py *)
Inductive vkind :=
| KInt          (* Optional[int]: every integer is meaningful, 0 included *)
| KStrNonEmpty  (* Optional[str] whose configured values are never empty (identifiers) *)
| KStrFree      (* Optional[str], any string; the empty string is read as "no text" (DESIGN 9) *)
| KObj          (* Optional[object]: configured <-> not None <-> truthy *)
| KUnknown.

Definition in_kind (k : vkind) (v : pyval) : bool :=
  match k, v with
  | _, PNone => true
  | KInt, PInt _ => true
  | KStrNonEmpty, PStr (_ :: _) => true
  | KStrFree, PStr _ => true
  | KObj, PObj => true
  | _, _ => false
  end.

(* last attribute of a dotted expression text: "ert.log_level" -> "log_level" *)
Fixpoint last_attr_aux (s acc : str) : str :=
  match s with
  | [] => acc
  | c :: t => if c =? 46 then last_attr_aux t [] else last_attr_aux t (acc ++ [c])
  end.
Definition last_attr (e : str) : str := last_attr_aux e [].

(* barectf/config.py: EventRecordType.log_level -> Optional[LogLevel] (NewType of int);
   ClockType.description -> Optional[str]; ClockType.uuid, _TraceType.uuid -> Optional[uuid.UUID];
   the *_field_type / *_ft properties -> Optional[<field type object>];
   UnsignedIntegerFieldType._mapped_clk_type_name -> Optional[str], a clock type name (identifier) *)
Definition kind_table : list (string * vkind) := [
  ("log_level", KInt);
  ("description", KStrFree);
  ("uuid", KObj);
  ("_mapped_clk_type_name", KStrNonEmpty);
  ("_pkt_header_ft", KObj);
  ("_er_header_ft", KObj);
  ("data_stream_type_id_field_type", KObj);
  ("event_record_common_context_field_type", KObj);
  ("specific_context_field_type", KObj);
  ("payload_field_type", KObj)
]%string.

Fixpoint kind_lookup (tb : list (string * vkind)) (a : str) : vkind :=
  match tb with
  | [] => KUnknown
  | (k, v) :: r => if str_eqb (s2l k) a then v else kind_lookup r a
  end.

Definition kind_of_expr (e : str) : vkind := kind_lookup kind_table (last_attr e).

(* the generator: a guard passes ... *)
Definition guard_passes (g : guard) (v : pyval) : bool :=
  match g with
  | GTruthy _ => truthy v
  | GIsNotNone _ => negb (is_none v)
  | GOther _ => false
  end.

(* ... and what the documentation asks: the attribute is stated iff it is configured.  The empty
   string of a KStrFree attribute counts as not configured (see the note at KStrFree). *)
Definition configured (k : vkind) (v : pyval) : bool :=
  match k, v with
  | _, PNone => false
  | KStrFree, PStr [] => false
  | _, _ => true
  end.

(* computable adequacy of one guard: decided on the kind of the guarded expression *)
Definition guard_expr (g : guard) : str :=
  match g with GTruthy e | GIsNotNone e | GOther e => e end.

Definition guard_ok (g : guard) : bool :=
  match g with
  | GTruthy e =>
      match kind_of_expr e with
      | KObj | KStrNonEmpty | KStrFree => true
      | KInt | KUnknown => false
      end
  | GIsNotNone e => match kind_of_expr e with KUnknown => false | _ => true end
  | GOther _ => false
  end.

Definition row_guards_ok (r : attr_row) : bool := forallb guard_ok (r_guards r).
Definition all_guards_ok (rows : list attr_row) : bool := forallb row_guards_ok rows.
Definition bad_rows (rows : list attr_row) : list attr_row := filter (fun r => negb (row_guards_ok r)) rows.

(* a counterexample value for an inadequate guard *)
Definition guard_witness (g : guard) : option pyval :=
  match g with
  | GTruthy e => match kind_of_expr e with KInt => Some (PInt 0) | _ => None end
  | _ => None
  end.

(* ---- string escaping discipline: a value written between double quotes must either go through
   escape_dq or be of a kind that cannot contain a quote, a backslash or a newline ---- *)
Definition quote_safe_values : list string :=
  ["{{ cfg.trace.type.uuid }}"; "{{ clk_type.uuid }}"; "{{ ert.name }}"]%string.

Definition quoted_value_ok (r : attr_row) : bool :=
  (negb (r_quoted r) || r_escaped r ||
   existsb (fun s => str_eqb (s2l """" ++ s2l s ++ s2l """") (r_value r)) quote_safe_values) &&
  (negb (r_name_quoted r) || r_name_escaped r).

Definition all_quoted_ok (rows : list attr_row) : bool := forallb quoted_value_ok rows.

(* ---- the attributes the property names: (block, attribute) must have a row ---- *)
Definition required_attrs : list (string * string) := [
  ("trace", "byte_order"); ("trace", "uuid");
  ("env", "<name>");
  ("clock", "name"); ("clock", "freq"); ("clock", "precision"); ("clock", "offset_s"); ("clock", "offset");
  ("clock", "absolute"); ("clock", "uuid"); ("clock", "description");
  ("event", "name"); ("event", "id"); ("event", "stream_id"); ("event", "loglevel");
  ("stream", "id");
  ("integer", "signed"); ("integer", "size"); ("integer", "align"); ("integer", "base"); ("integer", "map");
  ("enum", """<label | escape_dq>""")
]%string.

Definition has_row (rows : list attr_row) (p : string * string) : bool :=
  existsb (fun r => str_eqb (r_block r) (s2l (fst p)) && str_eqb (r_attr r) (s2l (snd p))) rows.

Definition all_required_present (rows : list attr_row) : bool := forallb (has_row rows) required_attrs.

(* ---- correspondence cases (harness/props/c15.py): (block, attribute, value given to the guarded
   expression, was the line emitted by the real generator) ---- *)
Definition emit_case_ok (rows : list attr_row) (c : str * str * pyval * bool) : bool :=
  match find (fun r => str_eqb (r_block r) (fst (fst (fst c))) && str_eqb (r_attr r) (snd (fst (fst c)))) rows with
  | Some r => Bool.eqb (forallb (fun g => guard_passes g (snd (fst c))) (r_guards r)) (snd c)
  | None => false
  end.
