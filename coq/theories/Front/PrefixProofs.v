(* Lemmas about the string operations of Front/Prefix.v. *)
From Coq Require Import List NArith Bool Lia.
Import ListNotations.
From BT.Front Require Import Prefix.
Open Scope N_scope.

Lemma str_eqb_true : forall a b, str_eqb a b = true -> a = b.
Proof.
  induction a as [|x a IH]; destruct b as [|y b]; cbn [str_eqb]; intro H; try congruence.
  apply andb_true_iff in H. destruct H as [H1 H2]. apply N.eqb_eq in H1. apply IH in H2. congruence.
Qed.

Lemma str_eqb_same : forall a, str_eqb a a = true.
Proof. induction a as [|x a IH]; cbn [str_eqb]; [reflexivity|]. rewrite N.eqb_refl. exact IH. Qed.

Lemma is_prefix_app : forall p t, is_prefix p (p ++ t) = true.
Proof. induction p as [|x p IH]; intro t; cbn [is_prefix app]; [reflexivity|]. rewrite N.eqb_refl. apply IH. Qed.

Lemma is_prefix_spec : forall p s, is_prefix p s = true <-> exists t, s = p ++ t.
Proof.
  induction p as [|x p IH]; intro s; cbn [is_prefix].
  - split; [intros _; exists s; reflexivity|reflexivity].
  - destruct s as [|y s].
    + split; [discriminate|intros [t Ht]; discriminate].
    + split.
      * intro H. apply andb_true_iff in H. destruct H as [H1 H2]. apply N.eqb_eq in H1. subst.
        apply IH in H2. destruct H2 as [t Ht]. exists t. cbn. congruence.
      * intros [t Ht]. cbn in Ht. inversion Ht; subst. rewrite N.eqb_refl. apply is_prefix_app.
Qed.

(* if two strings with heads p and q are equal, one head is a prefix of the other *)
Lemma app_eq_prefix_cases : forall p q t1 t2,
    p ++ t1 = q ++ t2 -> is_prefix p q = true \/ is_prefix q p = true.
Proof.
  induction p as [|x p IH]; intros q t1 t2 E.
  - left. reflexivity.
  - destruct q as [|y q]; [right; reflexivity|].
    cbn in E. inversion E; subst. cbn [is_prefix]. rewrite N.eqb_refl. cbn.
    apply (IH q t1 t2). assumption.
Qed.

(* rstrip: result is a prefix of the argument, the rest is only the stripped character, and the
   result does not end with it *)
Lemma rstrip_char_spec : forall c s,
    exists k, s = rstrip_char c s ++ repeat c k /\
              (forall r, rstrip_char c s = r ++ [c] -> False).
Proof.
  intros c. induction s as [|x t IH].
  - exists 0%nat. split; [reflexivity|]. intros r H. destruct r; discriminate.
  - destruct IH as [k [Hk Hend]]. cbn [rstrip_char].
    destruct (rstrip_char c t) as [|y r'] eqn:E.
    + destruct (x =? c) eqn:Exc.
      * apply N.eqb_eq in Exc. subst x. exists (S k). split.
        -- cbn. cbn in Hk. congruence.
        -- intros r H. destruct r; discriminate.
      * exists k. split.
        -- cbn. cbn in Hk. congruence.
        -- intros r H. destruct r as [|z r]; cbn in H.
           ++ inversion H; subst. rewrite N.eqb_refl in Exc. discriminate.
           ++ inversion H. destruct r; discriminate.
    + exists k. split.
      * cbn. cbn in Hk. congruence.
      * intros r H. destruct r as [|z r]; cbn in H; [discriminate|].
        inversion H; subst. apply (Hend r). assumption.
Qed.

Lemma rstrip_char_prefix : forall c s, is_prefix (rstrip_char c s) s = true.
Proof.
  intros c s. destruct (rstrip_char_spec c s) as [k [Hk _]].
  apply is_prefix_spec. exists (repeat c k). exact Hk.
Qed.
