(* A JSON Schema Draft-7 validator for the keyword subset barectf's schemas use, modelled on
   python-jsonschema 3.2.0 (the `Draft7Validator` barectf instantiates, with barectf's type checker: `integer` is a
   Python int, neither a bool nor a float - since /repo 0067f84).

   * A schema is [SBool b], a reference [SRef key] (python-jsonschema ignores every sibling of
     `$ref`), a keyword list [SKws] in the order of the YAML mapping (the order in which
     python-jsonschema evaluates them), or [SBad]: a non-schema value (for instance a list) where
     a schema is expected (python-jsonschema raises AttributeError when it reaches one).
   * `$ref`s are resolved by the translator (tools/yaml2coq.py) to keys of a flat store
     "<schema short id>#<json pointer>"; a key absent from the store is an unresolvable
     reference (python: RefResolutionError / RuntimeError).
   * Result: [Valid] | [Invalid] | [OutOfFuel] | [Stuck] (python raises something that is not a
     ValidationError).  Evaluation is "first error wins", left to right, like
     `Draft7Validator.validate`: an [Invalid] keyword hides a later [Stuck] one.
     (python's anyOf/oneOf evaluate a failing branch completely; this can only differ from the
     model when a branch can reach [SBad]/an unresolvable reference, which the translator
     excludes - it fails closed on such a schema.)
   * The regular expressions that occur are Gallina predicates ([pat]); `re.search` semantics,
     including `$` matching before a final newline.
   * Every descent into a sub-schema costs one unit of fuel. *)
From Coq Require Import List String ZArith Bool Ascii Arith.
Import ListNotations.
From BT.Front Require Import Json.
Open Scope string_scope.

Inductive jtype := TNull | TBool | TInt | TNum | TStr | TArr | TObj.

Inductive pat :=
| PAny     (* '.*' *)
| PEmpty   (* ''   *)
| PIdent   (* '^[A-Za-z_][A-Za-z0-9_]*$' *)
| PUuid    (* '^[0-9a-f]{8}-[0-9a-f]{4}-[0-9a-f]{4}-[0-9a-f]{4}-[0-9a-f]{12}$' *).

Inductive schema :=
| SBool (b : bool)
| SRef (key : string)
| SKws (kws : list kw)
| SBad
with kw :=
| KType (ts : list jtype)
| KEnum (vs : list json)
| KConst (c : json)
| KProperties (ps : list (string * schema))
| KPatternProperties (ps : list (pat * schema))
| KAdditionalProperties (props : list string) (pats : list pat) (s : schema)
| KRequired (ks : list string)
| KDependencies (ds : list (string * list string))
| KMinProperties (n : nat)
| KMaxProperties (n : nat)
| KItems (s : schema)
| KMinItems (n : nat)
| KMaxItems (n : nat)
| KMinimum (z : Z)
| KMaximum (z : Z)
| KPattern (p : pat)
| KAllOf (ss : list schema)
| KAnyOf (ss : list schema)
| KOneOf (ss : list schema)
| KNot (s : schema)
| KIf (c : schema) (t e : option schema).

Inductive res := Valid | Invalid | OutOfFuel | Stuck.

Definition res_eqb (a b : res) : bool :=
  match a, b with
  | Valid, Valid | Invalid, Invalid | OutOfFuel, OutOfFuel | Stuck, Stuck => true
  | _, _ => false
  end.

(* ---------------------------------------------------------------- types *)

Definition has_type (j : json) (t : jtype) : bool :=
  match t, j with
  | TNull, JNull => true
  | TBool, JBool _ => true
  | TInt, JInt _ => true
  | TNum, JInt _ => true
  | TNum, JFloat _ => true
  | TStr, JStr _ => true
  | TArr, JArr _ => true
  | TObj, JObj _ => true
  | _, _ => false
  end.
Definition has_type_in (j : json) (ts : list jtype) : bool := existsb (has_type j) ts.
Definition enum_mem (j : json) (vs : list json) : bool := existsb (jeq j) vs.

(* ---------------------------------------------------------------- patterns *)

Definition between (lo hi : nat) (c : ascii) : bool :=
  let n := nat_of_ascii c in (lo <=? n)%nat && (n <=? hi)%nat.
Definition is_ident_start (c : ascii) : bool :=
  between 65 90 c || between 97 122 c || (nat_of_ascii c =? 95)%nat.
Definition is_ident_char (c : ascii) : bool := is_ident_start c || between 48 57 c.
Definition is_lhex (c : ascii) : bool := between 48 57 c || between 97 102 c.
Definition is_nl (c : ascii) : bool := (nat_of_ascii c =? 10)%nat.
Definition is_dash (c : ascii) : bool := (nat_of_ascii c =? 45)%nat.

(* the rest of the string is  [chars satisfying f]*  followed by the end or by one final newline *)
Fixpoint star_then_end (f : ascii -> bool) (s : string) : bool :=
  match s with
  | EmptyString => true
  | String c s' =>
      (f c && star_then_end f s') ||
      (is_nl c && match s' with EmptyString => true | _ => false end)
  end.
Definition match_ident (s : string) : bool :=
  match s with
  | EmptyString => false
  | String c s' => is_ident_start c && star_then_end is_ident_char s'
  end.

(* exactly n characters satisfying f, then the continuation *)
Fixpoint take_n (f : ascii -> bool) (n : nat) (s : string) : option string :=
  match n with
  | O => Some s
  | S n => match s with String c s' => if f c then take_n f n s' else None | EmptyString => None end
  end.
Definition bind_s (o : option string) (k : string -> option string) : option string :=
  match o with Some s => k s | None => None end.
Definition match_uuid (s : string) : bool :=
  let dash := take_n is_dash 1 in
  match bind_s (take_n is_lhex 8 s) (fun s =>
        bind_s (dash s) (fun s => bind_s (take_n is_lhex 4 s) (fun s =>
        bind_s (dash s) (fun s => bind_s (take_n is_lhex 4 s) (fun s =>
        bind_s (dash s) (fun s => bind_s (take_n is_lhex 4 s) (fun s =>
        bind_s (dash s) (fun s => take_n is_lhex 12 s)))))))) with
  | Some EmptyString => true
  | Some (String c EmptyString) => is_nl c
  | _ => false
  end.

(* re.search(p, s) is not None *)
Definition pat_match (p : pat) (s : string) : bool :=
  match p with
  | PAny => true
  | PEmpty => true
  | PIdent => match_ident s
  | PUuid => match_uuid s
  end.

(* python-jsonschema's find_additional_properties joins the patterns with "|" and skips the
   regular-expression test altogether when the joined string is empty *)
Definition pat_src_empty (p : pat) : bool := match p with PEmpty => true | _ => false end.
Definition joined_nonempty (ps : list pat) : bool :=
  match ps with
  | [] => false
  | [p] => negb (pat_src_empty p)
  | _ => true
  end.
Definition is_extra (props : list string) (pats : list pat) (k : string) : bool :=
  negb (mem_str k props) && negb (joined_nonempty pats && existsb (fun p => pat_match p k) pats).

(* ---------------------------------------------------------------- numbers *)

Definition num_ge (j : json) (z : Z) : bool :=   (* no `minimum z` error on j *)
  match j with JInt x => Z.leb z x | JFloat f => float_ge f z | _ => true end.
Definition num_le (j : json) (z : Z) : bool :=   (* no `maximum z` error on j *)
  match j with JInt x => Z.leb x z | JFloat f => float_le f z | _ => true end.

(* ---------------------------------------------------------------- evaluation *)

Definition of_bool (b : bool) : res := if b then Valid else Invalid.
Definition seq (a b : res) : res := match a with Valid => b | _ => a end.
Fixpoint all_seq {A} (f : A -> res) (l : list A) : res :=
  match l with [] => Valid | x :: l => seq (f x) (all_seq f l) end.

(* anyOf: the first valid branch wins; Stuck / OutOfFuel of a branch reached before it propagate *)
Fixpoint any_of {A} (f : A -> res) (l : list A) : res :=
  match l with
  | [] => Invalid
  | x :: l => match f x with Valid => Valid | Invalid => any_of f l | r => r end
  end.
(* oneOf, after a first valid branch: [Valid] iff no other branch is valid (all are evaluated) *)
Fixpoint none_of {A} (f : A -> res) (l : list A) : res :=
  match l with
  | [] => Valid
  | x :: l => match f x with
              | Valid => match none_of f l with Valid | Invalid => Invalid | r => r end
              | Invalid => none_of f l
              | r => r
              end
  end.
Fixpoint one_of {A} (f : A -> res) (l : list A) : res :=
  match l with
  | [] => Invalid
  | x :: l => match f x with Valid => none_of f l | Invalid => one_of f l | r => r end
  end.
Definition negate (r : res) : res := match r with Valid => Invalid | Invalid => Valid | r => r end.

Fixpoint slookup (k : string) (st : list (string * schema)) : option schema :=
  match st with
  | [] => None
  | (k', s) :: st => if String.eqb k k' then Some s else slookup k st
  end.

Section Body.
  Variable store : list (string * schema).
  Variable v : schema -> json -> res.   (* the validator with one unit of fuel less *)

  Definition v_opt (o : option schema) (j : json) : res :=
    match o with Some s => v s j | None => Valid end.

  Definition kw_eval (k : kw) (j : json) : res :=
    match k with
    | KType ts => of_bool (has_type_in j ts)
    | KEnum vs => of_bool (enum_mem j vs)
    | KConst c => of_bool (jeq j c)
    | KProperties ps =>
        match j with
        | JObj m => all_seq (fun ks => match lookup (fst ks) m with
                                       | Some x => v (snd ks) x | None => Valid end) ps
        | _ => Valid
        end
    | KPatternProperties ps =>
        match j with
        | JObj m => all_seq (fun ps' => all_seq (fun kx => if pat_match (fst ps') (fst kx)
                                                         then v (snd ps') (snd kx) else Valid) m) ps
        | _ => Valid
        end
    | KAdditionalProperties props pats s =>
        match j with
        | JObj m => all_seq (fun kx => if is_extra props pats (fst kx) then v s (snd kx) else Valid) m
        | _ => Valid
        end
    | KRequired ks =>
        match j with JObj m => of_bool (forallb (fun k => has_key k m) ks) | _ => Valid end
    | KDependencies ds =>
        match j with
        | JObj m => of_bool (forallb (fun d => negb (has_key (fst d) m) ||
                                               forallb (fun k => has_key k m) (snd d)) ds)
        | _ => Valid
        end
    | KMinProperties n => match j with JObj m => of_bool (n <=? List.length m)%nat | _ => Valid end
    | KMaxProperties n => match j with JObj m => of_bool (List.length m <=? n)%nat | _ => Valid end
    | KItems s => match j with JArr l => all_seq (v s) l | _ => Valid end
    | KMinItems n => match j with JArr l => of_bool (n <=? List.length l)%nat | _ => Valid end
    | KMaxItems n => match j with JArr l => of_bool (List.length l <=? n)%nat | _ => Valid end
    | KMinimum z => of_bool (num_ge j z)
    | KMaximum z => of_bool (num_le j z)
    | KPattern p => match j with JStr s => of_bool (pat_match p s) | _ => Valid end
    | KAllOf ss => all_seq (fun s => v s j) ss
    | KAnyOf ss => any_of (fun s => v s j) ss
    | KOneOf ss => one_of (fun s => v s j) ss
    | KNot s => negate (v s j)
    | KIf c t e =>
        match v c j with
        | Valid => v_opt t j
        | Invalid => v_opt e j
        | r => r
        end
    end.

  Definition body (s : schema) (j : json) : res :=
    match s with
    | SBool b => of_bool b
    | SBad => Stuck
    | SRef key => match slookup key store with Some t => v t j | None => Stuck end
    | SKws ks => all_seq (fun k => kw_eval k j) ks
    end.
End Body.

Fixpoint validate (store : list (string * schema)) (fuel : nat) (s : schema) (j : json) : res :=
  match fuel with
  | O => OutOfFuel
  | S f => body store (validate store f) s j
  end.

(* validation of an instance against the store entry [key] (what `_SchemaValidator.validate`
   does for a schema short id, or for a definition of a schema file) *)
Definition validate_key (store : list (string * schema)) (fuel : nat) (key : string) (j : json) : res :=
  validate store fuel (SRef key) j.

(* ---------------------------------------------------------------- correspondence cases *)
(* (store key, instance, verdict of python-jsonschema: 0 valid, 1 ValidationError,
   3 another exception) *)
Definition res_code (r : res) : nat :=
  match r with Valid => 0 | Invalid => 1 | OutOfFuel => 2 | Stuck => 3 end.
Definition js_case := (string * json * nat)%type.
Definition js_case_ok (store : list (string * schema)) (fuel : nat) (c : js_case) : bool :=
  match c with (key, j, code) => (res_code (validate_key store fuel key j) =? code)%nat end.
Fixpoint failing {A} (f : A -> bool) (i : nat) (l : list A) : list nat :=
  match l with [] => [] | x :: l => if f x then failing f (S i) l else i :: failing f (S i) l end.
