(* C11 — navigation combinators for the barectf 3 configuration tree and the model of
   config_parse_v3._Parser._sub_log_level_aliases.

   Python: the `config/3/config-pre-log-level-alias-sub` schema is validated first (here: its
   necessary condition `pre_ll_ok`); then
       aliases = trace_type.get('$log-level-aliases'); del trace_type['$log-level-aliases'] (if present)
       if aliases is None: return
       for each data stream type, each event record type:
           ll = ert.get('log-level'); None -> continue
           a string -> must be a key of aliases (else _ConfigurationParseError), replaced by aliases[ll]
   No proof here. *)
From Coq Require Import List String ZArith Bool.
Import ListNotations.
From BT.Front Require Import Yaml YamlRes.
Open Scope string_scope.
Open Scope list_scope.

(* ------------------------------------------------------------------ navigation *)
(* node[k] = f(node[k]) when k is present (position kept) *)
Definition at_key (k : string) (f : yaml -> res yaml) (nl : entries) : res entries :=
  match lookup k nl with
  | None => Ok nl
  | Some v => rbind (f v) (fun v' => Ok (set k v' nl))
  end.

(* `for key, value in node.items(): node[key] = f(value)`; a non-mapping has no .items() *)
Definition each_value (f : yaml -> res yaml) (y : yaml) : res yaml :=
  match y with
  | YMap el => rbind (rmapM (fun kv => rbind (f (snd kv)) (fun v => Ok (fst kv, v))) el) (fun el' => Ok (YMap el'))
  | _ => Crash
  end.

Definition on_map (f : entries -> res entries) (y : yaml) : res yaml :=
  match y with
  | YMap l => rbind (f l) (fun l' => Ok (YMap l'))
  | _ => Crash
  end.

(* the trace type node of a configuration node: config_node['trace']['type'] *)
Definition trace_type_of (root : yaml) : option entries :=
  match ylookup "trace" root with
  | Some (YMap tl) => match lookup "type" tl with Some (YMap ttl) => Some ttl | _ => None end
  | _ => None
  end.

(* rewrite the trace type entries in place *)
Definition on_trace_type (f : entries -> res entries) (root : yaml) : res yaml :=
  on_map (at_key "trace" (on_map (at_key "type" (on_map f)))) root.

(* the part common to the three whole-document stage schemas (pre-field-type-expansion,
   pre-log-level-alias-sub, config): root, trace, type objects; data-stream-types an object of
   objects, each with event-record-types an object of objects *)
Definition is_map (y : yaml) : bool := match y with YMap _ => true | _ => false end.

Definition ert_map_ok (dst : yaml) : bool :=
  match ylookup "event-record-types" dst with
  | Some (YMap el) => forallb (fun kv => is_map (snd kv)) el
  | _ => false
  end.

Definition skeleton_ok (root : yaml) : bool :=
  match trace_type_of root with
  | Some ttl =>
      match lookup "data-stream-types" ttl with
      | Some (YMap dl) => forallb (fun kv => is_map (snd kv) && ert_map_ok (snd kv)) dl
      | _ => false
      end
  | None => false
  end.

(* ------------------------------------------------------------------ log level aliases *)
(* opt-log-level-or-alias-prop: integer (>= 0; Draft 7 counts 1.0 as an integer) | string | null *)
Definition ll_prop_ok (ert : yaml) : bool :=
  match ylookup "log-level" ert with
  | None | Some YNull | Some (YInt _) | Some (YFloat _) | Some (YStr _) => true
  | Some _ => false
  end.

Definition pre_ll_ok (root : yaml) : bool :=
  skeleton_ok root &&
  match trace_type_of root with
  | Some ttl =>
      match lookup "$log-level-aliases" ttl with
      | None | Some YNull | Some (YMap _) => true
      | Some _ => false
      end &&
      match lookup "data-stream-types" ttl with
      | Some (YMap dl) =>
          forallb (fun kv => match ylookup "event-record-types" (snd kv) with
                             | Some (YMap el) => forallb (fun kv' => ll_prop_ok (snd kv')) el
                             | _ => false
                             end) dl
      | _ => false
      end
  | None => false
  end.

Definition sub_ll_ert (aliases : entries) (ert : yaml) : res yaml :=
  match ert with
  | YMap el =>
      match lookup "log-level" el with
      | Some (YStr a) =>
          match lookup a aliases with
          | Some v => Ok (YMap (set "log-level" v el))
          | None => CfgErr "log level alias does not exist"
          end
      | _ => Ok ert
      end
  | _ => Crash
  end.

Definition sub_ll_tt (ttl : entries) : res entries :=
  let ttl1 := match lookup "$log-level-aliases" ttl with Some _ => remove "$log-level-aliases" ttl | None => ttl end in
  match lookup "$log-level-aliases" ttl with
  | None | Some YNull => Ok ttl1
  | Some (YMap aliases) =>
      match lookup "data-stream-types" ttl1 with
      | None => Crash
      | Some dsts =>
          rbind (each_value (on_map (fun dl =>
                   match lookup "event-record-types" dl with
                   | None => Crash
                   | Some erts => rbind (each_value (sub_ll_ert aliases) erts)
                                        (fun erts' => Ok (set "event-record-types" erts' dl))
                   end)) dsts)
                (fun dsts' => Ok (set "data-stream-types" dsts' ttl1))
      end
  | Some _ => Crash
  end.

Definition sub_log_level_aliases (root : yaml) : res yaml :=
  if pre_ll_ok root then on_trace_type sub_ll_tt root
  else CfgErr "schema: config-pre-log-level-alias-sub".
