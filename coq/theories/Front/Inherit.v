(* C12 — model of _Parser._apply_ft_inheritance (config_parse_common.py).
   Input: a field type node in which every alias has been expanded (the value of `$inherit` is
   then a mapping).  Structural recursion: no fuel, total by construction. *)
From Coq Require Import List String ZArith Bool.
Import ListNotations.
From BT.Front Require Import Yaml YamlRes Patch Alias.
Open Scope string_scope.
Open Scope list_scope.

Definition rmap_entries (sel : string -> bool) (f : yaml -> res yaml) (nl : entries) : res entries :=
  rmapM (fun kv => if sel (fst kv) then rbind (f (snd kv)) (fun v => Ok (fst kv, v)) else Ok kv) nl.

Fixpoint apply_inherit (v3 : bool) (node : yaml) {struct node} : res yaml :=
  match node with
  | YMap nl =>
      (* process children first: the five field type properties ... *)
      rbind (rmapM (fun kv => if mem (fst kv) ft_prop_names
                              then rbind (apply_inherit v3 (snd kv)) (fun v => Ok (fst kv, v))
                              else
                              (* ... and the structure members *)
                              if String.eqb (fst kv) (members_prop v3) then
                                match snd kv, v3 with
                                | YSeq ms, true =>
                                    rbind (rmapM (fun m =>
                                      match m with
                                      | YMap ((name, val) :: rest) =>
                                          match val with
                                          | YMap vl =>
                                              rbind (rmapM (fun kv' => if String.eqb "field-type" (fst kv')
                                                                       then rbind (apply_inherit v3 (snd kv')) (fun v => Ok (fst kv', v))
                                                                       else Ok kv') vl)
                                                    (fun vl' => Ok (YMap ((name, YMap vl') :: rest)))
                                          | _ => rbind (apply_inherit v3 val) (fun v => Ok (YMap ((name, v) :: rest)))
                                          end
                                      | _ => Crash
                                      end) ms) (fun ms' => Ok (fst kv, YSeq ms'))
                                | YMap fl, false =>
                                    rbind (rmapM (fun kv' => rbind (apply_inherit v3 (snd kv')) (fun v => Ok (fst kv', v))) fl)
                                          (fun fl' => Ok (fst kv, YMap fl'))
                                | _, _ => Crash
                                end
                              else Ok kv) nl)
      (fun nl1 =>
      (* barectf 2.1: `inherit` was renamed `$inherit` (moved to the end of the mapping) *)
      let nl2 := match lookup "inherit" nl1 with
                 | Some b => remove "inherit" nl1 ++ [("$inherit", b)]
                 | None => nl1
                 end in
      if (match lookup "inherit" nl1, lookup "$inherit" nl1 with Some _, Some _ => true | _, _ => false end)
      then Crash                                   (* assert '$inherit' not in node *)
      else
      match lookup "$inherit" nl2 with
      | None => Ok (YMap nl2)
      | Some (YMap bl) => of_option (update v3 (YMap bl) (YMap (remove "$inherit" nl2)))
      | Some _ => Crash                            (* assert type(node[inherit_key]) is OrderedDict *)
      end)
  | YSeq _ => Crash
  | other => Ok other      (* None: returns; a string / bool / int: no `in` test succeeds *)
  end.

(* ------------------------------------------------------------------ correspondence cases *)
(* (v3, node with aliases expanded, what the real code left at the position | None = it raised) *)
Definition inherit_case : Type := (bool * yaml * option yaml)%type.

Definition inherit_case_ok (c : inherit_case) : bool :=
  match c with (v3, node, expected) =>
    match apply_inherit v3 node, expected with
    | Ok r, Some e => yaml_eqb r e
    | Crash, None => true
    | _, _ => false
    end
  end.
