(* C14: field types as the C code generator sees them, C parameter types, and the DOCUMENTED
   mapping (docs/modules/yaml/pages/ft-obj.adoc, "Generated C types").
   Gen/PyFuns.v holds the translation of barectf/cgen.py _CodeGen._ft_c_type over these types.
   Model only; proofs in CTypesProofs.v. *)
From Coq Require Import List NArith Bool String.
Import ListNotations.
From BT.Front Require Import Prefix.
Open Scope N_scope.

(* field types that can be a member of a root structure (directly or as array element) *)
Inductive ft :=
| FInt (signed : bool) (size align : N)      (* UnsignedIntegerFieldType / SignedIntegerFieldType *)
| FEnum (signed : bool) (size align : N)     (* Unsigned/SignedEnumerationFieldType *)
| FReal (size align : N)                     (* RealFieldType *)
| FStr                                       (* StringFieldType *)
| FSArr (len : N) (elt : ft)                 (* StaticArrayFieldType *)
| FDArr (elt : ft).                          (* DynamicArrayFieldType *)

(* concrete classes of barectf/config.py *)
Inductive ftclass := CUInt | CSInt | CUEnum | CSEnum | CReal | CStr | CSArr | CDArr.

Definition ft_class (t : ft) : ftclass :=
  match t with
  | FInt false _ _ => CUInt | FInt true _ _ => CSInt
  | FEnum false _ _ => CUEnum | FEnum true _ _ => CSEnum
  | FReal _ _ => CReal | FStr => CStr | FSArr _ _ => CSArr | FDArr _ => CDArr
  end.

Definition ftclass_eqb (a b : ftclass) : bool :=
  match a, b with
  | CUInt, CUInt | CSInt, CSInt | CUEnum, CUEnum | CSEnum, CSEnum
  | CReal, CReal | CStr, CStr | CSArr, CSArr | CDArr, CDArr => true
  | _, _ => false
  end.

(* isinstance(t, C) / type(t) is C, with C given as the list of concrete classes it covers *)
Definition ft_class_in (t : ft) (cs : list ftclass) : bool := existsb (ftclass_eqb (ft_class t)) cs.

(* attribute access; an attribute a class does not have is a Python AttributeError: None *)
Definition ft_size (t : ft) : option N :=
  match t with FInt _ s _ | FEnum _ s _ | FReal s _ => Some s | _ => None end.

Fixpoint ft_alignment (t : ft) : N :=
  match t with
  | FInt _ _ a | FEnum _ _ a | FReal _ a => a
  | FStr => 8
  | FSArr _ e | FDArr e => ft_alignment e
  end.

Definition ft_elem (t : ft) : option ft :=
  match t with FSArr _ e | FDArr e => Some e | _ => None end.

Fixpoint ft_depth (t : ft) : nat :=
  match t with FSArr _ e | FDArr e => S (ft_depth e) | _ => 1%nat end.

(* C types of parameters: cgen._ArithCType / _PointerCType *)
Inductive ctype :=
| CArith (name : str) (const : bool)
| CPtr (pointee : ctype) (const : bool).

Fixpoint ctype_eqb (a b : ctype) : bool :=
  match a, b with
  | CArith n c, CArith n' c' => str_eqb n n' && Bool.eqb c c'
  | CPtr p c, CPtr p' c' => ctype_eqb p p' && Bool.eqb c c'
  | _, _ => false
  end.

(* str(c_type): cgen._ArithCType.__str__ / _PointerCType.__str__ as documented prototypes print *)
Fixpoint ctype_str (c : ctype) : str :=
  match c with
  | CArith n k => (if k then s2l "const " else []) ++ n
  | CPtr p k =>
      let s := ctype_str p in
      (if ends_with s (s2l "*") then s else s ++ s2l " ") ++ s2l "*" ++ (if k then s2l " const" else [])
  end.

(* well-formed field types = what the configuration front end can build (sizes 1..64, real sizes
   32 / 64, alignments are powers of two -- only positivity matters here) *)
Fixpoint wf_ft (t : ft) : bool :=
  match t with
  | FInt _ s a | FEnum _ s a => (1 <=? s) && (s <=? 64) && (1 <=? a)
  | FReal s a => ((s =? 32) || (s =? 64)) && (1 <=? a)
  | FStr => true
  | FSArr _ e | FDArr e => wf_ft e
  end.

(* ---- the documented table ---- *)
Definition doc_int_bits (s : N) : N :=
  if s <=? 8 then 8 else if s <=? 16 then 16 else if s <=? 32 then 32 else 64.

Definition doc_int_name (signed : bool) (s : N) : str :=
  (if signed then [] else s2l "u") ++ s2l "int" ++ dec (doc_int_bits s) ++ s2l "_t".

(* [const_top]: whether the parameter itself is const-qualified (the generator passes
   const_params; the documentation prints prototypes without it) *)
Fixpoint doc_c_type (t : ft) (const_top : bool) : ctype :=
  match t with
  | FInt sg s _ | FEnum sg s _ => CArith (doc_int_name sg s) const_top
  | FReal s _ => CArith (if s =? 32 then s2l "float" else s2l "double") const_top
  | FStr => CPtr (CArith (s2l "char") true) const_top
  | FSArr _ e | FDArr e => CPtr (doc_c_type e true) const_top      (* pointer to const T *)
  end.

(* no real field type whose alignment differs from its size anywhere in the type *)
Fixpoint reals_naturally_aligned (t : ft) : bool :=
  match t with
  | FReal s a => s =? a
  | FSArr _ e | FDArr e => reals_naturally_aligned e
  | _ => true
  end.

(* cgen._loop_var_name as documented by its comment: i, j, k, k1, k2, ... *)
Definition doc_loop_var_name (level : N) : str :=
  match level with
  | 0 => s2l "i" | 1 => s2l "j" | 2 => s2l "k"
  | _ => s2l "k" ++ dec (level - 2)
  end.
