(* Per-definition theorems on the REGENERATED barectf 3 schema store (Gen/Schemas3.v):
   "valid against definition D  ->  documented shape of DocValid.v".
   Each proof computes the denotation of the concrete definition (JsonSchemaLemmas.den, sound
   once and for all) and finishes with first-order reasoning.  If a schema file changes, the
   affected lemma stops compiling: that is the signal the check reports. *)
From Coq Require Import List String ZArith Bool Lia.
Import ListNotations.
From BT.Front Require Import Json JsonSchema JsonSchemaLemmas DocValid.
From BT.Gen Require Schemas3.
Open Scope string_scope.

Definition S3 := Schemas3.store.
Definition store3_lit := Eval cbv delta [Schemas3.store] in Schemas3.store.
Definition lk3 (k : string) : option schema := slookup k store3_lit.
Lemma lk3_ok k : lk3 k = slookup k S3.
Proof. reflexivity. Qed.

(* valid against the store entry [key] *)
Definition VK (key : string) (j : json) : Prop := V S3 (SRef key) j.

(* inline exactly the references listed *)
Definition unf_in (l : list string) (k : string) : bool := mem_str k l.

Ltac denote_in H unf d :=
  apply (den_V S3 lk3 lk3_ok unf d) in H;
  cbv -[S3 V NV lookup has_key has_type_in jeq num_ge num_le pat_match is_extra In List.length
        enum_mem Z.le Z.lt lt not] in H.
Ltac ndenote_in H unf d :=
  apply (den_NV S3 lk3 lk3_ok unf d) in H;
  cbv -[S3 V NV lookup has_key has_type_in jeq num_ge num_le pat_match is_extra In List.length
        enum_mem Z.le Z.lt lt not] in H.

(* ---------------------------------------------------------------- tactics *)

Ltac flat :=
  repeat match goal with
  | H : _ /\ _ |- _ => destruct H
  | H : True |- _ => clear H
  | H : False |- _ => contradiction
  | H : _ \/ False |- _ => destruct H as [H|[]]
  | H : exists _, _ |- _ => destruct H
  | H : true = false |- _ => discriminate H
  | H : false = true |- _ => discriminate H
  end.
(* instantiate the "forall m, j = JObj m -> ..." facts once j is known *)
Ltac inst :=
  repeat match goal with
  | H : forall m, JObj ?m0 = JObj m -> _ |- _ => specialize (H m0 eq_refl)
  | H : forall l, JArr ?l0 = JArr l -> _ |- _ => specialize (H l0 eq_refl)
  | H : forall s, JStr ?s0 = JStr s -> _ |- _ => specialize (H s0 eq_refl)
  | H : forall m, ?c = JObj m -> _ |- _ =>
      match c with JObj _ => fail 1 | _ => first [is_var c; fail 1 | clear H] end
  | H : forall l, ?c = JArr l -> _ |- _ =>
      match c with JArr _ => fail 1 | _ => first [is_var c; fail 1 | clear H] end
  | H : forall s, ?c = JStr s -> _ |- _ =>
      match c with JStr _ => fail 1 | _ => first [is_var c; fail 1 | clear H] end
  end.
Ltac tysimp := cbv [has_type_in has_type existsb orb] in *.
(* case analysis on the type of an instance variable that carries a type fact *)
Ltac bytype :=
  repeat match goal with
  | H : has_type_in ?x _ = _ |- _ => is_var x; destruct x; tysimp; flat; inst
  | x : jfloat |- _ => destruct x
  end.
Ltac cases :=
  repeat match goal with
  | H : _ \/ _ |- _ => destruct H; flat
  end.
Ltac norm := repeat (progress (flat; cases; flat; bytype; flat; inst; flat)).

(* ---------------------------------------------------------------- instance-side lemmas *)

Lemma as_int_of_type x : has_type_in x [TInt] = true -> exists z, as_int x = Some z.
Proof.
  destruct x; simpl; try discriminate; eauto. destruct f; simpl; try discriminate.
  destruct (Z.eqb (num mod Z.pos den) 0); [eauto|discriminate].
Qed.
Lemma num_ge_as_int x z lo : as_int x = Some z -> num_ge x lo = true -> (lo <= z)%Z.
Proof.
  destruct x; simpl; try discriminate.
  - intros [= ->] H. apply Z.leb_le; exact H.
  - destruct f; simpl; try discriminate. destruct (Z.eqb (num mod Z.pos den) 0) eqn:E; [|discriminate].
    intros [= <-] H. apply Z.leb_le in H. apply Z.eqb_eq in E.
    apply Z.div_le_lower_bound; lia.
Qed.
Lemma num_le_as_int x z hi : as_int x = Some z -> num_le x hi = true -> (z <= hi)%Z.
Proof.
  destruct x; simpl; try discriminate.
  - intros [= ->] H. apply Z.leb_le; exact H.
  - destruct f; simpl; try discriminate. destruct (Z.eqb (num mod Z.pos den) 0) eqn:E; [|discriminate].
    intros [= <-] H. apply Z.leb_le in H. apply Z.eqb_eq in E.
    apply Z.div_le_upper_bound; lia.
Qed.
Lemma int_val_ge x lo : has_type_in x [TInt] = true -> num_ge x lo = true -> int_val lo None x.
Proof.
  intros T G. destruct (as_int_of_type x T) as [z E]. exists z. repeat split; auto.
  eapply num_ge_as_int; eauto.
Qed.
Lemma int_val_range x lo hi :
  has_type_in x [TInt] = true -> num_ge x lo = true -> num_le x hi = true -> int_val lo (Some hi) x.
Proof.
  intros T G L. destruct (as_int_of_type x T) as [z E]. exists z. repeat split; auto.
  - eapply num_ge_as_int; eauto.
  - eapply num_le_as_int; eauto.
Qed.

Fixpoint strs_of (vs : list json) : list string :=
  match vs with [] => [] | JStr s :: vs => s :: strs_of vs | _ :: vs => strs_of vs end.
Lemma enum_mem_str s vs : enum_mem (JStr s) vs = true -> In s (strs_of vs).
Proof.
  unfold enum_mem. induction vs as [|v vs IH]; simpl; [discriminate|].
  destruct v; simpl; auto. destruct (String.eqb s s0) eqn:E; simpl.
  - apply String.eqb_eq in E. subst. auto.
  - auto.
Qed.
Lemma enum_mem_str_false s vs : enum_mem (JStr s) vs = false -> ~ In s (strs_of vs).
Proof.
  unfold enum_mem. induction vs as [|v vs IH]; simpl; [auto|].
  destruct v; simpl; auto. destruct (String.eqb s s0) eqn:E; simpl; [discriminate|].
  intros H [->|Hin]; [rewrite String.eqb_refl in E; discriminate|]. exact (IH H Hin).
Qed.
Lemma str_in_of_enum x vs :
  has_type_in x [TStr] = true -> enum_mem x vs = true -> str_in (strs_of vs) x.
Proof. intros T E. destruct x; try discriminate. exists s. split; auto. apply enum_mem_str; auto. Qed.

Lemma only_keys_of_extra m ks :
  (forall k x, In (k, x) m -> is_extra ks [] k = true -> False) -> only_keys m ks.
Proof.
  intros H k x Hin. apply mem_str_In. destruct (mem_str k ks) eqn:E; [reflexivity|].
  exfalso. apply (H k x Hin). rewrite is_extra_no_pats, E. reflexivity.
Qed.

(* identifiers: what the anchored pattern accepts under re.search *)
Lemma star_then_end_spec f s :
  star_then_end f s = true ->
  all_chars f s = true \/
  exists s', s = (s' ++ String (Ascii.ascii_of_nat 10) EmptyString)%string /\ all_chars f s' = true.
Proof.
  induction s as [|c s IH]; simpl; [auto|].
  intros H. apply orb_true_iff in H. destruct H as [H|H].
  - apply andb_true_iff in H. destruct H as [Hc Hs]. destruct (IH Hs) as [A|(s' & -> & A)].
    + left. rewrite Hc, A. reflexivity.
    + right. exists (String c s'). simpl. rewrite Hc, A. auto.
  - apply andb_true_iff in H. destruct H as [Hc Hs]. destruct s; [|discriminate].
    right. exists EmptyString. simpl. split; [|reflexivity].
    unfold is_nl in Hc. apply Nat.eqb_eq in Hc. rewrite <- Hc, Ascii.ascii_nat_embedding. reflexivity.
Qed.
Lemma match_ident_spec s : match_ident s = true -> ident_or_nl s.
Proof.
  destruct s as [|c s]; simpl; [discriminate|]. intros H. apply andb_true_iff in H. destruct H as [Hc Hs].
  destruct (star_then_end_spec _ _ Hs) as [A|(s' & -> & A)].
  - left. simpl. rewrite Hc, A. reflexivity.
  - right. exists (String c s'). simpl. rewrite Hc, A. auto.
Qed.

Lemma nonempty_of_length {A} (l : list A) : 1 <= List.length l -> l <> [].
Proof. destruct l; simpl; [lia|discriminate]. Qed.

(* ---------------------------------------------------------------- common definitions *)

Notation K_opt_bool := "config/common/common#/definitions/opt-bool".
Notation K_opt_string := "config/common/common#/definitions/opt-string".
Notation K_opt_int_min_0 := "config/common/common#/definitions/opt-int-min-0".
Notation K_opt_int_min_1 := "config/common/common#/definitions/opt-int-min-1".
Notation K_byte_order := "config/common/common#/definitions/byte-order-prop".
Notation K_int_size := "config/common/common#/definitions/int-ft-size-prop".
Notation K_opt_base := "config/common/common#/definitions/opt-int-ft-preferred-display-base-prop".
Notation K_iden := "config/common/common#/definitions/iden-prop".
Notation K_prefix := "config/common/common#/definitions/config-prefix-prop".
Notation K_opt_uuid := "config/common/common#/definitions/opt-uuid-prop".
Notation K_opt_tt_uuid := "config/common/common#/definitions/opt-trace-type-uuid-prop".
Notation K_opt_offset := "config/common/common#/definitions/opt-clock-type-offset-prop".
Notation K_opt_env := "config/common/common#/definitions/opt-env-prop".

Lemma opt_bool_shape j : VK K_opt_bool j -> j = JNull \/ is_bool j.
Proof.
  unfold VK. intros H. denote_in H (unf_in [K_opt_bool]) 6. norm; try discriminate; auto.
  all: right; eexists; reflexivity.
Qed.
Lemma opt_string_shape j : VK K_opt_string j -> j = JNull \/ is_str j.
Proof.
  unfold VK. intros H. denote_in H (unf_in [K_opt_string]) 6. norm; try discriminate; auto.
  all: right; eexists; reflexivity.
Qed.

(* name-independent closing tactics *)
Ltac use_enum :=
  match goal with T : has_type_in ?x [TStr] = true, E : enum_mem ?x _ = true |- _ =>
    exact (str_in_of_enum _ _ T E) end.
Ltac is_null :=
  match goal with T : has_type_in ?x [TNull] = true |- ?x = JNull =>
    destruct x; try discriminate; reflexivity end.
Ltac use_range :=
  match goal with T : has_type_in ?x [TInt] = true, G : num_ge ?x _ = true, L : num_le ?x _ = true |- _ =>
    exact (int_val_range _ _ _ T G L) end.
Ltac use_ge :=
  match goal with T : has_type_in ?x [TInt] = true, G : num_ge ?x _ = true |- _ =>
    exact (int_val_ge _ _ T G) end.
Ltac use_keys :=
  match goal with E : forall k x, In (k, x) ?m -> is_extra _ [] k = true -> False |- only_keys ?m _ =>
    exact (only_keys_of_extra _ _ E) end.
Ltac split_or H := destruct H as [H|H]; flat.
Ltac the_or := match goal with H : _ \/ _ |- _ => destruct H as [H|H]; flat end.

Lemma opt_int_min_0_shape j : VK K_opt_int_min_0 j -> j = JNull \/ int_val 0 None j.
Proof.
  unfold VK. intros H. denote_in H (unf_in [K_opt_int_min_0]) 6. flat. the_or.
  - right. use_ge.
  - left. is_null.
Qed.
Lemma opt_int_min_1_shape j : VK K_opt_int_min_1 j -> j = JNull \/ int_val 1 None j.
Proof.
  unfold VK. intros H. denote_in H (unf_in [K_opt_int_min_1]) 6. flat. the_or.
  - right. use_ge.
  - left. is_null.
Qed.
Lemma int_size_shape j : VK K_int_size j -> int_val 1 (Some 64%Z) j.
Proof. unfold VK. intros H. denote_in H (unf_in [K_int_size]) 6. flat. use_range. Qed.
Lemma byte_order_shape j : VK K_byte_order j -> str_in byte_order_names j.
Proof. unfold VK. intros H. denote_in H (unf_in [K_byte_order]) 6. flat. use_enum. Qed.
Lemma opt_base_shape j : VK K_opt_base j -> j = JNull \/ str_in base_names j.
Proof.
  unfold VK. intros H. denote_in H (unf_in [K_opt_base]) 6. flat. the_or.
  - right. use_enum.
  - left. is_null.
Qed.
Lemma iden_shape j : VK K_iden j -> name_doc j.
Proof.
  unfold VK. intros H. denote_in H (unf_in [K_iden]) 8. flat.
  destruct j; try discriminate. inst. exists s. split; [reflexivity|]. split.
  - apply match_ident_spec. assumption.
  - match goal with E : enum_mem _ _ = false |- _ => exact (enum_mem_str_false _ _ E) end.
Qed.
Lemma prefix_prop_shape j : VK K_prefix j -> name_doc j.
Proof.
  unfold VK. intros H. denote_in H (unf_in [K_prefix]) 3. apply iden_shape. exact H.
Qed.
Lemma opt_uuid_shape j : VK K_opt_uuid j -> j = JNull \/ exists s, j = JStr s /\ uuid_or_nl s.
Proof.
  unfold VK. intros H. denote_in H (unf_in [K_opt_uuid]) 6. flat. the_or.
  - right. destruct j; try discriminate. inst. exists s. split; [reflexivity|assumption].
  - left. is_null.
Qed.
Lemma opt_tt_uuid_shape j :
  VK K_opt_tt_uuid j -> j = JNull \/ exists s, j = JStr s /\ (uuid_or_nl s \/ s = "auto").
Proof.
  unfold VK. intros H. denote_in H (unf_in [K_opt_tt_uuid]) 6. flat. the_or.
  - right. destruct j; try discriminate. exists s. split; [reflexivity|]. the_or.
    + left. match goal with U : V S3 (SRef K_opt_uuid) _ |- _ =>
        destruct (opt_uuid_shape _ U) as [E|(s' & E & U')]; [discriminate|congruence] end.
    + right. the_or. match goal with E : jeq _ _ = true |- _ => simpl in E; apply String.eqb_eq in E; exact E end.
  - left. is_null.
Qed.
Lemma opt_offset_shape j : VK K_opt_offset j -> j = JNull \/ clock_offset_doc j.
Proof.
  unfold VK. intros H. denote_in H (unf_in [K_opt_offset]) 6. flat. the_or.
  - right. match goal with T : has_type_in j [TObj] = true |- _ => destruct (has_type_obj _ T) as [m ->] end.
    inst. flat. exists m. split; [reflexivity|]. split; [|split].
    + intros x Hx. apply opt_int_min_0_shape. auto.
    + intros x Hx. apply opt_int_min_0_shape. auto.
    + use_keys.
  - left. is_null.
Qed.
