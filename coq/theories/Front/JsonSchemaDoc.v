(* Per-definition theorems on the REGENERATED barectf 3 schema store (Gen/Schemas3.v):
   "valid against definition D  ->  documented shape of DocValid.v".
   Each proof computes the denotation of the concrete definition (JsonSchemaLemmas.den, sound
   once and for all) and finishes with first-order reasoning.  If a schema file changes, the
   affected lemma stops compiling: that is the signal the check reports. *)
From Coq Require Import List String ZArith Bool Lia.
Import ListNotations.
From BT.Front Require Import Json JsonSchema JsonSchemaLemmas DocValid.
From BT.Gen Require Schemas3.
Open Scope string_scope.

Definition S3 := Schemas3.store.
Definition store3_lit := Eval cbv delta [Schemas3.store] in Schemas3.store.
Definition lk3 (k : string) : option schema := slookup k store3_lit.
Lemma lk3_ok k : lk3 k = slookup k S3.
Proof. reflexivity. Qed.

(* valid against the store entry [key] *)
Definition VK (key : string) (j : json) : Prop := V S3 (SRef key) j.

(* inline exactly the references listed *)
Definition unf_in (l : list string) (k : string) : bool := mem_str k l.

Ltac denote_in H unf d :=
  apply (den_V S3 lk3 lk3_ok unf d) in H;
  cbv -[S3 V NV lookup has_key has_type_in jeq num_ge num_le pat_match is_extra In List.length
        enum_mem Z.le Z.lt lt not] in H.
Ltac ndenote_in H unf d :=
  apply (den_NV S3 lk3 lk3_ok unf d) in H;
  cbv -[S3 V NV lookup has_key has_type_in jeq num_ge num_le pat_match is_extra In List.length
        enum_mem Z.le Z.lt lt not] in H.

(* ---------------------------------------------------------------- tactics *)

Ltac flat :=
  repeat match goal with
  | H : _ /\ _ |- _ => destruct H
  | H : True |- _ => clear H
  | H : False |- _ => contradiction
  | H : _ \/ False |- _ => destruct H as [H|[]]
  | H : exists _, _ |- _ => destruct H
  | H : true = false |- _ => discriminate H
  | H : false = true |- _ => discriminate H
  end.
(* instantiate the "forall m, j = JObj m -> ..." facts once j is known *)
Ltac inst :=
  repeat match goal with
  | H : forall m, JObj ?m0 = JObj m -> _ |- _ => specialize (H m0 eq_refl)
  | H : forall l, JArr ?l0 = JArr l -> _ |- _ => specialize (H l0 eq_refl)
  | H : forall s, JStr ?s0 = JStr s -> _ |- _ => specialize (H s0 eq_refl)
  | H : forall m, ?c = JObj m -> _ |- _ =>
      match c with JObj _ => fail 1 | _ => first [is_var c; fail 1 | clear H] end
  | H : forall l, ?c = JArr l -> _ |- _ =>
      match c with JArr _ => fail 1 | _ => first [is_var c; fail 1 | clear H] end
  | H : forall s, ?c = JStr s -> _ |- _ =>
      match c with JStr _ => fail 1 | _ => first [is_var c; fail 1 | clear H] end
  end.
Ltac tysimp := cbv [has_type_in has_type existsb orb] in *.
(* case analysis on the type of an instance variable that carries a type fact *)
Ltac bytype :=
  repeat match goal with
  | H : has_type_in ?x _ = _ |- _ => is_var x; destruct x; tysimp; flat; inst
  | x : jfloat |- _ => destruct x
  end.
Ltac cases :=
  repeat match goal with
  | H : _ \/ _ |- _ => destruct H; flat
  end.
Ltac norm := repeat (progress (flat; cases; flat; bytype; flat; inst; flat)).

(* ---------------------------------------------------------------- instance-side lemmas *)

Lemma int_type x : has_type_in x [TInt] = true -> exists z, x = JInt z.
Proof. destruct x; simpl; try discriminate; eauto. Qed.
Lemma as_int_of_type x : has_type_in x [TInt] = true -> exists z, as_int x = Some z.
Proof. intros T. destruct (int_type x T) as [z ->]. eexists; reflexivity. Qed.
Lemma int_val_ge x lo : has_type_in x [TInt] = true -> num_ge x lo = true -> int_doc lo None x.
Proof.
  intros T G. destruct (int_type x T) as [z ->]. exists z. repeat split; auto.
  simpl in G. apply Z.leb_le; exact G.
Qed.
Lemma int_val_range x lo hi :
  has_type_in x [TInt] = true -> num_ge x lo = true -> num_le x hi = true -> int_doc lo (Some hi) x.
Proof.
  intros T G L. destruct (int_type x T) as [z ->]. exists z. simpl in G, L. repeat split; auto.
  - apply Z.leb_le; exact G.
  - apply Z.leb_le; exact L.
Qed.

Fixpoint strs_of (vs : list json) : list string :=
  match vs with [] => [] | JStr s :: vs => s :: strs_of vs | _ :: vs => strs_of vs end.
Lemma enum_mem_str s vs : enum_mem (JStr s) vs = true -> In s (strs_of vs).
Proof.
  unfold enum_mem. induction vs as [|v vs IH]; simpl; [discriminate|].
  destruct v; simpl; auto. destruct (String.eqb s s0) eqn:E; simpl.
  - apply String.eqb_eq in E. subst. auto.
  - auto.
Qed.
Lemma enum_mem_str_false s vs : enum_mem (JStr s) vs = false -> ~ In s (strs_of vs).
Proof.
  unfold enum_mem. induction vs as [|v vs IH]; simpl; [auto|].
  destruct v; simpl; auto. destruct (String.eqb s s0) eqn:E; simpl; [discriminate|].
  intros H [->|Hin]; [rewrite String.eqb_refl in E; discriminate|]. exact (IH H Hin).
Qed.
Lemma str_in_of_enum x vs :
  has_type_in x [TStr] = true -> enum_mem x vs = true -> str_in (strs_of vs) x.
Proof. intros T E. destruct x; try discriminate. exists s. split; auto. apply enum_mem_str; auto. Qed.

Lemma only_keys_of_extra m ks :
  (forall k x, In (k, x) m -> is_extra ks [] k = true -> False) -> only_keys m ks.
Proof.
  intros H k x Hin. apply mem_str_In. destruct (mem_str k ks) eqn:E; [reflexivity|].
  exfalso. apply (H k x Hin). rewrite is_extra_no_pats, E. reflexivity.
Qed.

(* identifiers: what the anchored pattern accepts under re.search *)
Lemma star_then_end_spec f s :
  star_then_end f s = true ->
  all_chars f s = true \/
  exists s', s = (s' ++ String (Ascii.ascii_of_nat 10) EmptyString)%string /\ all_chars f s' = true.
Proof.
  induction s as [|c s IH]; simpl; [auto|].
  intros H. apply orb_true_iff in H. destruct H as [H|H].
  - apply andb_true_iff in H. destruct H as [Hc Hs]. destruct (IH Hs) as [A|(s' & -> & A)].
    + left. rewrite Hc, A. reflexivity.
    + right. exists (String c s'). simpl. rewrite Hc, A. auto.
  - apply andb_true_iff in H. destruct H as [Hc Hs]. destruct s; [|discriminate].
    right. exists EmptyString. simpl. split; [|reflexivity].
    unfold is_nl in Hc. apply Nat.eqb_eq in Hc. rewrite <- Hc, Ascii.ascii_nat_embedding. reflexivity.
Qed.
Lemma match_ident_spec s : match_ident s = true -> ident_or_nl s.
Proof.
  destruct s as [|c s]; simpl; [discriminate|]. intros H. apply andb_true_iff in H. destruct H as [Hc Hs].
  destruct (star_then_end_spec _ _ Hs) as [A|(s' & -> & A)].
  - left. simpl. rewrite Hc, A. reflexivity.
  - right. exists (String c s'). simpl. rewrite Hc, A. auto.
Qed.

Lemma nonempty_of_length {A} (l : list A) : 1 <= List.length l -> l <> [].
Proof. destruct l; simpl; [lia|discriminate]. Qed.

(* ---------------------------------------------------------------- common definitions *)

Notation K_opt_bool := "config/common/common#/definitions/opt-bool".
Notation K_opt_string := "config/common/common#/definitions/opt-string".
Notation K_opt_int_min_0 := "config/common/common#/definitions/opt-int-min-0".
Notation K_opt_int_min_1 := "config/common/common#/definitions/opt-int-min-1".
Notation K_byte_order := "config/common/common#/definitions/byte-order-prop".
Notation K_int_size := "config/common/common#/definitions/int-ft-size-prop".
Notation K_opt_base := "config/common/common#/definitions/opt-int-ft-preferred-display-base-prop".
Notation K_iden := "config/common/common#/definitions/iden-prop".
Notation K_prefix := "config/common/common#/definitions/config-prefix-prop".
Notation K_opt_uuid := "config/common/common#/definitions/opt-uuid-prop".
Notation K_opt_tt_uuid := "config/common/common#/definitions/opt-trace-type-uuid-prop".
Notation K_opt_offset := "config/common/common#/definitions/opt-clock-type-offset-prop".
Notation K_opt_env := "config/common/common#/definitions/opt-env-prop".

Lemma opt_bool_shape j : VK K_opt_bool j -> j = JNull \/ is_bool j.
Proof.
  unfold VK. intros H. denote_in H (unf_in [K_opt_bool]) 6. norm; try discriminate; auto.
  all: right; eexists; reflexivity.
Qed.
Lemma opt_string_shape j : VK K_opt_string j -> j = JNull \/ is_str j.
Proof.
  unfold VK. intros H. denote_in H (unf_in [K_opt_string]) 6. norm; try discriminate; auto.
  all: right; eexists; reflexivity.
Qed.

(* name-independent closing tactics *)
Ltac use_enum :=
  match goal with T : has_type_in ?x [TStr] = true, E : enum_mem ?x _ = true |- _ =>
    exact (str_in_of_enum _ _ T E) end.
Ltac is_null :=
  match goal with T : has_type_in ?x [TNull] = true |- ?x = JNull =>
    destruct x; try discriminate; reflexivity end.
Ltac use_range :=
  match goal with T : has_type_in ?x [TInt] = true, G : num_ge ?x _ = true, L : num_le ?x _ = true |- _ =>
    exact (int_val_range _ _ _ T G L) end.
Ltac use_ge :=
  match goal with T : has_type_in ?x [TInt] = true, G : num_ge ?x _ = true |- _ =>
    exact (int_val_ge _ _ T G) end.
Ltac use_keys :=
  match goal with E : forall k x, In (k, x) ?m -> is_extra _ [] k = true -> False |- only_keys ?m _ =>
    exact (only_keys_of_extra _ _ E) end.
Ltac split_or H := destruct H as [H|H]; flat.
Ltac the_or := match goal with H : _ \/ _ |- _ => destruct H as [H|H]; flat end.

Lemma opt_int_min_0_shape j : VK K_opt_int_min_0 j -> j = JNull \/ int_doc 0 None j.
Proof.
  unfold VK. intros H. denote_in H (unf_in [K_opt_int_min_0]) 6. flat. the_or.
  - right. use_ge.
  - left. is_null.
Qed.
Lemma opt_int_min_1_shape j : VK K_opt_int_min_1 j -> j = JNull \/ int_doc 1 None j.
Proof.
  unfold VK. intros H. denote_in H (unf_in [K_opt_int_min_1]) 6. flat. the_or.
  - right. use_ge.
  - left. is_null.
Qed.
Lemma int_size_shape j : VK K_int_size j -> int_doc 1 (Some 64%Z) j.
Proof. unfold VK. intros H. denote_in H (unf_in [K_int_size]) 6. flat. use_range. Qed.
Lemma byte_order_shape j : VK K_byte_order j -> str_in byte_order_names j.
Proof. unfold VK. intros H. denote_in H (unf_in [K_byte_order]) 6. flat. use_enum. Qed.
Lemma opt_base_shape j : VK K_opt_base j -> j = JNull \/ str_in base_names j.
Proof.
  unfold VK. intros H. denote_in H (unf_in [K_opt_base]) 6. flat. the_or.
  - right. use_enum.
  - left. is_null.
Qed.
(* inclusion of string lists decided by evaluation (the order of the schema's list is free) *)
Lemma incl_by_eval (l1 l2 : list string) :
  forallb (fun x => mem_str x l2) l1 = true -> forall s, In s l1 -> In s l2.
Proof.
  intros H s Hin. rewrite forallb_forall in H. apply mem_str_In. exact (H s Hin).
Qed.

Lemma iden_shape j : VK K_iden j -> name_doc false j.
Proof.
  unfold VK. intros H. denote_in H (unf_in [K_iden]) 8. flat.
  destruct j; try discriminate. inst. exists s. split; [reflexivity|]. split.
  - unfold identP. apply match_ident_spec. assumption.
  - match goal with E : enum_mem _ _ = false |- _ =>
      intros Hin; apply (enum_mem_str_false _ _ E); revert Hin; apply incl_by_eval; vm_compute; reflexivity end.
Qed.
Lemma prefix_prop_shape j : VK K_prefix j -> name_doc false j.
Proof.
  unfold VK. intros H. denote_in H (unf_in [K_prefix]) 3. apply iden_shape. exact H.
Qed.
Lemma opt_uuid_shape j : VK K_opt_uuid j -> j = JNull \/ exists s, j = JStr s /\ uuidP false s.
Proof.
  unfold VK. intros H. denote_in H (unf_in [K_opt_uuid]) 6. flat. the_or.
  - right. destruct j; try discriminate. inst. exists s. split; [reflexivity|assumption].
  - left. is_null.
Qed.
Lemma opt_tt_uuid_shape j :
  VK K_opt_tt_uuid j -> j = JNull \/ exists s, j = JStr s /\ (uuidP false s \/ s = "auto").
Proof.
  unfold VK. intros H. denote_in H (unf_in [K_opt_tt_uuid]) 6. flat. the_or.
  - right. destruct j; try discriminate. exists s. split; [reflexivity|]. the_or.
    + left. match goal with U : V S3 (SRef K_opt_uuid) _ |- _ =>
        destruct (opt_uuid_shape _ U) as [E|(s' & E & U')]; [discriminate|injection E as ->; exact U'] end.
    + right. the_or. match goal with E : jeq _ _ = true |- _ => simpl in E; apply String.eqb_eq in E; exact E end.
  - left. is_null.
Qed.
Lemma opt_offset_shape j : VK K_opt_offset j -> j = JNull \/ clock_offset_doc false j.
Proof.
  unfold VK. intros H. denote_in H (unf_in [K_opt_offset]) 6. flat. the_or.
  - right. match goal with T : has_type_in j [TObj] = true |- _ => destruct (has_type_obj _ T) as [m ->] end.
    inst. flat. exists m. split; [reflexivity|]. split; [|split].
    + intros x Hx. apply opt_int_min_0_shape. unfold VK; auto.
    + intros x Hx. apply opt_int_min_0_shape. unfold VK; auto.
    + use_keys.
  - left. is_null.
Qed.

(* ---------------------------------------------------------------- more tactics *)
Ltac clean := repeat match goal with H : forall x, lookup _ _ = Some x -> True |- _ => clear H end.
Ltac look :=
  repeat match goal with
  | Hx : lookup ?k ?m = Some ?x0, H : forall x, lookup ?k ?m = Some x -> _ |- _ => specialize (H x0 Hx)
  end; flat.
Ltac req :=
  match goal with |- required ?m ?k _ =>
    match goal with Hk : has_key k m = true |- _ =>
      let x := fresh "x" in let Hx := fresh "Hx" in
      destruct (has_key_lookup _ _ Hk) as [x Hx]; exists x; split; [exact Hx|]; look end end.
Ltac opt :=
  let x := fresh "x" in let Hx := fresh "Hx" in
  first [unfold optional | unfold present]; intros x Hx; look.
Ltac vk L := apply L; unfold VK; assumption.
Ltac to_obj j :=
  match goal with T : has_type_in j [TObj] = true |- _ =>
    let m := fresh "m" in destruct (has_type_obj _ T) as [m ->]; inst; flat; clean end.

Lemma opt_env_shape j : VK K_opt_env j -> j = JNull \/ env_doc false j.
Proof.
  unfold VK. intros H. denote_in H (unf_in [K_opt_env]) 8. flat. the_or.
  - right. to_obj j. exists m. split; [reflexivity|]. intros k v Hkv.
    assert (Hp : pat_match PIdent k = true).
    { destruct (pat_match PIdent k) eqn:E; [reflexivity|]. exfalso.
      match goal with X : forall k x, In (k, x) m -> is_extra _ _ k = true -> False |- _ =>
        apply (X k v Hkv) end.
      unfold is_extra. cbn -[pat_match]. rewrite E. reflexivity. }
    split; [apply match_ident_spec; exact Hp|].
    match goal with X : forall k x, In (k, x) m -> pat_match PIdent k = true -> _ |- _ =>
      specialize (X k v Hkv Hp) end.
    flat. the_or.
    + left. match goal with T : has_type_in v [TStr] = true |- _ => destruct (has_type_str _ T) as [s ->] end.
      eexists; reflexivity.
    + right. the_or. match goal with T : has_type_in v [TInt] = true |- _ => exact (int_type _ T) end.
  - left. is_null.
Qed.

(* ---------------------------------------------------------------- field types *)

Notation FT k := ("config/3/field-type#/definitions/" ++ k)%string.
Definition ft_inl := map (fun k => FT k)
  ["uint-ft"; "sint-ft"; "int-ft"; "bit-array-ft"; "ft-base"; "int-ft-props"; "uint-ft-class-prop";
   "sint-ft-class-prop"; "enum-ft"; "enum-ft-props"; "uenum-ft"; "senum-ft"; "uenum-ft-class-prop";
   "senum-ft-class-prop"; "real-ft"; "real-ft-class-prop"; "string-ft"; "string-ft-class-prop";
   "array-ft"; "static-array-ft"; "static-array-ft-class-prop"; "struct-ft"; "struct-ft-class-prop";
   "struct-ft-member"; "struct-ft-members"; "dynamic-array-ft"; "dynamic-array-ft-class-prop"].

Ltac int_ft_tac :=
  match goal with j : json |- _ =>
    to_obj j; eexists; split; [reflexivity|]; repeat split;
    [ req; use_enum
    | req; vk int_size_shape
    | opt; vk opt_int_min_1_shape
    | opt; vk opt_base_shape
    | use_keys ] end.

Theorem uint_ft_shape j : VK (FT "uint-ft") j -> int_ft_doc false uint_names j.
Proof. unfold VK. intros H. denote_in H (unf_in ft_inl) 14. flat. int_ft_tac. Qed.
Theorem sint_ft_shape j : VK (FT "sint-ft") j -> int_ft_doc false sint_names j.
Proof. unfold VK. intros H. denote_in H (unf_in ft_inl) 14. flat. int_ft_tac. Qed.

Lemma int_enum2 z a b : enum_mem (JInt z) [JInt a; JInt b] = true -> (z = a \/ z = b)%Z.
Proof.
  unfold enum_mem. simpl. intros H. rewrite orb_false_r in H. apply orb_true_iff in H.
  destruct H as [H|H]; apply Z.eqb_eq in H; auto.
Qed.
Lemma jeq_str x s : has_type_in x [TStr] = true -> jeq x (JStr s) = true -> str_in [s] x.
Proof.
  destruct x; simpl; try discriminate. intros _ H. apply String.eqb_eq in H. subst.
  eexists; split; [reflexivity|simpl; auto].
Qed.
Ltac use_const :=
  match goal with T : has_type_in ?x [TStr] = true, E : jeq ?x (JStr _) = true |- _ =>
    exact (jeq_str _ _ T E) end.

(* one enumeration mapping value *)
Lemma enum_mapping_of x :
  has_type_in x [TArr] = true ->
  (forall l, x = JArr l -> 1 <= List.length l) ->
  (forall l, x = JArr l -> forall r, In r l ->
     (has_type_in r [TArr] = true /\
      (forall l0, r = JArr l0 -> forall y, In y l0 -> has_type_in y [TInt] = true) /\
      (forall l0, r = JArr l0 -> 2 <= List.length l0) /\
      (forall l0, r = JArr l0 -> List.length l0 <= 2)) \/
     has_type_in r [TInt] = true) ->
  enum_mapping (is_int false) x.
Proof.
  intros T L R. destruct (has_type_arr _ T) as [l ->]. exists l. split; [reflexivity|]. split.
  - apply nonempty_of_length. apply (L l eq_refl).
  - intros r Hr. destruct (R l eq_refl r Hr) as [(Ta & I & L2 & L2')|Ti].
    + right. destruct (has_type_arr _ Ta) as [l0 ->].
      specialize (I l0 eq_refl). specialize (L2 l0 eq_refl). specialize (L2' l0 eq_refl).
      destruct l0 as [|a [|b [|c l0]]]; simpl in *; try lia.
      exists a, b. split; [reflexivity|]. split; apply int_type; apply I; simpl; auto.
    + left. exact (int_type _ Ti).
Qed.

Ltac enum_ft_tac :=
  match goal with j : json |- _ =>
    to_obj j; eexists; split; [reflexivity|]; repeat split;
    [ req; use_enum
    | req; vk int_size_shape
    | opt; vk opt_int_min_1_shape
    | opt; vk opt_base_shape
    | req
    | use_keys ] end.

Lemma mappings_of x :
  has_type_in x [TObj] = true ->
  (forall m0, x = JObj m0 ->
      (forall k x0, In (k, x0) m0 -> pat_match PAny k = true ->
         has_type_in x0 [TArr] = true /\
         (forall l, x0 = JArr l -> 1 <= List.length l) /\
         (forall l, x0 = JArr l -> forall x1, In x1 l ->
            ((has_type_in x1 [TArr] = true /\ True) /\
             (forall l0, x1 = JArr l0 -> forall x2, In x2 l0 -> has_type_in x2 [TInt] = true /\ True) /\
             (forall l0, x1 = JArr l0 -> 2 <= List.length l0) /\
             (forall l0, x1 = JArr l0 -> List.length l0 <= 2) /\ True \/
             (has_type_in x1 [TArr] = false \/ False) /\ has_type_in x1 [TInt] = true /\ True) /\ True) /\
         True) /\ True) ->
  (forall m0, x = JObj m0 -> 1 <= List.length m0) ->
  mappings_doc false x.
Proof.
  intros T A L. destruct (has_type_obj _ T) as [mm ->].
  destruct (A mm eq_refl) as [A' _]. specialize (L mm eq_refl).
  exists mm. split; [reflexivity|]. split; [apply nonempty_of_length; assumption|].
  intros k v Hkv. specialize (A' k v Hkv eq_refl). flat.
  apply enum_mapping_of; auto.
  intros l E r Hr. match goal with X : forall l, v = JArr l -> forall x1, In x1 l -> _ |- _ =>
    specialize (X l E r Hr) end. flat. the_or.
  - left. repeat split; auto. intros l0 E0 y Hy.
    match goal with X : forall l0, r = JArr l0 -> forall x2, In x2 l0 -> _ |- _ =>
      destruct (X l0 E0 y Hy) as [A0 _]; exact A0 end.
  - right. assumption.
Qed.

Theorem uenum_ft_shape j : VK (FT "uenum-ft") j -> enum_ft_doc false uenum_names j.
Proof.
  unfold VK. intros H. denote_in H (unf_in ft_inl) 14. flat. enum_ft_tac.
  apply mappings_of; assumption.
Qed.
Theorem senum_ft_shape j : VK (FT "senum-ft") j -> enum_ft_doc false senum_names j.
Proof.
  unfold VK. intros H. denote_in H (unf_in ft_inl) 14. flat. enum_ft_tac.
  apply mappings_of; assumption.
Qed.

Theorem real_ft_shape j : VK (FT "real-ft") j -> real_ft_doc false j.
Proof.
  unfold VK. intros H. denote_in H (unf_in ft_inl) 14. flat.
  to_obj j. eexists; split; [reflexivity|]. repeat split.
  - req. use_const.
  - req. match goal with S : V S3 (SRef K_int_size) ?x |- _ =>
      destruct (int_size_shape _ S) as (z & -> & _) end.
    match goal with E : enum_mem (JInt z) _ = true |- _ => destruct (int_enum2 _ _ _ E) as [-> | ->] end;
      [left|right]; reflexivity.
  - opt. vk opt_int_min_1_shape.
  - use_keys.
Qed.

Theorem string_ft_shape j : VK (FT "string-ft") j -> string_ft_doc j.
Proof.
  unfold VK. intros H. denote_in H (unf_in ft_inl) 14. flat.
  to_obj j. eexists; split; [reflexivity|]. repeat split.
  - req. use_enum.
  - use_keys.
Qed.

Lemma ident_key_of_extra (m : list (string * json)) k x :
  (forall k x, In (k, x) m -> is_extra [] [PIdent] k = true -> False) ->
  In (k, x) m -> pat_match PIdent k = true.
Proof.
  intros E Hin. destruct (pat_match PIdent k) eqn:P; [reflexivity|]. exfalso.
  apply (E k x Hin). unfold is_extra. cbn -[pat_match]. rewrite P. reflexivity.
Qed.
(* static array: the element is valid against `ft` again; `length` is required and >= 0 *)
Theorem static_array_ft_shape j :
  VK (FT "static-array-ft") j -> static_array_ft_doc false (VK (FT "ft")) j.
Proof.
  unfold VK. intros H. denote_in H (unf_in ft_inl) 14. flat.
  to_obj j. eexists; split; [reflexivity|]. repeat split.
  - req. use_const.
  - req. assumption.
  - req. use_ge.
  - use_keys.
Qed.

(* dynamic array: element required and valid against `ft`, unknown property rejected *)
Theorem dynamic_array_ft_shape j :
  VK (FT "dynamic-array-ft") j -> dynamic_array_ft_doc false (VK (FT "ft")) j.
Proof.
  unfold VK. intros H. denote_in H (unf_in ft_inl) 14. flat.
  to_obj j. eexists; split; [reflexivity|]. repeat split.
  - req. use_const.
  - req. assumption.
  - use_keys.
Qed.

Lemma singleton_of_length {A} (l : list A) : 1 <= List.length l -> List.length l <= 1 -> exists a, l = [a].
Proof. destruct l as [|a [|b l]]; simpl; intros; try lia. eauto. Qed.

(* structure: member objects of members whose name matches the identifier pattern *)
Theorem struct_ft_shape j :
  VK (FT "struct-ft") j -> struct_ft_doc false (VK (FT "ft")) j.
Proof.
  unfold VK. intros H. denote_in H (unf_in ft_inl) 14. flat.
  to_obj j. eexists; split; [reflexivity|]. repeat split.
  - req. use_enum.
  - opt. vk opt_int_min_1_shape.
  - opt. the_or; [right|left; is_null].
    match goal with T : has_type_in ?x [TArr] = true |- _ => destruct (has_type_arr _ T) as [l ->] end.
    inst. exists l. split; [reflexivity|]. intros e He.
    match goal with X : forall x0, In x0 l -> _ |- _ => specialize (X e He) end. flat.
    match goal with T : has_type_in e [TObj] = true |- _ => destruct (has_type_obj _ T) as [me ->] end.
    inst. flat.
    match goal with L1 : 1 <= List.length me, L2 : List.length me <= 1 |- _ =>
      destruct (singleton_of_length _ L1 L2) as [[name v] ->] end.
    exists name, v. split; [reflexivity|].
    assert (Hn : pat_match PIdent name = true).
    { eapply (ident_key_of_extra [(name, v)] name v); [assumption|left; reflexivity]. }
    split; [apply match_ident_spec; exact Hn|].
    match goal with X : forall k x1, In (k, x1) [(name, v)] -> pat_match _ _ = true -> _ |- _ =>
      specialize (X name v (or_introl eq_refl) Hn) end. flat.
    match goal with T : has_type_in v [TObj] = true |- _ => destruct (has_type_obj _ T) as [mo ->] end.
    inst. flat. exists mo. split; [reflexivity|]. split.
    + req. assumption.
    + use_keys.
  - use_keys.
Qed.

(* ---------------------------------------------------------------- `ft`: dispatch on the class *)

Definition cls_inl := map (fun k => FT k)
  ["ft"; "ft-base"; "uint-ft-class-prop"; "sint-ft-class-prop"; "uenum-ft-class-prop";
   "senum-ft-class-prop"; "real-ft-class-prop"; "string-ft-class-prop";
   "static-array-ft-class-prop"; "dynamic-array-ft-class-prop"; "struct-ft-class-prop"].

Fixpoint all_jstr (vs : list json) : bool :=
  match vs with [] => true | JStr _ :: vs => all_jstr vs | _ => false end.
Lemma enum_mem_all_str x vs :
  all_jstr vs = true -> enum_mem x vs = true -> exists s, x = JStr s /\ In s (strs_of vs).
Proof.
  unfold enum_mem. induction vs as [|v vs IH]; simpl; [discriminate|].
  destruct v; try discriminate. intros A H. apply orb_true_iff in H. destruct H as [H|H].
  - destruct x; simpl in H; try discriminate; try (destruct f; discriminate).
    apply String.eqb_eq in H. subst. eexists; split; [reflexivity|left; reflexivity].
  - destruct (IH A H) as (s0 & E & I). exists s0; split; [exact E|right; exact I].
Qed.

(* in the right-hand branch of an `if` of `ft`, the class would have to be outside the list *)
Ltac not_this_class X Hc :=
  exfalso;
  let m' := fresh "m'" in let E := fresh "E" in let x' := fresh "x'" in
  let L := fresh "L" in let D := fresh "D" in
  destruct X as [[(m' & E & [(x' & L & D)|[]])|[]] _];
  injection E as <-; rewrite Hc in L; injection L as <-;
  destruct D as [D|[D|[]]]; vm_compute in D; discriminate D.
Ltac this_class H Hc :=
  destruct H as [H|H]; [destruct H as [_ H]; exact H | not_this_class H Hc].

Theorem ft_dispatch j : VK (FT "ft") j ->
  exists m c, j = JObj m /\ lookup "class" m = Some (JStr c) /\ In c class_names /\
    (In c uint_names -> VK (FT "uint-ft") j) /\ (In c sint_names -> VK (FT "sint-ft") j) /\
    (In c uenum_names -> VK (FT "uenum-ft") j) /\ (In c senum_names -> VK (FT "senum-ft") j) /\
    (In c real_names -> VK (FT "real-ft") j) /\ (In c string_names -> VK (FT "string-ft") j) /\
    (In c sarray_names -> VK (FT "static-array-ft") j) /\
    (In c darray_names -> VK (FT "dynamic-array-ft") j) /\
    (In c struct_names -> VK (FT "struct-ft") j).
Proof.
  unfold VK. intros H. denote_in H (unf_in cls_inl) 14. flat.
  to_obj j.
  match goal with Hk : has_key "class" m = true |- _ => destruct (has_key_lookup _ _ Hk) as [x Hx] end.
  match goal with X : forall x, lookup "class" m = Some x -> enum_mem x _ = true /\ True |- _ =>
    destruct (X x Hx) as [E _]; clear X end.
  apply enum_mem_all_str in E; [|reflexivity]. destruct E as (c & -> & Hin).
  exists m, c. split; [reflexivity|]. split; [exact Hx|]. split; [exact Hin|].
  repeat split; intros Hc; simpl in Hc;
    repeat (destruct Hc as [<-|Hc]; [|try contradiction]);
    match goal with
    | X : _ /\ V S3 (SRef ?k) ?jj \/ _ |- V S3 (SRef ?k) ?jj => this_class X Hx
    end.
Qed.

(* ---------------------------------------------------------------- the whole field type tree *)

Lemma static_array_mono strict (P Q : json -> Prop) j :
  (forall x, jsize x < jsize j -> P x -> Q x) ->
  static_array_ft_doc strict P j -> static_array_ft_doc strict Q j.
Proof.
  intros PQ (m & -> & C & (x & Hx & Px) & L & K). exists m. split; [reflexivity|].
  split; [exact C|]. split; [|split; assumption].
  exists x. split; [exact Hx|]. apply PQ; [|exact Px]. eapply jsize_lookup; eauto.
Qed.
Lemma members_mono strict (P Q : json -> Prop) x :
  (forall y, jsize y < jsize x -> P y -> Q y) ->
  members_doc strict P x -> members_doc strict Q x.
Proof.
  intros PQ (l & -> & M). exists l. split; [reflexivity|]. intros e He.
  destruct (M e He) as (name & v & -> & A & B).
  pose proof (jsize_In_arr _ _ He) as S1.
  assert (S2 : jsize v < jsize (JObj [(name, v)])) by (simpl; lia).
  assert (MO : member_obj P v -> member_obj Q v).
  { intros (mo & -> & (y & Hy & Py) & K). exists mo. split; [reflexivity|]. split; [|exact K].
    exists y. split; [exact Hy|]. apply PQ; [|exact Py].
    pose proof (jsize_lookup _ _ _ Hy). lia. }
  exists name, v. split; [reflexivity|]. split; [exact A|]. exact (MO B).
Qed.
Lemma dynamic_array_mono strict (P Q : json -> Prop) j :
  (forall x, jsize x < jsize j -> P x -> Q x) ->
  dynamic_array_ft_doc strict P j -> dynamic_array_ft_doc strict Q j.
Proof.
  intros PQ (m & -> & C & (x & Hx & Px) & K). exists m. split; [reflexivity|].
  split; [exact C|]. split; [|exact K].
  exists x. split; [exact Hx|]. apply PQ; [|exact Px]. eapply jsize_lookup; eauto.
Qed.
Lemma struct_mono strict (P Q : json -> Prop) j :
  (forall x, jsize x < jsize j -> P x -> Q x) ->
  struct_ft_doc strict P j -> struct_ft_doc strict Q j.
Proof.
  intros PQ (m & -> & C & A & M & K). exists m. split; [reflexivity|].
  split; [exact C|]. split; [exact A|]. split; [|exact K].
  intros x Hx. destruct (M x Hx) as [N|D]; [left; exact N|right].
  pose proof (jsize_lookup _ _ _ Hx) as S1.
  eapply members_mono; [|exact D]. intros y Sy. apply PQ. lia.
Qed.

Theorem ft_tree : forall j, VK (FT "ft") j -> ft_doc false j.
Proof.
  intros j. remember (jsize j) as n eqn:En. revert j En.
  induction n as [n IH] using lt_wf_ind. intros j -> H.
  destruct (ft_dispatch j H) as (m & c & -> & Hc & Hin & Du & Ds & Due & Dse & Dr & Dst & Dsa & Dda & Dstruct).
  assert (REC : forall x, jsize x < jsize (JObj m) -> VK (FT "ft") x -> ft_doc false x).
  { intros x Sx Vx. exact (IH (jsize x) Sx x eq_refl Vx). }
  unfold class_names in Hin. repeat (apply in_app_or in Hin; destruct Hin as [Hin|Hin]).
  - apply FtUint, uint_ft_shape; auto.
  - apply FtSint, sint_ft_shape; auto.
  - apply FtUenum, uenum_ft_shape; auto.
  - apply FtSenum, senum_ft_shape; auto.
  - apply FtReal, real_ft_shape; auto.
  - apply FtString, string_ft_shape; auto.
  - apply FtSArray. eapply static_array_mono; [exact REC|]. apply static_array_ft_shape; auto.
  - apply FtDArray. eapply dynamic_array_mono; [exact REC|]. apply dynamic_array_ft_shape; auto.
  - apply FtStruct. eapply struct_mono; [exact REC|]. apply struct_ft_shape; auto.
Qed.

(* ---------------------------------------------------------------- configuration objects *)

Notation CF k := ("config/3/config#/definitions/" ++ k)%string.

Theorem feature_uint_ft_shape j : VK (CF "feature-uint-ft") j -> feature_uint_ft_doc false j.
Proof.
  unfold VK. intros H.
  denote_in H (unf_in [CF "feature-uint-ft"; FT "uint-ft-class-prop"; FT "uenum-ft-class-prop"]) 14. flat.
  to_obj j.
  assert (D : (exists x, lookup "class" m = Some x) \/ lookup "class" m = None)
    by (destruct (lookup "class" m); eauto).
  destruct D as [[x Hx]|Hx].
  - match goal with X : forall x, lookup "class" m = Some x -> enum_mem x _ = true /\ True |- _ =>
      destruct (X x Hx) as [E _]; clear X end.
    apply enum_mem_all_str in E; [|reflexivity]. destruct E as (c & -> & Hin).
    simpl in Hin. repeat (destruct Hin as [<-|Hin]; [|try contradiction]).
    1-3: left; apply uint_ft_shape; unfold VK;
         match goal with X : _ /\ V S3 (SRef ?k) ?jj \/ _ |- V S3 (SRef ?k) ?jj => this_class X Hx end.
    all: right; apply uenum_ft_shape; unfold VK;
         match goal with X : _ /\ V S3 (SRef ?k) ?jj \/ _ |- V S3 (SRef ?k) ?jj => this_class X Hx end.
  - left. apply uint_ft_shape. unfold VK.
    match goal with X : _ /\ V S3 (SRef ?k) ?jj \/ _ |- V S3 (SRef ?k) ?jj => destruct X as [X|X] end.
    + flat. assumption.
    + exfalso. flat. match goal with E : JObj _ = JObj _ |- _ => injection E as <- end. congruence.
Qed.

Theorem opt_or_def_feature_shape j :
  VK (CF "opt-or-def-feature-uint-ft") j -> j = JNull \/ opt_or_def_feature_doc false j.
Proof.
  unfold VK. intros H. denote_in H (unf_in [CF "opt-or-def-feature-uint-ft"]) 14. flat. the_or.
  - right. right. vk feature_uint_ft_shape.
  - the_or.
    + right. left. match goal with T : has_type_in j [TBool] = true |- _ => exact (has_type_bool _ T) end.
    + the_or. left. is_null.
Qed.
Theorem opt_feature_shape j :
  VK (CF "opt-feature-uint-ft") j -> j = JNull \/ opt_feature_doc false j.
Proof.
  unfold VK. intros H. denote_in H (unf_in [CF "opt-feature-uint-ft"]) 14. flat. the_or.
  - right. right. vk feature_uint_ft_shape.
  - the_or.
    + right. left. destruct j; try discriminate. destruct b; [reflexivity|discriminate].
    + left. is_null.
Qed.

(* a structure field type, whole tree *)
Lemma struct_ft_tree j : VK (FT "struct-ft") j -> struct_ft_doc false (ft_doc false) j.
Proof.
  intros H. eapply struct_mono; [|apply struct_ft_shape; exact H]. intros x _. apply ft_tree.
Qed.
Theorem opt_struct_ft_shape j :
  VK (CF "opt-struct-ft") j -> j = JNull \/ struct_ft_doc false (ft_doc false) j.
Proof.
  unfold VK. intros H. denote_in H (unf_in [CF "opt-struct-ft"]) 6. flat. the_or.
  - right. vk struct_ft_tree.
  - left. is_null.
Qed.

Theorem ert_shape j : VK (CF "ert") j -> ert_doc false j.
Proof.
  unfold VK. intros H. denote_in H (unf_in [CF "ert"]) 6. flat.
  to_obj j. eexists; split; [reflexivity|]. repeat split.
  - opt. vk opt_int_min_0_shape.
  - opt. vk opt_struct_ft_shape.
  - opt. vk opt_struct_ft_shape.
  - use_keys.
Qed.

Theorem struct_ft_members_shape x :
  VK (FT "struct-ft-members") x -> members_doc false (ft_doc false) x.
Proof.
  intros H. apply (members_mono false (VK (FT "ft"))); [intros y _; apply ft_tree|].
  unfold VK in H. denote_in H (unf_in ft_inl) 14. flat.
  match goal with T : has_type_in ?x [TArr] = true |- _ => destruct (has_type_arr _ T) as [l ->] end.
  inst. exists l. split; [reflexivity|]. intros e He.
  match goal with X : forall x0, In x0 l -> _ |- _ => specialize (X e He) end. flat.
  match goal with T : has_type_in e [TObj] = true |- _ => destruct (has_type_obj _ T) as [me ->] end.
  inst. flat.
  match goal with L1 : 1 <= List.length me, L2 : List.length me <= 1 |- _ =>
    destruct (singleton_of_length _ L1 L2) as [[name v] ->] end.
  exists name, v. split; [reflexivity|].
  assert (Hn : pat_match PIdent name = true).
  { eapply (ident_key_of_extra [(name, v)] name v); [assumption|left; reflexivity]. }
  split; [apply match_ident_spec; exact Hn|].
  match goal with X : forall k x1, In (k, x1) [(name, v)] -> pat_match _ _ = true -> _ |- _ =>
    specialize (X name v (or_introl eq_refl) Hn) end. flat.
  match goal with T : has_type_in v [TObj] = true |- _ => destruct (has_type_obj _ T) as [mo ->] end.
  inst. flat. exists mo. split; [reflexivity|]. split.
  - req. assumption.
  - use_keys.
Qed.

Lemma named_map_of (P : json -> Prop) key x nonempty :
  has_type_in x [TObj] = true ->
  (forall m0, x = JObj m0 ->
     (forall k x0, In (k, x0) m0 -> pat_match PIdent k = true -> V S3 (SRef key) x0) /\ True) ->
  (forall m0, x = JObj m0 -> forall k x0, In (k, x0) m0 -> is_extra [] [PIdent] k = true -> False) ->
  (nonempty = true -> forall m0, x = JObj m0 -> 1 <= List.length m0) ->
  (forall y, VK key y -> P y) ->
  named_map false nonempty P x.
Proof.
  intros T A E N PV. destruct (has_type_obj _ T) as [m ->].
  exists m. split; [reflexivity|]. split.
  - intros Hn. apply nonempty_of_length. exact (N Hn m eq_refl).
  - intros k v Hin. pose proof (ident_key_of_extra m k v (E m eq_refl) Hin) as Pk. split.
    + apply match_ident_spec. exact Pk.
    + apply PV. destruct (A m eq_refl) as [A' _]. exact (A' k v Hin Pk).
Qed.

Theorem clock_type_shape j : VK (CF "clock-type") j -> clock_type_doc false j.
Proof.
  unfold VK. intros H. denote_in H (unf_in [CF "clock-type"]) 6. flat.
  to_obj j. eexists; split; [reflexivity|]. repeat split.
  - opt. vk opt_uuid_shape.
  - opt. vk opt_string_shape.
  - opt. vk opt_int_min_1_shape.
  - opt. vk opt_int_min_0_shape.
  - opt. vk opt_offset_shape.
  - opt. vk opt_bool_shape.
  - opt. vk opt_string_shape.
  - use_keys.
Qed.

Ltac obj_or_null x :=
  the_or; [right; match goal with T : has_type_in x [TObj] = true |- _ =>
                    let m := fresh "m" in destruct (has_type_obj _ T) as [m ->]; inst; flat; clean end
          | left; is_null].

Theorem dst_shape j : VK (CF "dst") j -> dst_doc false j.
Proof.
  unfold VK. intros H. denote_in H (unf_in [CF "dst"]) 14. flat.
  to_obj j. eexists; split; [reflexivity|]. repeat split.
  - opt. vk opt_bool_shape.
  - opt. the_or; [right; vk iden_shape|left; is_null].
  - opt. obj_or_null x. eexists; split; [reflexivity|]. repeat split.
    + opt. obj_or_null x0. eexists; split; [reflexivity|]. repeat split.
      * opt. vk opt_feature_shape.
      * opt. vk opt_feature_shape.
      * opt. vk opt_or_def_feature_shape.
      * opt. vk opt_or_def_feature_shape.
      * opt. vk opt_or_def_feature_shape.
      * opt. vk opt_or_def_feature_shape.
      * use_keys.
    + opt. obj_or_null x0. eexists; split; [reflexivity|]. repeat split.
      * opt. vk opt_or_def_feature_shape.
      * opt. vk opt_or_def_feature_shape.
      * use_keys.
    + use_keys.
  - opt. the_or; [right; vk struct_ft_members_shape|left; is_null].
  - opt. vk opt_struct_ft_shape.
  - req. eapply named_map_of; eauto. exact ert_shape.
  - use_keys.
Qed.

Lemma jeq_int x z : jeq x (JInt z) = true -> as_int x = Some z.
Proof.
  destruct x; simpl; try discriminate.
  - intros H. apply Z.eqb_eq in H. subst. reflexivity.
  - destruct f; try discriminate. intros H. apply Z.eqb_eq in H. subst num.
    rewrite Z_mod_mult. simpl. rewrite Z.div_mul; [reflexivity|lia].
Qed.

Lemma static_array_weaken (P Q : json -> Prop) j :
  (forall x, P x -> Q x) -> static_array_ft_doc false P j -> static_array_ft_doc false Q j.
Proof. intros PQ. apply static_array_mono. intros x _. apply PQ. Qed.

Theorem trace_type_features_shape x :
  (* the `$features` value of a trace type, as the `trace-type` definition constrains it *)
  forall m, lookup "$features" m = Some x -> VK (CF "trace-type") (JObj m) ->
  x = JNull \/ trace_type_features_doc false x.
Proof.
  intros m0 Hf H. unfold VK in H. denote_in H (unf_in [CF "trace-type"]) 16. flat. inst. flat. clean.
  repeat match goal with X : context[has_key "trace-byte-order"] |- _ => clear X end.
  look. obj_or_null x. eexists; split; [reflexivity|]. repeat split.
  - opt. match goal with O : V S3 (SRef _) _ |- _ =>
      destruct (opt_or_def_feature_shape _ O) as [N|[B|F]] end; [left; exact N|right; left; exact B|].
    right. right. split; [exact F|].
    the_or.
    + match goal with T : has_type_in ?y [TObj] = true |- _ => destruct (has_type_obj _ T) as [mm ->] end.
      inst. flat. exists mm. split; [reflexivity|]. intros s Hs. look. apply jeq_int. assumption.
    + exfalso. destruct F as [(mm & -> & _)|(mm & -> & _)]; discriminate.
  - opt. the_or.
    + right. right.
      match goal with S : V S3 (SRef _) _ |- _ =>
        pose proof (static_array_ft_shape _ S) as SA end.
      destruct SA as (mm & -> & C & (e & He & Ve) & L & K). inst. flat. look.
      exists mm. split; [reflexivity|]. split; [exact C|]. split; [|split; assumption].
      exists e. split; [exact He|]. vk feature_uint_ft_shape.
    + the_or.
      * right. left. match goal with T : has_type_in ?y [TBool] = true |- _ => exact (has_type_bool _ T) end.
      * the_or. left. is_null.
  - opt. vk opt_or_def_feature_shape.
  - use_keys.
Qed.

Theorem trace_type_shape j : VK (CF "trace-type") j -> trace_type_doc false j.
Proof.
  intros HV. pose proof HV as H.
  unfold VK in H. denote_in H (unf_in [CF "trace-type"]) 16. flat.
  to_obj j. eexists; split; [reflexivity|]. repeat split.
  - opt. vk byte_order_shape.
  - opt. vk byte_order_shape.
  - (* exactly one of the two byte order properties *)
    match goal with X : _ \/ _ |- _ => destruct X as [X|X]; flat end.
    + right. repeat match goal with E : JObj _ = JObj _ |- _ => injection E as <- end. inst. flat.
      split; assumption.
    + left. repeat match goal with E : JObj _ = JObj _ |- _ => injection E as <- end.
      match goal with X : _ \/ _ |- _ => destruct X as [X|X]; flat end. inst. flat.
      split; assumption.
  - opt. vk opt_tt_uuid_shape.
  - intros x Hx. exact (trace_type_features_shape x m Hx HV).
  - opt. eapply named_map_of; eauto; [discriminate|exact clock_type_shape].
  - req. eapply named_map_of; eauto. exact dst_shape.
  - use_keys.
Qed.

Theorem trace_shape j : VK (CF "trace") j -> trace_doc false j.
Proof.
  unfold VK. intros H. denote_in H (unf_in [CF "trace"]) 8. flat.
  to_obj j. eexists; split; [reflexivity|]. repeat split.
  - req. vk trace_type_shape.
  - opt. vk opt_env_shape.
  - use_keys.
Qed.

Ltac to_objx x :=
  match goal with T : has_type_in x [TObj] = true |- _ =>
    let m := fresh "m" in destruct (has_type_obj _ T) as [m ->]; inst; flat; clean end.

(* the effective configuration object: `_SchemaValidator.validate(node, 'config/3/config')` *)
Theorem config_shape j : VK "config/3/config#" j -> config_doc false j.
Proof.
  unfold VK. intros H. denote_in H (unf_in ["config/3/config#"]) 16. flat.
  to_obj j. eexists; split; [reflexivity|]. repeat split.
  - req. vk trace_shape.
  - opt. to_objx x. eexists; split; [reflexivity|]. repeat split; [|use_keys].
    opt. to_objx x0. eexists; split; [reflexivity|]. repeat split; [| |use_keys].
    + opt. the_or.
      * left. vk prefix_prop_shape.
      * right. to_objx x1. eexists; split; [reflexivity|]. repeat split.
        -- req. vk iden_shape.
        -- req. match goal with T : has_type_in ?y [TStr] = true |- _ => exact (has_type_str _ T) end.
        -- use_keys.
    + opt. to_objx x1. eexists; split; [reflexivity|]. repeat split.
      * opt. match goal with T : has_type_in ?y [TBool] = true |- _ => exact (has_type_bool _ T) end.
      * opt. match goal with T : has_type_in ?y [TBool] = true |- _ => exact (has_type_bool _ T) end.
      * use_keys.
  - use_keys.
Qed.
