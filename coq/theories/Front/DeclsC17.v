(* C17's obligation on the regenerated declarations, in a file of its own: a change that only concerns
   C19's obligations (an unprefixed external symbol that is const, say) must not break C17's cone. *)
From Coq Require Import List NArith Bool String.
Import ListNotations.
From BT.Front Require Import Prefix Decls.
From BT.Gen Require Import Decls.

(* objects with static storage duration are all const: the generated code has no writable state
   outside the contexts it is handed (C17) *)
Theorem no_writable_static : forall ds,
    no_writable_static_b ds = true ->
    forall d, In d ds -> static_duration d = true -> d_const d = true.
Proof.
  intros ds H d Hd Hs. unfold no_writable_static_b in H. rewrite forallb_forall in H.
  specialize (H d Hd). rewrite Hs in H. exact H.
Qed.

Lemma decls_no_writable_static : no_writable_static_b decls = true.
Proof. vm_compute. reflexivity. Qed.

(* non-vacuity: there ARE static-duration objects in the list *)
Lemma decls_static_nonvacuous : existsb static_duration decls = true.
Proof. vm_compute. reflexivity. Qed.
