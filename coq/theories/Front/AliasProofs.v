(* C12 — proofs about Front/Alias.v *)
From Coq Require Import List String ZArith Bool Lia.
Import ListNotations.
From BT.Front Require Import Yaml YamlRes Patch PatchProofs Alias.
Open Scope string_scope.
Open Scope list_scope.

Lemma resolve_S : forall f v3 st node,
  resolve (S f) v3 st node = resolve_step v3 (resolve f v3) st node.
Proof. reflexivity. Qed.

(* an alias that does not exist: configuration error *)
Theorem resolve_missing : forall f v3 st a,
  lookup a (al st) = None -> exists w, resolve (S f) v3 st (YStr a) = CfgErr w.
Proof. intros. rewrite resolve_S. unfold resolve_step. rewrite H. eauto. Qed.

(* an alias met again while it is being resolved: configuration error *)
Theorem resolve_cycle_step : forall f v3 st a t,
  lookup a (al st) = Some t -> mem a (resolved st) = false -> mem a (aset st) = true ->
  exists w, resolve (S f) v3 st (YStr a) = CfgErr w.
Proof. intros. rewrite resolve_S. unfold resolve_step. rewrite H, H0, H1. eauto. Qed.

(* the errors of the recursive resolution of an alias are the errors of the alias *)
Lemma resolve_alias_err : forall f v3 st a t w,
  lookup a (al st) = Some t -> mem a (resolved st) = false -> mem a (aset st) = false ->
  resolve f v3 {| al := al st; resolved := resolved st; aset := a :: aset st |} t = CfgErr w ->
  resolve (S f) v3 st (YStr a) = CfgErr w.
Proof. intros. rewrite resolve_S. unfold resolve_step. rewrite H, H0, H1, H2. reflexivity. Qed.

(* alias cycles of any length: names a1 -> a2 -> ... -> an -> a1 (each alias is the NAME of the
   next one).  Stated on the walk: starting at the head of `names` with the aliases already walked
   in the alias set, the resolution ends in a configuration error. *)
Fixpoint links (names : list string) (last : string) (T : entries) : Prop :=
  match names with
  | [] => True
  | [a] => lookup a T = Some (YStr last)
  | a :: ((b :: _) as rest) => lookup a T = Some (YStr b) /\ links rest last T
  end.

Theorem resolve_cycle : forall names v3 first k st,
  links names first (al st) -> names <> [] ->
  mem first (aset st) = true -> mem first (resolved st) = false ->
  (exists t, lookup first (al st) = Some t) ->
  Forall (fun a => mem a (resolved st) = false) names ->
  exists w, resolve (S (List.length names) + k) v3 st (YStr (hd first names)) = CfgErr w.
Proof.
  induction names as [|a names IH]; intros v3 first k st Hl Hne Hf Hr Ht Hall; [congruence|].
  inversion Hall as [|? ? Ha Hall']. subst.
  cbn [hd List.length]. change (S (S (List.length names)) + k) with (S (S (List.length names) + k)).
  destruct names as [|b rest].
  - (* a -> first, first is in the alias set *)
    simpl in Hl. destruct (mem a (aset st)) eqn:Ea.
    + eapply resolve_cycle_step; eauto.
    + destruct Ht as [t Ht].
      destruct (resolve_cycle_step k v3 {| al := al st; resolved := resolved st; aset := a :: aset st |} first t) as [w Hw];
        try assumption.
      * cbn [aset mem]. now rewrite Hf, orb_true_r.
      * exists w. eapply resolve_alias_err; eauto.
  - destruct Hl as [Hab Hl]. destruct (mem a (aset st)) eqn:Ea.
    + eapply resolve_cycle_step; eauto.
    + destruct (IH v3 first k {| al := al st; resolved := resolved st; aset := a :: aset st |}) as [w Hw]; try assumption.
      * discriminate.
      * cbn [aset mem]. now rewrite Hf, orb_true_r.
      * exists w. eapply resolve_alias_err; eauto.
Qed.

(* ------------------------------------------------------------------ alias of alias, any depth *)

Lemma on_entries_none_gen : forall (rec : astate -> yaml -> res (astate * yaml)) (st : astate) (nl acc : list (string * yaml)),
  forallb (fun kv => negb (mem (fst kv) ft_prop_names)) nl = true ->
  fold_left (fun a kv => rbind a (fun sa : astate * list (string * yaml) =>
               if mem (fst kv) ft_prop_names
               then rbind (rec (fst sa) (snd kv)) (fun sv => Ok (fst sv, snd sa ++ [(fst kv, snd sv)]))
               else Ok (fst sa, snd sa ++ [kv])))
            nl (Ok (st, acc)) = Ok (st, acc ++ nl).
Proof.
  unfold entries. intros rec st nl. induction nl as [|kv nl IH]; intros acc H.
  - simpl. now rewrite app_nil_r.
  - cbn [forallb] in H. apply andb_prop in H. destruct H as [H1 H2]. apply negb_true_iff in H1.
    cbn [fold_left rbind fst snd]. rewrite H1. rewrite (IH (acc ++ [kv]) H2).
    now rewrite <- app_assoc.
Qed.

Definition leaf (v3 : bool) (p : entries) : bool :=
  forallb (fun kv => negb (mem (fst kv) ft_prop_names)) p
  && match lookup (members_prop v3) p with None => true | Some _ => false end.

(* an object without nested field type positions resolves to itself *)
Lemma resolve_leaf : forall f v3 st p, leaf v3 p = true -> resolve (S f) v3 st (YMap p) = Ok (st, YMap p).
Proof.
  intros f v3 st p H. unfold leaf in H. apply andb_prop in H. destruct H as [H1 H2].
  rewrite resolve_S. unfold resolve_step, on_entries. cbv beta.
  rewrite (on_entries_none_gen (resolve f v3) st p [] H1). cbn [rbind fst snd app].
  destruct (lookup (members_prop v3) p); [discriminate|reflexivity].
Qed.

(* chain an -> ... -> a1 -> a0 -> object *)
Fixpoint chain_ok (names : list string) (T : entries) (obj : yaml) : Prop :=
  match names with
  | [] => False
  | [a] => lookup a T = Some obj
  | a :: ((b :: _) as rest) => lookup a T = Some (YStr b) /\ chain_ok rest T obj
  end.

Theorem resolve_chain : forall names v3 p k st,
  leaf v3 p = true -> chain_ok names (al st) (YMap p) ->
  Forall (fun a => mem a (resolved st) = false /\ mem a (aset st) = false) names -> NoDup names ->
  exists st', resolve (S (List.length names) + k) v3 st (YStr (hd "" names)) = Ok (st', YMap p).
Proof.
  induction names as [|a names IH]; intros v3 p k st Hleaf Hc Hall Hnd; [destruct Hc|].
  inversion Hall as [|? ? [Hr Hs] Hall']. inversion Hnd as [|? ? Hnin Hnd']. subst.
  cbn [hd List.length]. change (S (S (List.length names)) + k) with (S (S (List.length names) + k)).
  rewrite resolve_S. unfold resolve_step.
  destruct names as [|b rest].
  - simpl in Hc. rewrite Hc, Hr, Hs. cbn [List.length plus]. rewrite resolve_leaf by assumption.
    cbn [rbind fst snd]. eauto.
  - destruct Hc as [Hab Hc]. rewrite Hab, Hr, Hs.
    destruct (IH v3 p k {| al := al st; resolved := resolved st; aset := a :: aset st |} Hleaf Hc) as [st' Hst'].
    + apply Forall_forall. intros x Hx. rewrite Forall_forall in Hall'. destruct (Hall' x Hx) as [H1 H2].
      split; [assumption|]. cbn [aset mem]. rewrite H2, orb_false_r.
      apply String.eqb_neq. intros ->. contradiction.
    + assumption.
    + cbn [hd] in Hst'. rewrite Hst'. cbn [rbind fst snd]. eauto.
Qed.

(* ------------------------------------------------------------------ examples *)
Definition ex_aliases : entries :=
  [("u8", YMap [("class", YStr "uint"); ("size", YInt 8)]);
   ("byte", YStr "u8"); ("octet", YStr "byte");
   ("arr", YMap [("class", YStr "static-array"); ("length", YInt 2); ("element-field-type", YStr "octet")]);
   ("st", YMap [("class", YStr "struct");
                ("members", YSeq [YMap [("a", YMap [("field-type", YStr "arr")])]; YMap [("b", YMap [("field-type", YStr "octet")])]])]);
   ("der", YMap [("$inherit", YStr "u8"); ("size", YInt 16)]);
   ("x", YStr "y"); ("y", YStr "z"); ("z", YStr "x");
   ("selfm", YMap [("class", YStr "struct"); ("members", YSeq [YMap [("m", YMap [("field-type", YStr "selfm")])]])])].

Example resolve_example :
  option_map snd (match resolve_from 20 true ex_aliases [] (YStr "st") with Ok sv => Some sv | _ => None end)
  = Some (YMap [("class", YStr "struct");
                ("members", YSeq [YMap [("a", YMap [("field-type",
                                    YMap [("class", YStr "static-array"); ("length", YInt 2);
                                          ("element-field-type", YMap [("class", YStr "uint"); ("size", YInt 8)])])])];
                                  YMap [("b", YMap [("field-type", YMap [("class", YStr "uint"); ("size", YInt 8)])])]])]).
Proof. reflexivity. Qed.

Example resolve_inherit_example :
  option_map snd (match resolve_from 20 true ex_aliases [] (YStr "der") with Ok sv => Some sv | _ => None end)
  = Some (YMap [("$inherit", YMap [("class", YStr "uint"); ("size", YInt 8)]); ("size", YInt 16)]).
Proof. reflexivity. Qed.

Example resolve_cycle3_example : forall f, is_cfgerr (resolve_from (4 + f) true ex_aliases [] (YStr "x")) = true.
Proof. intros. reflexivity. Qed.

Example resolve_cycle_member_example : forall f, is_cfgerr (resolve_from (3 + f) true ex_aliases [] (YStr "selfm")) = true.
Proof. intros. reflexivity. Qed.
