(* Outcome type shared by the fuelled front-end models of C12 (Include, Alias, Inherit). *)
From Coq Require Import List String.
Import ListNotations.

Inductive res (A : Type) : Type :=
| Ok (a : A)
| CfgErr (why : string)      (* the parser raises _ConfigurationParseError *)
| Crash                      (* the parser raises something else (assert, TypeError, IndexError, ...) *)
| OutOfFuel.                 (* the model ran out of fuel: excluded by the theorems *)
Arguments Ok {A} a.
Arguments CfgErr {A} why.
Arguments Crash {A}.
Arguments OutOfFuel {A}.

Definition rbind {A B} (r : res A) (f : A -> res B) : res B :=
  match r with
  | Ok a => f a
  | CfgErr w => CfgErr w
  | Crash => Crash
  | OutOfFuel => OutOfFuel
  end.

Definition of_option {A} (o : option A) : res A :=
  match o with Some a => Ok a | None => Crash end.

Definition is_cfgerr {A} (r : res A) : bool := match r with CfgErr _ => true | _ => false end.
Definition is_ok {A} (r : res A) : bool := match r with Ok _ => true | _ => false end.

(* sequential map with the first failure winning (a Python `for` loop that may raise) *)
Definition rmapM {A B} (f : A -> res B) : list A -> res (list B) :=
  fix go (l : list A) : res (list B) :=
    match l with
    | [] => Ok []
    | x :: l' => rbind (f x) (fun y => rbind (go l') (fun r => Ok (y :: r)))
    end.

Lemma rbind_ok : forall {A B} (r : res A) (f : A -> res B) b,
  rbind r f = Ok b -> exists a, r = Ok a /\ f a = Ok b.
Proof. intros A B r f b H. destruct r; try discriminate. eauto. Qed.
