(* Access skeleton of `config_parse_v3._Parser._create_fts` and the functions it calls
   (`_create_int_ft`, `_create_enum_ft`, `_create_real_ft`, `_create_string_ft`,
   `_create_static_array_ft`, `_create_dynamic_array_ft`, `_create_struct_ft`,
   `_create_struct_ft_members`, `_alignment_prop`, `_validate_alignment`, `_validate_iden`): every
   Python operation that can raise on an unexpected shape is a primitive returning [Crash e] with
   e the name of the exception type.

   Outcome: [Ok] field type(s) created | [CfgErr] a _ConfigurationParseError is raised |
   [Crash e] another exception | [NoFuel].

   The function works on the node as the final schema sees it; `_normalize_props` (which runs
   between schema validation and `_create_config`: null-valued properties removed, class and
   display base aliases made canonical) is folded into the accessors: [pget] treats a null value
   as an absent key, class / base names are compared modulo their aliases.  Hand-written; tied to
   the real code by the correspondence run of harness/props/c10_model.py. *)
From Coq Require Import List String ZArith Bool.
Import ListNotations.
From BT.Front Require Import Json JsonSchema DocValid.
Open Scope string_scope.

Inductive outcome := Ok | CfgErr | Crash (e : string) | NoFuel.

Definition oseq (a b : outcome) : outcome := match a with Ok => b | _ => a end.
Fixpoint oall {A} (f : A -> outcome) (l : list A) : outcome :=
  match l with [] => Ok | x :: l => oseq (f x) (oall f l) end.

(* node.get(k) after null removal *)
Definition pget (k : string) (m : obj) : option json :=
  match lookup k m with Some JNull => None | o => o end.
(* the non-null entries, in order *)
Definition pentries (m : obj) : obj :=
  filter (fun kx => match snd kx with JNull => false | _ => true end) m.

Definition is_pow2 (z : Z) : bool := Z.eqb (Z.land z (z - 1)) 0.

(* _alignment_prop / _validate_alignment on node.get(prop):
   `assert alignment >= 1`, then `alignment & (alignment - 1)` *)
Definition check_alignment (v : option json) : outcome :=
  match v with
  | None => Ok
  | Some (JInt z) => if Z.ltb z 1 then Crash "AssertionError" else if is_pow2 z then Ok else CfgErr
  | Some (JBool b) => if b then Ok else Crash "AssertionError"
  | Some (JFloat (FFin n d)) => if Z.leb (Z.pos d) n then Crash "TypeError" else Crash "AssertionError"
  | Some (JFloat FPInf) => Crash "TypeError"
  | Some (JFloat _) => Crash "AssertionError"
  | Some _ => Crash "TypeError"
  end.

(* the dict lookup `{...}[node.get('preferred-display-base', 'decimal')]` *)
Definition check_base (v : option json) : outcome :=
  match v with
  | None => Ok
  | Some (JStr s) => if mem_str s base_names then Ok else Crash "KeyError"
  | Some (JArr _) | Some (JObj _) => Crash "TypeError"
  | Some _ => Crash "KeyError"
  end.

Definition need (k : string) (m : obj) : outcome :=
  match pget k m with Some _ => Ok | None => Crash "KeyError" end.

(* `size % 8` in _IntegerFieldType.__init__ when no alignment is given *)
Definition check_size_mod (align : option json) (size : option json) : outcome :=
  match align, size with
  | None, Some (JArr _) | None, Some (JObj _) => Crash "TypeError"
  | None, Some (JStr _) | None, Some (JOther _) => Crash "TypeError"
  | _, _ => Ok
  end.

Definition create_bit_array (m : obj) : outcome :=
  oseq (check_alignment (pget "alignment" m)) (need "size" m).
Definition create_int (m : obj) : outcome :=
  oseq (check_base (pget "preferred-display-base" m))
       (oseq (create_bit_array m) (check_size_mod (pget "alignment" m) (pget "size" m))).

(* one range node of an enumeration mapping *)
Definition unhashable (x : json) : bool := match x with JArr _ | JObj _ => true | _ => false end.
Definition check_range (r : json) : outcome :=
  match r with
  | JArr (a :: b :: _) => if unhashable a || unhashable b then Crash "TypeError" else Ok
  | JArr _ => Crash "IndexError"
  | JInt _ => Ok
  | _ => Crash "AssertionError"
  end.
(* `for range_node in mapping_node` *)
Definition check_mapping (mn : json) : outcome :=
  match mn with
  | JArr l => oall check_range l
  | JStr EmptyString => Ok
  | JStr _ => Crash "AssertionError"
  | JObj [] => Ok
  | JObj _ => Crash "AssertionError"
  | _ => Crash "TypeError"
  end.
Definition create_enum (m : obj) : outcome :=
  match pget "mappings" m with
  | None => Crash "KeyError"
  | Some (JObj mm) => oseq (oall (fun kx => check_mapping (snd kx)) (pentries mm)) (create_int m)
  | Some _ => Crash "AttributeError"
  end.

Inductive cls := CUint | CSint | CUenum | CSenum | CReal | CString | CSArray | CDArray | CStruct.
Definition class_of (s : string) : option cls :=
  if mem_str s uint_names then Some CUint else if mem_str s sint_names then Some CSint
  else if mem_str s uenum_names then Some CUenum else if mem_str s senum_names then Some CSenum
  else if mem_str s real_names then Some CReal else if mem_str s string_names then Some CString
  else if mem_str s sarray_names then Some CSArray else if mem_str s darray_names then Some CDArray
  else if mem_str s struct_names then Some CStruct else None.

(* node['class'] then the lookup in _ft_cls_name_to_create_method *)
Definition class_lookup (node : json) : cls + outcome :=
  match node with
  | JObj m =>
      match pget "class" m with
      | None => inr (Crash "KeyError")
      | Some (JStr s) => match class_of s with Some c => inl c | None => inr (Crash "KeyError") end
      | Some (JArr _) | Some (JObj _) => inr (Crash "TypeError")
      | Some _ => inr (Crash "KeyError")
      end
  | JNull | JBool _ | JInt _ | JFloat _ | JArr _ | JStr _ | JOther _ => inr (Crash "TypeError")
  end.

Definition is_keyword (s : string) : bool := mem_str s ctf_keywords.

Section Create.
  Variable create_fts : json -> outcome * option cls.   (* with less fuel; also the class created *)

  (* _create_array_ft *)
  Definition create_array (m : obj) : outcome :=
    match pget "element-field-type" m with
    | None => Crash "KeyError"
    | Some e =>
        match create_fts e with
        | (Ok, Some CStruct) | (Ok, Some CDArray) => CfgErr
        | (r, _) => r
        end
    end.

  (* _create_struct_ft_members: (outcome, names seen) folded over the members *)
  Fixpoint create_members (seen : list string) (l : list json) : outcome :=
    match l with
    | [] => Ok
    | JObj me :: l =>
        match pentries me with
        | [] => Crash "IndexError"
        | (name, mnode) :: _ =>
            if mem_str name seen then CfgErr
            else if is_keyword name then CfgErr
            else match mnode with
                 | JObj mo =>
                     match pget "field-type" mo with
                     | None => Crash "KeyError"
                     | Some ftn =>
                         match class_lookup ftn with
                         | inr r => r
                         | inl CStruct => CfgErr
                         | inl _ => oseq (fst (create_fts ftn)) (create_members (name :: seen) l)
                         end
                     end
                 | JArr _ | JStr _ => Crash "TypeError"
                 | _ => Crash "TypeError"
                 end
        end
    | JStr _ :: _ | JArr _ :: _ => Crash "AttributeError"
    | _ :: _ => Crash "AttributeError"
    end.

  Definition create_struct (m : obj) : outcome :=
    oseq (check_alignment (pget "minimum-alignment" m))
      (match pget "members" m with
       | None => Ok
       | Some (JArr l) => create_members [] l
       | Some (JStr EmptyString) => Ok
       | Some (JStr _) => Crash "AttributeError"
       | Some (JObj mm) => match pentries mm with [] => Ok | _ => Crash "AttributeError" end
       | Some _ => Crash "TypeError"
       end).

  Definition create_body (node : json) : outcome * option cls :=
    match class_lookup node with
    | inr r => (r, None)
    | inl c =>
        match node with
        | JObj m =>
            (match c with
             | CUint | CSint => create_int m
             | CUenum | CSenum => create_enum m
             | CReal => oseq (create_bit_array m) Ok
             | CString => Ok
             | CSArray => oseq (need "length" m) (create_array m)
             | CDArray => create_array m
             | CStruct => create_struct m
             end, Some c)
        | _ => (Crash "TypeError", None)
        end
    end.
End Create.

Fixpoint create_fts (fuel : nat) (node : json) : outcome * option cls :=
  match fuel with
  | O => (NoFuel, None)
  | S f => create_body (create_fts f) node
  end.

Definition create_ft (fuel : nat) (node : json) : outcome := fst (create_fts fuel node).

Definition is_crash (r : outcome) : bool := match r with Crash _ => true | _ => false end.

(* ---------------------------------------------------------------- correspondence cases *)
(* (field type node, class code: 0 ok, 1 configuration error, 2 crash, exception name) *)
Definition outcome_code (r : outcome) : nat * string :=
  match r with Ok => (0, "") | CfgErr => (1, "") | Crash e => (2, e) | NoFuel => (3, "") end.
Definition cc_case := (json * nat * string)%type.
Definition cc_case_ok (fuel : nat) (c : cc_case) : bool :=
  match c with (j, code, e) =>
    let r := outcome_code (create_ft fuel j) in
    Nat.eqb (fst r) code && String.eqb (snd r) e
  end.
