(* C12 — the patching ("update") mechanism shared by inclusion and field type inheritance.

   Part 1: `update`, a faithful functional model of
           barectf/config_parse_common.py : _Parser._update_node (and its nested
           update_members_node).  The Python mutates `base_node` in place and deep-copies what it
           takes from the overlay; the model returns the new base.  `None` = the Python raises
           (IndexError of `list(base_item)[0]` on an empty mapping item of a base `members` list;
           AttributeError when one of the two nodes is not a mapping, which no caller does).
   Part 2: `patch_spec`, an executable specification written ONLY from
           docs/modules/yaml/partials/patching-rules-table.adoc ("A patching B").
   No proof here (PatchProofs.v). *)
From Coq Require Import List String ZArith Bool.
Import ListNotations.
From BT.Front Require Import Yaml.
Open Scope string_scope.
Open Scope list_scope.

Definition obind {A B} (o : option A) (f : A -> option B) : option B :=
  match o with Some x => f x | None => None end.

(* `olay_key == 'members' and self._major_version == 3` *)
Definition is_members (v3 : bool) (k : string) : bool := v3 && String.eqb k "members".

(* ================================================================== Part 1: the model *)

(* the `for base_item in base_value` loop of update_members_node for one overlay item whose
   single key is n *)
Inductive scan_res : Type :=
| SCrash                                             (* unreachable since the fix of list(base_item)[0] on an empty item *)
| SMiss                                              (* loop ends, append_olay_item stays True *)
| SHit (pre : list yaml) (it : yaml) (post : list yaml).  (* first item whose first key is n *)

Fixpoint scan (n : string) (b : list yaml) : scan_res :=
  match b with
  | [] => SMiss
  | it :: b' =>
      match it with
      | YMap [kv] =>
          (* `if len(base_item) == 1: base_name = list(base_item)[0]` (since fix: commit 44a61d5 in
             /repo; before it the test was on the overlay item and an empty base item crashed) *)
          if String.eqb n (fst kv) then SHit [] it b'
          else match scan n b' with
               | SHit pre it' post => SHit (it :: pre) it' post
               | r => r
               end
      | _ => match scan n b' with
             | SHit pre it' post => SHit (it :: pre) it' post
             | r => r
             end
      end
  end.

Section Entries.
  (* what the body of the loop does with a key present in both nodes: key, base value, overlay value *)
  Variable mv : string -> yaml -> yaml -> option yaml.

  (* one iteration of `for olay_key, olay_value in overlay_node.items()` *)
  Definition update_entry (bl : entries) (kv : string * yaml) : option entries :=
    match lookup (fst kv) bl with
    | None => Some (bl ++ [kv])
    | Some bv => option_map (fun nv => set (fst kv) nv bl) (mv (fst kv) bv (snd kv))
    end.

  Definition update_entries (bl ol : entries) : option entries :=
    fold_left (fun acc kv => obind acc (fun bl => update_entry bl kv)) ol (Some bl).
End Entries.

Section Step.
  (* the recursive call self._update_node(base, overlay) *)
  Variable rec : yaml -> yaml -> option yaml.
  Variable v3 : bool.

  (* one iteration of `for olay_item in olay_value` *)
  Definition members_item (b : list yaml) (oi : yaml) : option (list yaml) :=
    match oi with
    | YMap [kv] =>
        match scan (fst kv) b with
        | SCrash => None
        | SMiss => Some (b ++ [oi])
        | SHit pre it post => option_map (fun it' => pre ++ it' :: post) (rec it oi)
        end
    | _ => Some (b ++ [oi])
    end.

  Definition update_members (b a : list yaml) : option (list yaml) :=
    fold_left (fun acc oi => obind acc (fun b => members_item b oi)) a (Some b).

  (* the three-way `if` on the types of olay_value and base_value, for a key present in base *)
  Definition merge_value (k : string) (bv ov : yaml) : option yaml :=
    match ov, bv with
    | YMap _, YMap _ => rec bv ov
    | YSeq a, YSeq b =>
        if is_members v3 k then option_map YSeq (update_members b a)
        else Some (YSeq (b ++ a))
    | _, _ => Some ov
    end.
End Step.

(* _update_node(base_node, overlay_node); v3 = (self._major_version == 3) *)
Fixpoint update (v3 : bool) (base overlay : yaml) {struct overlay} : option yaml :=
  match overlay, base with
  | YMap ol, YMap bl => option_map YMap (update_entries (merge_value (update v3) v3) bl ol)
  | _, _ => None
  end.

(* ================================================================== Part 2: the specification

   patching-rules-table.adoc, "A patching B", for a given property (key k) of A with value a:
     - the property does not exist in B                     -> keep A's property;
     - a is null / boolean / integer / string (/ float)     -> replace B's property with a;
     - a is a sequence: B's property is also a sequence     -> append the items of a to B's,
         EXCEPT the `members` property of a structure field type: a is considered an ordered
         mapping, apply the mapping rules;   B's property is not a sequence -> replace;
     - a is a mapping:  B's property is also a mapping      -> patch a over B's property
         according to those rules;           B's property is not a mapping -> replace.
   Properties of B that A does not have are kept (that is what "patching" means), in B's order;
   properties only A has come after them, in A's order (the examples of include.adoc show that
   order).  The result is `None` where the table does not say anything: a `members` sequence
   that is not an ordered mapping (an item that is not a single-entry mapping, or a repeated
   name). *)

(* a `members` sequence read as an ordered mapping *)
Fixpoint omap_of (l : list yaml) : option entries :=
  match l with
  | [] => Some []
  | YMap [kv] :: l' => option_map (cons kv) (omap_of l')
  | _ => None
  end.

Definition members_of (m : entries) : list yaml := map (fun kv => YMap [kv]) m.

Definition mapM {A B} (f : A -> option B) : list A -> option (list B) :=
  fix go (l : list A) : option (list B) :=
    match l with
    | [] => Some []
    | x :: l' => match f x with
                 | None => None
                 | Some y => option_map (cons y) (go l')
                 end
    end.

Section SpecStep.
  (* pv k a b : value of property k in "A patching B" when A has a and B has b there *)
  Variable pv : string -> yaml -> yaml -> option yaml.

  (* mapping rules: properties of B (patched where A has them), then the new ones of A *)
  Definition spec_entries (al bl : entries) : option entries :=
    obind (mapM (fun kb => match lookup (fst kb) al with
                           | None => Some kb
                           | Some a => option_map (pair (fst kb)) (pv (fst kb) a (snd kb))
                           end) bl)
          (fun bl' => Some (bl' ++ filter (fun ka => negb (mem (fst ka) (keys bl))) al)).

  (* the same rules on two `members` sequences read as ordered mappings *)
  Definition spec_members (am : entries) (bs : list yaml) : option (list yaml) :=
    obind (omap_of bs) (fun bm =>
    if negb (nodupb (keys am) && nodupb (keys bm)) then None else
    obind (mapM (fun it => match it with
                           | YMap [kb] =>
                               match lookup (fst kb) am with
                               | None => Some it
                               | Some a => option_map (fun v => YMap [(fst kb, v)]) (pv (fst kb) a (snd kb))
                               end
                           | _ => None
                           end) bs)
          (fun bs' => Some (bs' ++ members_of (filter (fun ka => negb (mem (fst ka) (keys bm))) am)))).
End SpecStep.

Fixpoint spec_value (v3 : bool) (k : string) (a b : yaml) {struct b} : option yaml :=
  match b, a with
  | YMap bl, YMap al => option_map YMap (spec_entries (spec_value v3) al bl)
  | YSeq bs, YSeq as_ =>
      if is_members v3 k
      then obind (omap_of as_) (fun am => option_map YSeq (spec_members (spec_value v3) am bs))
      else Some (YSeq (bs ++ as_))
  | _, _ => Some a
  end.

(* effective object of "A patching B" for two objects (mappings) *)
Definition patch_spec (v3 : bool) (A B : yaml) : option yaml :=
  match A, B with
  | YMap _, YMap _ => spec_value v3 "" A B
  | _, _ => None
  end.

(* ================================================================== well-formedness
   What PyYAML + the pre-expansion schemas guarantee of the trees the rules talk about:
   no mapping has a repeated key; under barectf 3 every sequence stored under a key `members`
   is an ordered mapping (single-entry mapping items, distinct names). *)
Definition is_omap (l : list yaml) : bool :=
  match omap_of l with Some m => nodupb (keys m) | None => false end.

Fixpoint wf (v3 : bool) (y : yaml) : bool :=
  match y with
  | YSeq l => forallb (wf v3) l
  | YMap l => nodupb (keys l)
              && forallb (fun kv => wf v3 (snd kv)
                                    && (if is_members v3 (fst kv)
                                        then match snd kv with YSeq s => is_omap s | _ => true end
                                        else true)) l
  | _ => true
  end.

(* ================================================================== correspondence cases *)
(* (major version is 3, base, overlay, what the real _update_node left in base | None if it raised) *)
Definition patch_case : Type := (bool * yaml * yaml * option yaml)%type.

Definition patch_case_ok (c : patch_case) : bool :=
  match c with (v3, b, o, r) => oyaml_eqb (update v3 b o) r end.

(* the specification on a well-formed case agrees with the model (checked again by the theorem
   update_eq_spec; evaluated here only as a cross-check of the generated cases) *)
Definition patch_case_spec_ok (c : patch_case) : bool :=
  match c with (v3, b, o, r) =>
    if wf v3 b && wf v3 o then oyaml_eqb (patch_spec v3 o b) r else true end.
