(* C12 — proofs about Patch.update and Patch.patch_spec, for ALL trees (no bound). *)
From Coq Require Import List String ZArith Bool Lia Arith.
Import ListNotations.
From BT.Front Require Import Yaml Patch.
Open Scope string_scope.
Open Scope list_scope.

(* ================================================================== association lists *)

Lemma eqb_sym' : forall a b, String.eqb a b = String.eqb b a.
Proof. intros. apply String.eqb_sym. Qed.

Lemma lookup_none_mem : forall k l, lookup k l = None -> mem k (keys l) = false.
Proof.
  induction l as [|kv l IH]; simpl; intros H; [reflexivity|].
  destruct (String.eqb (fst kv) k); [discriminate|]. simpl. now apply IH.
Qed.

Lemma lookup_some_mem : forall k l v, lookup k l = Some v -> mem k (keys l) = true.
Proof.
  induction l as [|kv l IH]; simpl; intros v H; [discriminate|].
  destruct (String.eqb (fst kv) k); [reflexivity|]. simpl. now apply IH with v.
Qed.

Lemma mem_false_lookup : forall k l, mem k (keys l) = false -> lookup k l = None.
Proof.
  intros k l H. destruct (lookup k l) eqn:E; [|reflexivity].
  apply lookup_some_mem in E. congruence.
Qed.

Lemma mem_true_lookup : forall k l, mem k (keys l) = true -> exists v, lookup k l = Some v.
Proof.
  intros k l H. destruct (lookup k l) eqn:E; [eauto|].
  apply lookup_none_mem in E. congruence.
Qed.

Lemma mem_app : forall k l1 l2, mem k (l1 ++ l2) = mem k l1 || mem k l2.
Proof. induction l1 as [|x l1 IH]; simpl; intros; [reflexivity|]. now rewrite IH, orb_assoc. Qed.

Lemma mem_In : forall k l, mem k l = true <-> In k l.
Proof.
  induction l as [|x l IH]; simpl; [split; [discriminate|tauto]|].
  rewrite orb_true_iff, IH, String.eqb_eq. tauto.
Qed.

Lemma mem_false_In : forall k l, mem k l = false <-> ~ In k l.
Proof. intros. rewrite <- mem_In. destruct (mem k l); split; congruence. Qed.

Lemma lookup_app : forall k l1 l2,
  lookup k (l1 ++ l2) = match lookup k l1 with Some v => Some v | None => lookup k l2 end.
Proof.
  induction l1 as [|kv l1 IH]; simpl; intros; [reflexivity|].
  destruct (String.eqb (fst kv) k); [reflexivity|apply IH].
Qed.

Lemma keys_app : forall l1 l2, keys (l1 ++ l2) = keys l1 ++ keys l2.
Proof. intros. unfold keys. apply map_app. Qed.

Lemma keys_set : forall k v l, keys (set k v l) = keys l.
Proof.
  induction l as [|kv l IH]; simpl; [reflexivity|].
  destruct (String.eqb (fst kv) k) eqn:E; simpl.
  - apply String.eqb_eq in E. now rewrite E.
  - now rewrite IH.
Qed.

Lemma lookup_set_same : forall k v l b, lookup k l = Some b -> lookup k (set k v l) = Some v.
Proof.
  induction l as [|kv l IH]; simpl; intros b H; [discriminate|].
  destruct (String.eqb (fst kv) k) eqn:E; simpl.
  - now rewrite String.eqb_refl.
  - rewrite E. now apply IH with b.
Qed.

Lemma lookup_set_other : forall k k' v l, k <> k' -> lookup k' (set k v l) = lookup k' l.
Proof.
  induction l as [|kv l IH]; simpl; intros H; [reflexivity|].
  destruct (String.eqb (fst kv) k) eqn:E; simpl.
  - apply String.eqb_eq in E. rewrite E. apply String.eqb_neq in H. now rewrite H.
  - destruct (String.eqb (fst kv) k'); [reflexivity|now apply IH].
Qed.

Lemma lookup_In : forall k l v, lookup k l = Some v -> In (k, v) l.
Proof.
  induction l as [|[k0 v0] l IH]; simpl; intros v H; [discriminate|].
  destruct (String.eqb k0 k) eqn:E.
  - apply String.eqb_eq in E. inversion H. subst. now left.
  - right. now apply IH.
Qed.

Lemma In_keys : forall k v (l : entries), In (k, v) l -> In k (keys l).
Proof. intros. unfold keys. change k with (fst (k, v)). now apply in_map. Qed.

Lemma nodupb_NoDup : forall l, nodupb l = true <-> NoDup l.
Proof.
  induction l as [|x l IH]; simpl.
  - split; [constructor|reflexivity].
  - rewrite andb_true_iff, negb_true_iff, mem_false_In, IH. split.
    + intros [H1 H2]. now constructor.
    + intros H. inversion H. tauto.
Qed.

(* with distinct keys, lookup finds exactly the entries *)
Lemma In_lookup : forall k v l, nodupb (keys l) = true -> In (k, v) l -> lookup k l = Some v.
Proof.
  induction l as [|[k0 v0] l IH]; simpl; intros Hn H; [tauto|].
  apply andb_prop in Hn. destruct Hn as [Hm Hn]. apply negb_true_iff in Hm.
  destruct H as [H|H].
  - inversion H. subst. now rewrite String.eqb_refl.
  - destruct (String.eqb k0 k) eqn:E.
    + apply String.eqb_eq in E. subst. apply In_keys in H. apply mem_In in H. congruence.
    + now apply IH.
Qed.

Lemma nodupb_app_single : forall k l, nodupb l = true -> mem k l = false -> nodupb (l ++ [k]) = true.
Proof.
  induction l as [|x l IH]; simpl; intros Hn Hm; [reflexivity|].
  apply andb_prop in Hn. destruct Hn as [H1 H2]. apply orb_false_iff in Hm. destruct Hm as [H3 H4].
  rewrite mem_app. simpl. rewrite orb_false_r.
  apply negb_true_iff in H1. rewrite H1. simpl. rewrite eqb_sym' in H3. rewrite H3. simpl. now apply IH.
Qed.

(* ================================================================== option plumbing *)

Lemma fold_obind_none : forall {A B} (f : A -> B -> option A) l,
  fold_left (fun acc x => obind acc (fun a => f a x)) l None = None.
Proof. induction l; simpl; auto. Qed.

Lemma update_entries_nil : forall mv bl, update_entries mv bl [] = Some bl.
Proof. reflexivity. Qed.

Lemma update_entries_cons : forall mv bl kv ol,
  update_entries mv bl (kv :: ol) = obind (update_entry mv bl kv) (fun bl1 => update_entries mv bl1 ol).
Proof.
  intros. unfold update_entries. simpl. destruct (update_entry mv bl kv); simpl; [reflexivity|].
  apply fold_obind_none.
Qed.

Lemma update_members_cons : forall rec b oi a,
  update_members rec b (oi :: a) = obind (members_item rec b oi) (fun b1 => update_members rec b1 a).
Proof.
  intros. unfold update_members. simpl. destruct (members_item rec b oi); simpl; [reflexivity|].
  apply fold_obind_none.
Qed.

Lemma mapM_app : forall {A B} (f : A -> option B) l1 l2,
  mapM f (l1 ++ l2) = obind (mapM f l1) (fun r1 => option_map (app r1) (mapM f l2)).
Proof.
  induction l1 as [|x l1 IH]; intros; simpl.
  - destruct (mapM f l2); reflexivity.
  - destruct (f x); [|reflexivity]. rewrite IH. destruct (mapM f l1); simpl; [|reflexivity].
    destruct (mapM f l2); reflexivity.
Qed.

Lemma mapM_ext_in : forall {A B} (f g : A -> option B) l,
  (forall x, In x l -> f x = g x) -> mapM f l = mapM g l.
Proof.
  induction l as [|x l IH]; intros H; simpl; [reflexivity|].
  rewrite (H x (or_introl eq_refl)). rewrite IH; [reflexivity|]. intros; apply H; now right.
Qed.

Lemma mapM_id : forall {A} (f : A -> option A) l, (forall x, In x l -> f x = Some x) -> mapM f l = Some l.
Proof.
  induction l as [|x l IH]; intros H; simpl; [reflexivity|].
  rewrite (H x (or_introl eq_refl)). rewrite IH; [reflexivity|]. intros; apply H; now right.
Qed.

Lemma mapM_none_in : forall {A B} (f : A -> option B) l x, In x l -> f x = None -> mapM f l = None.
Proof.
  induction l as [|y l IH]; intros x Hin Hx; [destruct Hin|].
  simpl. destruct Hin as [->|Hin].
  - now rewrite Hx.
  - destruct (f y); [|reflexivity]. now rewrite (IH x Hin Hx).
Qed.

(* ================================================================== the fold, per key
   (no hypothesis on the base; the overlay has no repeated key) *)
Section Fold.
  Variable mv : string -> yaml -> yaml -> option yaml.

  Lemma update_entries_char : forall ol bl rl,
    nodupb (keys ol) = true -> update_entries mv bl ol = Some rl ->
    keys rl = keys bl ++ filter (fun k => negb (mem k (keys bl))) (keys ol)
    /\ forall k, lookup k rl =
         match lookup k ol with
         | None => lookup k bl
         | Some a => match lookup k bl with None => Some a | Some b => mv k b a end
         end.
  Proof.
    induction ol as [|[k0 a0] ol IH]; intros bl rl Hn H.
    - inversion H. subst. simpl. rewrite app_nil_r. auto.
    - rewrite update_entries_cons in H.
      destruct (update_entry mv bl (k0, a0)) as [bl1|] eqn:E; [|discriminate]. simpl in H.
      simpl in Hn. apply andb_prop in Hn. destruct Hn as [Hm Hn]. apply negb_true_iff in Hm.
      destruct (IH _ _ Hn H) as [Hk Hl]. clear IH H.
      pose proof (mem_false_lookup _ _ Hm) as Hk0.
      unfold update_entry in E. simpl in E.
      destruct (lookup k0 bl) as [b0|] eqn:Lb.
      + destruct (mv k0 b0 a0) as [nv|] eqn:M; simpl in E; [|discriminate].
        inversion E. subst bl1. clear E. split.
        * rewrite Hk, keys_set. simpl. rewrite (lookup_some_mem _ _ _ Lb). reflexivity.
        * intros k. rewrite Hl. simpl. destruct (String.eqb k0 k) eqn:E.
          -- apply String.eqb_eq in E. subst k. rewrite Hk0, Lb.
             rewrite (lookup_set_same _ _ _ _ Lb). now rewrite M.
          -- apply String.eqb_neq in E. now rewrite (lookup_set_other _ _ _ _ E).
      + inversion E. subst bl1. clear E. split.
        * rewrite Hk, keys_app. simpl. rewrite (lookup_none_mem _ _ Lb). simpl.
          rewrite <- app_assoc. simpl. f_equal. f_equal.
          apply filter_ext_in. intros k Hin. rewrite mem_app. simpl. rewrite orb_false_r.
          destruct (String.eqb k0 k) eqn:E; [|now rewrite orb_false_r].
          apply String.eqb_eq in E. subst k. apply mem_In in Hin. congruence.
        * intros k. rewrite Hl. simpl. rewrite lookup_app. simpl.
          destruct (String.eqb k0 k) eqn:E.
          -- apply String.eqb_eq in E. subst k. now rewrite Hk0, Lb.
          -- destruct (lookup k bl); reflexivity.
  Qed.

  (* ------------------------------------------------ the fold as a parallel, per-key definition
     (= Patch.spec_entries, with the arguments of the value function swapped) *)
  Definition mv_flip (k : string) (a b : yaml) : option yaml := mv k b a.

  Lemma mapM_set_par : forall k0 a0 b0 nv ol bl,
    nodupb (keys bl) = true -> lookup k0 bl = Some b0 -> lookup k0 ol = None -> mv k0 b0 a0 = Some nv ->
    mapM (fun kb => match lookup (fst kb) ol with
                    | None => Some kb
                    | Some a => option_map (pair (fst kb)) (mv_flip (fst kb) a (snd kb))
                    end) (set k0 nv bl)
    = mapM (fun kb => match lookup (fst kb) ((k0, a0) :: ol) with
                      | None => Some kb
                      | Some a => option_map (pair (fst kb)) (mv_flip (fst kb) a (snd kb))
                      end) bl.
  Proof.
    intros k0 a0 b0 nv ol. induction bl as [|[k1 v1] bl IH]; intros Hn Lb Lo M; [discriminate|].
    simpl in Hn. apply andb_prop in Hn. destruct Hn as [Hm Hn]. apply negb_true_iff in Hm.
    simpl in Lb. simpl set. destruct (String.eqb k1 k0) eqn:E.
    - apply String.eqb_eq in E. subst k1. inversion Lb. subst v1. clear Lb.
      cbn [mapM fst snd lookup]. rewrite Lo, String.eqb_refl. unfold mv_flip at 2. rewrite M. simpl.
      f_equal. apply mapM_ext_in. intros [k v] Hin. simpl.
      destruct (String.eqb k0 k) eqn:E; [|reflexivity].
      apply String.eqb_eq in E. subst k. apply In_keys in Hin. apply mem_In in Hin. congruence.
    - cbn [mapM fst snd lookup]. rewrite eqb_sym' in E. rewrite E.
      destruct (lookup k1 ol); [destruct (option_map _ _); [|reflexivity]|]; now rewrite IH.
  Qed.

  Lemma update_entries_par : forall ol bl,
    nodupb (keys bl) = true -> nodupb (keys ol) = true ->
    update_entries mv bl ol = spec_entries mv_flip ol bl.
  Proof.
    induction ol as [|[k0 a0] ol IH]; intros bl Hb Hn.
    - simpl. unfold spec_entries. rewrite mapM_id; [simpl; now rewrite app_nil_r|]. now intros [k v] _.
    - rewrite update_entries_cons.
      simpl in Hn. apply andb_prop in Hn. destruct Hn as [Hm Hn]. apply negb_true_iff in Hm.
      pose proof (mem_false_lookup _ _ Hm) as Hk0.
      unfold update_entry. simpl fst. simpl snd.
      destruct (lookup k0 bl) as [b0|] eqn:Lb.
      + destruct (mv k0 b0 a0) as [nv|] eqn:M; simpl.
        * rewrite IH; [|now rewrite keys_set|assumption].
          unfold spec_entries. rewrite (mapM_set_par k0 a0 b0 nv); auto.
          rewrite keys_set. simpl filter. rewrite (lookup_some_mem _ _ _ Lb). reflexivity.
        * unfold spec_entries. symmetry.
          rewrite (mapM_none_in _ bl (k0, b0)); [reflexivity|now apply lookup_In|].
          simpl. rewrite String.eqb_refl. unfold mv_flip. now rewrite M.
      + simpl. rewrite IH; [|rewrite keys_app; simpl; apply nodupb_app_single; [assumption|now apply lookup_none_mem]|assumption].
        unfold spec_entries. rewrite mapM_app. simpl. rewrite Hk0. simpl.
        pose proof (lookup_none_mem _ _ Lb) as Hmb.
        assert (Hx : mapM (fun kb => match lookup (fst kb) ol with
                                     | None => Some kb
                                     | Some a => option_map (pair (fst kb)) (mv_flip (fst kb) a (snd kb)) end) bl
                     = mapM (fun kb => match lookup (fst kb) ((k0, a0) :: ol) with
                                       | None => Some kb
                                       | Some a => option_map (pair (fst kb)) (mv_flip (fst kb) a (snd kb)) end) bl).
        { apply mapM_ext_in. intros [k v] Hin. simpl.
          destruct (String.eqb k0 k) eqn:E; [|reflexivity].
          apply String.eqb_eq in E. subst k. apply In_keys in Hin. apply mem_In in Hin. congruence. }
        rewrite Hx. clear Hx. destruct (mapM _ bl) as [bl'|]; simpl; [|reflexivity].
        rewrite Hmb. simpl. rewrite <- app_assoc. simpl. f_equal. f_equal. f_equal.
        apply filter_ext_in. intros [k v] Hin. simpl. rewrite keys_app, mem_app. simpl. rewrite orb_false_r.
        destruct (String.eqb k0 k) eqn:E; [|now rewrite orb_false_r].
        apply String.eqb_eq in E. subst k. apply In_keys in Hin. apply mem_In in Hin. congruence.
  Qed.
End Fold.

Lemma spec_entries_ext : forall pv1 pv2 al bl,
  (forall k a b, lookup k al = Some a -> In (k, b) bl -> pv1 k a b = pv2 k a b) ->
  spec_entries pv1 al bl = spec_entries pv2 al bl.
Proof.
  intros pv1 pv2 al bl H. unfold spec_entries. f_equal.
  apply mapM_ext_in. intros [k b] Hin. simpl.
  destruct (lookup k al) eqn:E; [|reflexivity]. now rewrite (H _ _ _ E Hin).
Qed.

(* ================================================================== unfolding of the fixpoints *)

Lemma update_map_map : forall v3 bl ol,
  update v3 (YMap bl) (YMap ol) = option_map YMap (update_entries (merge_value (update v3) v3) bl ol).
Proof. reflexivity. Qed.

Lemma update_some_map : forall v3 b o r, update v3 b o = Some r ->
  exists bl ol rl, b = YMap bl /\ o = YMap ol /\ r = YMap rl /\
                   update_entries (merge_value (update v3) v3) bl ol = Some rl.
Proof.
  intros v3 b o r H. destruct o; try discriminate. destruct b; try discriminate.
  rewrite update_map_map in H.
  destruct (update_entries _ _ _) as [rl|] eqn:E; [|discriminate]. inversion H. eauto 8.
Qed.

Lemma update_single : forall v3 n b a,
  update v3 (YMap [(n, b)]) (YMap [(n, a)])
  = option_map (fun nv => YMap [(n, nv)]) (merge_value (update v3) v3 n b a).
Proof.
  intros. rewrite update_map_map, update_entries_cons. unfold update_entry.
  cbn [lookup fst snd]. rewrite String.eqb_refl.
  destruct (merge_value (update v3) v3 n b a); [|reflexivity].
  cbn [option_map obind set fst]. rewrite String.eqb_refl. reflexivity.
Qed.

(* ================================================================== `members` lists as ordered maps *)

Lemma members_of_app : forall l1 l2, members_of (l1 ++ l2) = members_of l1 ++ members_of l2.
Proof. intros. unfold members_of. apply map_app. Qed.

Lemma scan_members_of : forall n bm,
  (lookup n bm = None /\ scan n (members_of bm) = SMiss) \/
  (exists pre b post, bm = pre ++ (n, b) :: post /\ lookup n pre = None /\
     scan n (members_of bm) = SHit (members_of pre) (YMap [(n, b)]) (members_of post)).
Proof.
  induction bm as [|[k v] bm IH]; [left; auto|].
  cbn [members_of map scan lookup fst snd].
  destruct (String.eqb n k) eqn:E.
  - apply String.eqb_eq in E. subst k. right. exists [], v, bm. auto.
  - rewrite (eqb_sym' k n), E. destruct IH as [[L S]|(pre & b & post & Hb & L & S)].
    + left. fold (members_of bm). now rewrite S.
    + right. exists ((k, v) :: pre), b, post. fold (members_of bm). rewrite S. subst bm.
      cbn [lookup fst snd app members_of map]. rewrite (eqb_sym' k n), E. auto.
Qed.

Lemma lookup_mid : forall n b pre post, lookup n pre = None -> lookup n (pre ++ (n, b) :: post) = Some b.
Proof. intros. rewrite lookup_app, H. simpl. now rewrite String.eqb_refl. Qed.

Lemma set_mid : forall n b nv pre post, lookup n pre = None ->
  set n nv (pre ++ (n, b) :: post) = pre ++ (n, nv) :: post.
Proof.
  induction pre as [|kv pre IH]; intros post H; simpl.
  - now rewrite String.eqb_refl.
  - simpl in H. destruct (String.eqb (fst kv) n); [discriminate|]. now rewrite IH.
Qed.

Section Members.
  Variable rec : yaml -> yaml -> option yaml.
  Variable mv : string -> yaml -> yaml -> option yaml.
  Hypothesis Hrec : forall n b a,
    rec (YMap [(n, b)]) (YMap [(n, a)]) = option_map (fun nv => YMap [(n, nv)]) (mv n b a).

  Lemma members_item_entries : forall bm n a,
    members_item rec (members_of bm) (YMap [(n, a)]) = option_map members_of (update_entry mv bm (n, a)).
  Proof.
    intros. unfold members_item, update_entry. cbn [fst snd].
    destruct (scan_members_of n bm) as [[L S]|(pre & b & post & Hb & L & S)]; rewrite S.
    - rewrite L. simpl. now rewrite members_of_app.
    - subst bm. rewrite (lookup_mid _ _ _ _ L), Hrec.
      destruct (mv n b a) as [nv|]; simpl; [|reflexivity].
      rewrite (set_mid _ _ _ _ _ L), members_of_app. reflexivity.
  Qed.

  Lemma update_members_entries : forall am bm,
    update_members rec (members_of bm) (members_of am) = option_map members_of (update_entries mv bm am).
  Proof.
    induction am as [|[n a] am IH]; intros bm; [reflexivity|].
    cbn [members_of map]. fold (members_of am).
    rewrite update_members_cons, update_entries_cons, members_item_entries.
    destruct (update_entry mv bm (n, a)) as [bm1|]; simpl; [apply IH|reflexivity].
  Qed.
End Members.

(* The `members` merge of the implementation IS the update of the ordered mappings the two lists
   denote (first entry with the name is patched in place, unknown names are appended in order);
   no hypothesis on repeated names. *)
Theorem members_omap : forall v3 bm am,
  update_members (update v3) (members_of bm) (members_of am)
  = option_map members_of (update_entries (merge_value (update v3) v3) bm am).
Proof. intros. apply update_members_entries. intros. apply update_single. Qed.

Lemma omap_of_members_of : forall l m, omap_of l = Some m -> l = members_of m.
Proof.
  induction l as [|x l IH]; intros m H; simpl in H.
  - inversion H. reflexivity.
  - destruct x as [| | | | | |es]; try discriminate. destruct es as [|kv [|? ?]]; try discriminate.
    destruct (omap_of l) as [m'|] eqn:E; simpl in H; [|discriminate].
    inversion H. subst. simpl. f_equal. now apply IH.
Qed.

Lemma omap_of_members_of_id : forall m, omap_of (members_of m) = Some m.
Proof. induction m as [|kv m IH]; simpl; [reflexivity|]. fold (members_of m). now rewrite IH. Qed.

Lemma spec_members_entries : forall pv am bm,
  nodupb (keys am) = true -> nodupb (keys bm) = true ->
  spec_members pv am (members_of bm) = option_map members_of (spec_entries pv am bm).
Proof.
  intros pv am bm Ha Hb. unfold spec_members. rewrite omap_of_members_of_id. cbn [obind].
  rewrite Ha, Hb. cbn [andb negb]. unfold spec_entries.
  assert (Hm : forall bm0,
    mapM (fun it => match it with
                    | YMap [kb] =>
                        match lookup (fst kb) am with
                        | None => Some it
                        | Some a => option_map (fun v => YMap [(fst kb, v)]) (pv (fst kb) a (snd kb))
                        end
                    | _ => None
                    end) (members_of bm0)
    = option_map members_of
        (mapM (fun kb => match lookup (fst kb) am with
                         | None => Some kb
                         | Some a => option_map (pair (fst kb)) (pv (fst kb) a (snd kb))
                         end) bm0)).
  { induction bm0 as [|[k b] bm0 IH]; [reflexivity|].
    cbn [members_of map mapM fst snd]. fold (members_of bm0). rewrite IH.
    destruct (lookup k am) as [a|].
    - destruct (pv k a b); simpl; [|reflexivity]. destruct (mapM _ bm0); reflexivity.
    - destruct (mapM _ bm0); reflexivity. }
  rewrite Hm. destruct (mapM _ bm) as [bm'|]; simpl; [|reflexivity].
  now rewrite members_of_app.
Qed.

(* ================================================================== size (for the induction) *)

Fixpoint ysize (y : yaml) : nat :=
  match y with
  | YSeq l => S (fold_right (fun x n => ysize x + n) 0 l)
  | YMap l => S (fold_right (fun kv n => ysize (snd kv) + n) 0 l)
  | _ => 1
  end.

Lemma ysize_seq_in : forall x l, In x l -> ysize x < ysize (YSeq l).
Proof.
  intros x l H. simpl. induction l as [|y l IH]; [destruct H|].
  simpl. destruct H as [->|H]; [lia|]. apply IH in H. lia.
Qed.

Lemma ysize_map_in : forall k v l, In (k, v) l -> ysize v < ysize (YMap l).
Proof.
  intros k v l H. simpl. induction l as [|y l IH]; [destruct H|].
  simpl. destruct H as [->|H]; [simpl; lia|]. apply IH in H. lia.
Qed.

Lemma In_members_of : forall kv m, In kv m -> In (YMap [kv]) (members_of m).
Proof. intros. unfold members_of. now apply (in_map (fun kv => YMap [kv])). Qed.

(* ================================================================== well-formedness, unfolded *)

Definition members_ok (v3 : bool) (k : string) (y : yaml) : bool :=
  if is_members v3 k then match y with YSeq s => is_omap s | _ => true end else true.

Lemma wf_map_nodup : forall v3 l, wf v3 (YMap l) = true -> nodupb (keys l) = true.
Proof. intros v3 l H. simpl in H. now apply andb_prop in H. Qed.

Lemma wf_map_in : forall v3 l k v, wf v3 (YMap l) = true -> In (k, v) l ->
  wf v3 v = true /\ members_ok v3 k v = true.
Proof.
  intros v3 l k v H Hin. simpl in H. apply andb_prop in H. destruct H as [_ H].
  rewrite forallb_forall in H. apply H in Hin. cbn [fst snd] in Hin.
  apply andb_prop in Hin. exact Hin.
Qed.

Lemma wf_seq_in : forall v3 l x, wf v3 (YSeq l) = true -> In x l -> wf v3 x = true.
Proof. intros v3 l x H Hin. simpl in H. rewrite forallb_forall in H. now apply H. Qed.

(* ================================================================== update = patch_spec *)

Lemma merge_eq_spec : forall v3 n a, ysize a < n -> forall b k,
  wf v3 a = true -> wf v3 b = true -> members_ok v3 k a = true -> members_ok v3 k b = true ->
  merge_value (update v3) v3 k b a = spec_value v3 k a b.
Proof.
  intros v3. induction n as [|n IHn]; intros a Hs b k Wa Wb Ma Mb; [lia|].
  destruct a as [| | | | |as_|al].
  1-5: destruct b; reflexivity.
  - destruct b as [| | | | |bs|bl]; try reflexivity.
    unfold merge_value. cbn [spec_value].
    destruct (is_members v3 k) eqn:Em; [|reflexivity].
    unfold members_ok in Ma, Mb. rewrite Em in Ma, Mb. unfold is_omap in Ma, Mb.
    destruct (omap_of as_) as [am|] eqn:Oa; [|discriminate].
    destruct (omap_of bs) as [bm|] eqn:Ob; [|discriminate].
    pose proof (omap_of_members_of _ _ Oa) as Ha. pose proof (omap_of_members_of _ _ Ob) as Hb.
    subst as_ bs. cbn [obind].
    rewrite members_omap, update_entries_par by assumption.
    rewrite spec_members_entries by assumption.
    f_equal. f_equal. apply spec_entries_ext. intros n' a' b' La Hin. unfold mv_flip.
    apply lookup_In in La.
    pose proof (wf_seq_in _ _ _ Wa (In_members_of _ _ La)) as Wa'.
    pose proof (wf_seq_in _ _ _ Wb (In_members_of _ _ Hin)) as Wb'.
    destruct (wf_map_in _ _ _ _ Wa' (or_introl eq_refl)) as [Wa2 Ma2].
    destruct (wf_map_in _ _ _ _ Wb' (or_introl eq_refl)) as [Wb2 Mb2].
    apply IHn; try assumption.
    pose proof (ysize_seq_in _ _ (In_members_of _ _ La)) as S1.
    pose proof (ysize_map_in n' a' [(n', a')] (or_introl eq_refl)) as S2. lia.
  - destruct b as [| | | | |bs|bl]; try reflexivity.
    unfold merge_value. rewrite update_map_map. cbn [spec_value]. f_equal.
    rewrite update_entries_par by (eapply wf_map_nodup; eassumption).
    apply spec_entries_ext. intros n' a' b' La Hin. unfold mv_flip.
    apply lookup_In in La.
    destruct (wf_map_in _ _ _ _ Wa La) as [Wa2 Ma2].
    destruct (wf_map_in _ _ _ _ Wb Hin) as [Wb2 Mb2].
    apply IHn; try assumption.
    pose proof (ysize_map_in _ _ _ La). lia.
Qed.

(* On well-formed trees the implementation's update IS the documented patching. *)
Theorem update_eq_spec : forall v3 base overlay,
  wf v3 base = true -> wf v3 overlay = true ->
  update v3 base overlay = patch_spec v3 overlay base.
Proof.
  intros v3 base overlay Wb Wo.
  destruct overlay as [| | | | | |ol]; try reflexivity.
  destruct base as [| | | | | |bl]; try reflexivity.
  unfold patch_spec.
  rewrite <- (merge_eq_spec v3 (S (ysize (YMap ol))) (YMap ol) (Nat.lt_succ_diag_r _) (YMap bl) "" Wo Wb).
  - reflexivity.
  - unfold members_ok, is_members. simpl. now rewrite andb_false_r.
  - unfold members_ok, is_members. simpl. now rewrite andb_false_r.
Qed.

(* ================================================================== the documented table, per key *)

(* lookup_update: the value of every key of the result, stated independently of the order in
   which the implementation folds over the overlay.  Only hypothesis: the overlay mapping has no
   repeated key (PyYAML mappings never have). *)
Theorem lookup_update : forall v3 bl ol rl k,
  nodupb (keys ol) = true ->
  update v3 (YMap bl) (YMap ol) = Some (YMap rl) ->
  lookup k rl =
    match lookup k ol, lookup k bl with
    | None, b => b
    | Some a, None => Some a
    | Some (YMap a), Some (YMap b) => update v3 (YMap b) (YMap a)
    | Some (YSeq a), Some (YSeq b) =>
        if is_members v3 k then option_map YSeq (update_members (update v3) b a)
        else Some (YSeq (b ++ a))
    | Some a, Some _ => Some a
    end.
Proof.
  intros v3 bl ol rl k Hn H. rewrite update_map_map in H.
  destruct (update_entries _ bl ol) as [rl'|] eqn:E; [|discriminate]. inversion H. subst rl'.
  destruct (update_entries_char _ _ _ _ Hn E) as [_ Hl]. rewrite Hl.
  destruct (lookup k ol) as [a|]; [|reflexivity].
  destruct (lookup k bl) as [b|]; [|destruct a; reflexivity].
  unfold merge_value. destruct a, b; reflexivity.
Qed.

(* keys_update: base keys keep their positions, new overlay keys follow in overlay order *)
Theorem keys_update : forall v3 bl ol rl,
  nodupb (keys ol) = true ->
  update v3 (YMap bl) (YMap ol) = Some (YMap rl) ->
  keys rl = keys bl ++ filter (fun k => negb (mem k (keys bl))) (keys ol).
Proof.
  intros v3 bl ol rl Hn H. rewrite update_map_map in H.
  destruct (update_entries _ bl ol) as [rl'|] eqn:E; [|discriminate]. inversion H. subst rl'.
  now destruct (update_entries_char _ _ _ _ Hn E).
Qed.

(* null_replaces: a null in the overlay replaces whatever the base has ("resets" the property:
   the normalisation stage of the parser then deletes null properties, see C11) *)
Theorem null_replaces : forall v3 bl ol rl k,
  nodupb (keys ol) = true ->
  update v3 (YMap bl) (YMap ol) = Some (YMap rl) ->
  lookup k ol = Some YNull -> lookup k rl = Some YNull.
Proof.
  intros v3 bl ol rl k Hn H L. rewrite (lookup_update _ _ _ _ k Hn H), L.
  destruct (lookup k bl) as [b|]; [destruct b|]; reflexivity.
Qed.

(* members_positions: the result of a `members` merge, read as an ordered mapping: existing names
   keep their positions, new names are appended in overlay order, and the value under a common
   name is the value-level patch (so e.g. a mapping member object is merged, a string replaced) *)
Theorem members_positions : forall v3 bm am r,
  nodupb (keys am) = true ->
  update_members (update v3) (members_of bm) (members_of am) = Some r ->
  exists rm, r = members_of rm
    /\ keys rm = keys bm ++ filter (fun n => negb (mem n (keys bm))) (keys am)
    /\ forall n, lookup n rm =
         match lookup n am with
         | None => lookup n bm
         | Some a => match lookup n bm with
                     | None => Some a
                     | Some b => merge_value (update v3) v3 n b a
                     end
         end.
Proof.
  intros v3 bm am r Hn H. rewrite members_omap in H.
  destruct (update_entries _ bm am) as [rm|] eqn:E; [|discriminate]. inversion H.
  exists rm. split; [reflexivity|]. exact (update_entries_char _ _ _ _ Hn E).
Qed.

(* ================================================================== no crash on well-formed trees *)

Lemma mapM_some : forall {A B} (f : A -> option B) l,
  (forall x, In x l -> exists y, f x = Some y) -> exists r, mapM f l = Some r.
Proof.
  induction l as [|x l IH]; intros H; [now exists []|].
  simpl. destruct (H x (or_introl eq_refl)) as [y ->].
  destruct IH as [r ->]; [intros; apply H; now right|]. simpl. eauto.
Qed.

Lemma spec_entries_some : forall pv al bl,
  (forall k a b, lookup k al = Some a -> In (k, b) bl -> exists r, pv k a b = Some r) ->
  exists r, spec_entries pv al bl = Some r.
Proof.
  intros pv al bl H. unfold spec_entries.
  destruct (mapM_some (fun kb => match lookup (fst kb) al with
                                 | None => Some kb
                                 | Some a => option_map (pair (fst kb)) (pv (fst kb) a (snd kb))
                                 end) bl) as [r Hr].
  - intros [k b] Hin. simpl. destruct (lookup k al) as [a|] eqn:E; [|eauto].
    destruct (H _ _ _ E Hin) as [r ->]. simpl. eauto.
  - rewrite Hr. simpl. eauto.
Qed.

Lemma spec_value_total : forall v3 n a, ysize a < n -> forall b k,
  wf v3 a = true -> wf v3 b = true -> members_ok v3 k a = true -> members_ok v3 k b = true ->
  exists r, spec_value v3 k a b = Some r.
Proof.
  intros v3. induction n as [|n IHn]; intros a Hs b k Wa Wb Ma Mb; [lia|].
  destruct b as [| | | | |bs|bl]; try (destruct a; simpl; eauto; fail).
  - destruct a as [| | | | |as_|al]; try (simpl; eauto; fail).
    cbn [spec_value]. destruct (is_members v3 k) eqn:Em; [|eauto].
    unfold members_ok in Ma, Mb. rewrite Em in Ma, Mb. unfold is_omap in Ma, Mb.
    destruct (omap_of as_) as [am|] eqn:Oa; [|discriminate].
    destruct (omap_of bs) as [bm|] eqn:Ob; [|discriminate].
    pose proof (omap_of_members_of _ _ Oa) as Ha. pose proof (omap_of_members_of _ _ Ob) as Hb.
    subst as_ bs. cbn [obind]. rewrite spec_members_entries by assumption.
    destruct (spec_entries_some (spec_value v3) am bm) as [r Hr]; [|rewrite Hr; simpl; eauto].
    intros n' a' b' La Hin. apply lookup_In in La.
    pose proof (wf_seq_in _ _ _ Wa (In_members_of _ _ La)) as Wa'.
    pose proof (wf_seq_in _ _ _ Wb (In_members_of _ _ Hin)) as Wb'.
    destruct (wf_map_in _ _ _ _ Wa' (or_introl eq_refl)) as [Wa2 Ma2].
    destruct (wf_map_in _ _ _ _ Wb' (or_introl eq_refl)) as [Wb2 Mb2].
    apply IHn; try assumption.
    pose proof (ysize_seq_in _ _ (In_members_of _ _ La)) as S1.
    pose proof (ysize_map_in n' a' [(n', a')] (or_introl eq_refl)) as S2. lia.
  - destruct a as [| | | | |as_|al]; try (simpl; eauto; fail).
    cbn [spec_value].
    destruct (spec_entries_some (spec_value v3) al bl) as [r Hr]; [|rewrite Hr; simpl; eauto].
    intros n' a' b' La Hin. apply lookup_In in La.
    destruct (wf_map_in _ _ _ _ Wa La) as [Wa2 Ma2].
    destruct (wf_map_in _ _ _ _ Wb Hin) as [Wb2 Mb2].
    apply IHn; try assumption.
    pose proof (ysize_map_in _ _ _ La). lia.
Qed.

(* update_total: on well-formed mappings _update_node does not raise *)
Theorem update_total : forall v3 bl ol,
  wf v3 (YMap bl) = true -> wf v3 (YMap ol) = true ->
  exists rl, update v3 (YMap bl) (YMap ol) = Some (YMap rl).
Proof.
  intros v3 bl ol Wb Wo. rewrite (update_eq_spec _ _ _ Wb Wo). unfold patch_spec.
  destruct (spec_value_total v3 (S (ysize (YMap ol))) (YMap ol) (Nat.lt_succ_diag_r _) (YMap bl) "" Wo Wb) as [r Hr].
  - unfold members_ok, is_members. simpl. now rewrite andb_false_r.
  - unfold members_ok, is_members. simpl. now rewrite andb_false_r.
  - rewrite Hr. cbn [spec_value] in Hr.
    destruct (spec_entries _ ol bl) as [rl|]; [|discriminate]. inversion Hr. eauto.
Qed.

(* an empty mapping item in a base `members` list is skipped by the name search (it used to raise
   IndexError before fix: commit 44a61d5 in /repo); the overlay item is appended *)
Example update_empty_base_item :
  update true (YMap [("members", YSeq [YMap []])]) (YMap [("members", YSeq [YMap [("a", YInt 1)]])]) =
  Some (YMap [("members", YSeq [YMap []; YMap [("a", YInt 1)]])]).
Proof. reflexivity. Qed.

Lemma scan_no_crash n b : scan n b <> SCrash.
Proof.
  induction b as [|it b IH]; cbn [scan]; [discriminate|].
  destruct it as [| | | | | |m]; try (destruct (scan n b); [contradiction|discriminate|discriminate]).
  destruct m as [|kv [|kv2 m]]; try (destruct (scan n b); [contradiction|discriminate|discriminate]).
  destruct (String.eqb n (fst kv)); [discriminate|].
  destruct (scan n b); [contradiction|discriminate|discriminate].
Qed.

(* ================================================================== non-vacuity of wf *)
Definition ex_base : yaml :=
  YMap [("class", YStr "structure");
        ("members", YSeq [YMap [("msg", YStr "string")];
                          YMap [("user_id", YMap [("field-type", YStr "uint16")])]]);
        ("mappings", YMap [("COMPOSE", YSeq [YInt 56; YSeq [YInt 100; YInt 299]]); ("DIRTY", YSeq [YInt 0])]);
        ("x", YNull)].
Definition ex_overlay : yaml :=
  YMap [("members", YSeq [YMap [("src", YMap [("field-type", YMap [("class", YStr "static-array"); ("length", YInt 4)])])];
                          YMap [("user_id", YMap [("field-type", YStr "int8")])]]);
        ("mappings", YMap [("COMPOSE", YSeq [YInt (-22)])]);
        ("class", YNull);
        ("y", YBool true)].

Example wf_example : wf true ex_base = true /\ wf true ex_overlay = true.
Proof. split; reflexivity. Qed.

Example update_example :
  update true ex_base ex_overlay = Some (
  YMap [("class", YNull);
        ("members", YSeq [YMap [("msg", YStr "string")];
                          YMap [("user_id", YMap [("field-type", YStr "int8")])];
                          YMap [("src", YMap [("field-type", YMap [("class", YStr "static-array"); ("length", YInt 4)])])]]);
        ("mappings", YMap [("COMPOSE", YSeq [YInt 56; YSeq [YInt 100; YInt 299]; YInt (-22)]); ("DIRTY", YSeq [YInt 0])]);
        ("x", YNull);
        ("y", YBool true)]).
Proof. reflexivity. Qed.

(* under barectf 2 the key `members` has nothing special: plain append *)
Example update_example_v2 :
  update false (YMap [("members", YSeq [YMap [("a", YInt 0)]])]) (YMap [("members", YSeq [YMap [("a", YInt 1)]])])
  = Some (YMap [("members", YSeq [YMap [("a", YInt 0)]; YMap [("a", YInt 1)]])]).
Proof. reflexivity. Qed.
