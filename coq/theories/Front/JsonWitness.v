(* Witnesses: documents that the REGENERATED barectf 3 schemas accept although they violate a
   documented constraint (the `_refuted` theorems of Props/C09.v), and former witnesses (defects
   repaired in /repo) that the regenerated schemas must now reject.  Acceptance is decided by
   evaluating the validator (vm_compute); the harness (harness/props/c09_witness.py) checks that
   each witness is, term for term, the document it replays on the real front end. *)
From Coq Require Import List String ZArith Bool Lia.
Import ListNotations.
From BT.Front Require Import Json JsonSchema JsonSchemaLemmas DocValid JsonSchemaDoc.
Open Scope string_scope.

Definition K_ft := "config/3/field-type#/definitions/ft".
Definition K_config := "config/3/config#".

Definition uint8 : json := JObj [("class", JStr "uint"); ("size", JInt 8)].

(* former S14 witness (repaired): a static array without `length` *)
Definition w_S14 : json :=
  JObj [("class", JStr "static-array"); ("element-field-type", uint8)].
(* former S4 witness (repaired): a dynamic array with an unknown property and no element field type *)
Definition w_S4 : json :=
  JObj [("class", JStr "dynamic-array"); ("zz", JInt 1)].
(* former S19 witness (repaired): size 8.0 (a float) *)
Definition w_S18 : json :=
  JObj [("class", JStr "uint"); ("size", JFloat (FFin 8 1))].
(* former witness (repaired): enumeration with null mappings *)
Definition w_enum_null : json :=
  JObj [("class", JStr "uenum"); ("size", JInt 8); ("mappings", JNull)].
(* former witness (repaired): structure member whose name is not an identifier *)
Definition w_member : json :=
  JObj [("class", JStr "struct"); ("members", JArr [JObj [("a-b", JObj [("field-type", uint8)])]])].

(* a minimal effective configuration around one data stream type object / trace properties *)
Definition ert1 : json :=
  JObj [("payload-field-type",
         JObj [("class", JStr "struct");
               ("members", JArr [JObj [("a", JObj [("field-type", uint8)])]])])].
Definition cfg_of (trace_extra : list (string * json)) (dst_name : string) (dst_extra : list (string * json)) : json :=
  JObj [("trace", JObj (trace_extra ++
          [("type", JObj [("native-byte-order", JStr "le");
                          ("data-stream-types",
                           JObj [(dst_name, JObj (dst_extra ++ [("event-record-types", JObj [("e", ert1)])]))])])]))].

(* former S3 witness (repaired in Python, /repo ef9d952: the schemas still accept it, `_create_dst`
   refuses it): total size field type (8 bits) narrower than the content size field type (16 bits) *)
Definition w_S3 : json :=
  cfg_of [] "d"
    [("$features", JObj [("packet", JObj [("total-size-field-type", JObj [("class", JStr "uint"); ("size", JInt 8)]);
                                          ("content-size-field-type", JObj [("class", JStr "uint"); ("size", JInt 16)])])])].
(* former witness (repaired): unknown property in the trace object *)
Definition w_trace_prop : json := cfg_of [("zz", JInt 1)] "d" [].
(* data stream type named "d\n" *)
Definition nl : string := String (Ascii.ascii_of_nat 10) EmptyString.
Definition w_name_nl : json := cfg_of [] ("d" ++ nl) [].

(* ---------------------------------------------------------------- acceptance (evaluation) *)

Lemma VK_eval key j : validate S3 200 (SRef key) j = Valid -> VK key j.
Proof. intros H. exists 200. exact H. Qed.

Lemma w_S14_rejected : validate S3 200 (SRef K_ft) w_S14 = Invalid. Proof. vm_compute. reflexivity. Qed.
Lemma w_S4_rejected : validate S3 200 (SRef K_ft) w_S4 = Invalid. Proof. vm_compute. reflexivity. Qed.
Lemma w_S18_rejected : validate S3 200 (SRef K_ft) w_S18 = Invalid. Proof. vm_compute. reflexivity. Qed.
Lemma w_enum_null_rejected : validate S3 200 (SRef K_ft) w_enum_null = Invalid. Proof. vm_compute. reflexivity. Qed.
Lemma w_member_rejected : validate S3 200 (SRef K_ft) w_member = Invalid. Proof. vm_compute. reflexivity. Qed.
Lemma w_S3_valid : VK K_config w_S3. Proof. apply VK_eval. vm_compute. reflexivity. Qed.
Lemma w_trace_prop_rejected : validate S3 200 (SRef K_config) w_trace_prop = Invalid. Proof. vm_compute. reflexivity. Qed.
Lemma w_name_nl_valid : VK K_config w_name_nl. Proof. apply VK_eval. vm_compute. reflexivity. Qed.

(* ---------------------------------------------------------------- violation of the documentation *)

(* the class decides which documented shape applies *)
Lemma str_in_class m c names :
  lookup "class" m = Some (JStr c) -> required m "class" (str_in names) -> In c names.
Proof. intros L (x & Hx & s & -> & Hin). rewrite L in Hx. injection Hx as ->. exact Hin. Qed.

Lemma ft_doc_inv strict m c :
  ft_doc strict (JObj m) -> lookup "class" m = Some (JStr c) ->
  (In c uint_names /\ int_ft_doc strict uint_names (JObj m)) \/
  (In c sint_names /\ int_ft_doc strict sint_names (JObj m)) \/
  (In c uenum_names /\ enum_ft_doc strict uenum_names (JObj m)) \/
  (In c senum_names /\ enum_ft_doc strict senum_names (JObj m)) \/
  (In c real_names /\ real_ft_doc strict (JObj m)) \/
  (In c string_names /\ string_ft_doc (JObj m)) \/
  (In c sarray_names /\ static_array_ft_doc strict (ft_doc strict) (JObj m)) \/
  (In c darray_names /\ dynamic_array_ft_doc strict (ft_doc strict) (JObj m)) \/
  (In c struct_names /\ struct_ft_doc strict (ft_doc strict) (JObj m)).
Proof.
  intros H L. inversion H as [j D|j D|j D|j D|j D|j D|j D|j D|j D]; subst j; pose proof D as D';
    destruct D' as (m' & E & C & _); injection E as <-; pose proof (str_in_class _ _ _ L C);
    tauto.
Qed.

Ltac wrong_class := match goal with H : In _ _ |- _ => simpl in H; intuition discriminate end.
Ltac by_class H :=
  eapply ft_doc_inv in H; [|reflexivity];
  destruct H as [[C H]|[[C H]|[[C H]|[[C H]|[[C H]|[[C H]|[[C H]|[[C H]|[C H]]]]]]]]];
  try wrong_class; clear C.


Lemma w_S3_not_doc : ~ doc_total_ge_content w_S3.
Proof.
  intros H. specialize (H _ (or_introl eq_refl)). unfold total_ge_content in H. simpl in H. lia.
Qed.

(* walking down config_doc true to the trace object / the data stream types mapping *)
Lemma w_name_nl_not_doc : ~ config_doc true w_name_nl.
Proof.
  intros (m & E & (t & Lt & (mt & Et & (tt & Ltt & TT) & _)) & _). injection E as <-. injection Lt as <-.
  injection Et as <-. injection Ltt as <-.
  destruct TT as (mtt & Ett & _ & _ & _ & _ & _ & _ & (ds & Lds & (md & Ed & _ & N)) & _).
  injection Ett as <-. injection Lds as <-. injection Ed as <-.
  destruct (N _ _ (or_introl eq_refl)) as [I _]. discriminate I.
Qed.

(* ---------------------------------------------------------------- statements for Props/C09.v *)

Lemma VK_of_validate key f j : validate Schemas3.store f (SRef key) j = Valid -> VK key j.
Proof. intros H. exists f. exact H. Qed.

Definition accepts3 (key : string) (j : json) : Prop :=
  exists f, validate Schemas3.store f (SRef key) j = Valid.

Lemma config_accepts_doc j : accepts3 "config/3/config#" j -> config_doc false j.
Proof. exact (config_shape j). Qed.
Lemma ft_accepts_doc j : accepts3 "config/3/field-type#/definitions/ft" j -> ft_doc false j.
Proof. exact (ft_tree j). Qed.

Lemma refuted_ft (w : json) : VK K_ft w -> ~ ft_doc true w ->
  exists j, accepts3 "config/3/field-type#/definitions/ft" j /\ ~ ft_doc true j.
Proof. intros A B. exists w. split; [exact A|exact B]. Qed.
Lemma refuted_cfg (P : json -> Prop) (w : json) : VK K_config w -> ~ P w ->
  exists j, accepts3 "config/3/config#" j /\ ~ P j.
Proof. intros A B. exists w. split; [exact A|exact B]. Qed.

(* non-vacuity: a complete effective configuration that is accepted, and one that is not *)
Definition good_cfg : json :=
  cfg_of [("environment", JObj [("v", JInt 1)])] "d"
    [("$is-default", JBool true);
     ("packet-context-field-type-extra-members",
      JArr [JObj [("m", JObj [("field-type",
              JObj [("class", JStr "static-array"); ("length", JInt 2); ("element-field-type", uint8)])])]])].
Definition bad_cfg : json :=
  cfg_of [] "d"
    [("packet-context-field-type-extra-members",
      JArr [JObj [("m", JObj [("field-type", JObj [("class", JStr "uint"); ("size", JInt 65)])])]])].
Lemma good_cfg_valid : validate Schemas3.store 200 (SRef "config/3/config#") good_cfg = Valid.
Proof. vm_compute. reflexivity. Qed.
Lemma bad_cfg_invalid : validate Schemas3.store 200 (SRef "config/3/config#") bad_cfg = Invalid.
Proof. vm_compute. reflexivity. Qed.
