(* C13: numeric IDs of data stream types / event record types.
   barectf/config.py:   for index, x in enumerate(sorted(SET, key=lambda x: x.name)): x._id = index
   Model only (executable); proofs in IdsProofs.v. *)
From Coq Require Import List NArith Bool.
Import ListNotations.
From BT.Front Require Import Prefix.
Open Scope N_scope.

Section Sort.
  Context {A : Type} (leb : A -> A -> bool).
  Fixpoint insert (x : A) (l : list A) : list A :=
    match l with
    | [] => [x]
    | y :: t => if leb x y then x :: l else y :: insert x t
    end.
  Definition sort (l : list A) : list A := fold_right insert [] l.
End Sort.

(* sorted(names): Python compares str by code point, lexicographically *)
Definition sort_names : list str -> list str := sort str_leb.

(* enumerate(sorted(...)) *)
Fixpoint enumerate_from {A} (i : N) (l : list A) : list (A * N) :=
  match l with
  | [] => []
  | x :: t => (x, i) :: enumerate_from (i + 1) t
  end.

Definition assign (names : list str) : list (str * N) := enumerate_from 0 (sort_names names).

Fixpoint lookup (n : str) (m : list (str * N)) : option N :=
  match m with
  | [] => None
  | (k, v) :: t => if str_eqb k n then Some v else lookup n t
  end.

Definition id_of (names : list str) (n : str) : option N := lookup n (assign names).

(* number of names smaller than n *)
Definition rank (names : list str) (n : str) : N :=
  N.of_nat (List.length (filter (fun m => str_ltb m n) names)).

(* ---- correspondence cases: (names in the order the caller listed them, ids the real code gave
   to each of them, in the same order) *)
Definition opt_eqb (a : option N) (b : N) : bool :=
  match a with Some x => x =? b | None => false end.

Definition ids_case_ok (c : list str * list N) : bool :=
  let names := fst c in
  Nat.eqb (List.length names) (List.length (snd c)) &&
  forallb (fun p => opt_eqb (id_of names (fst p)) (snd p) && (rank names (fst p) =? snd p))
          (combine names (snd c)).

Fixpoint failing {A} (ok : A -> bool) (i : nat) (l : list A) : list nat :=
  match l with
  | [] => []
  | x :: t => if ok x then failing ok (S i) t else i :: failing ok (S i) t
  end.
