(* C13 obligations on the regenerated plan (Gen/TemplatePlan.v): discharged by computation on every
   check; they fail (and with them Props/C13.v) as soon as a template iterates one of the
   name-hashed sets without `| sort`, or includes / calls something outside the plan. *)
From Coq Require Import List NArith Bool String.
Import ListNotations.
From BT.Front Require Import Prefix Ids Template TemplateProofs.
From BT.Gen Require Import TemplatePlan.

Lemma plan_sorted_ok : plan_sorted templates macros = true.
Proof. vm_compute. reflexivity. Qed.

Lemma plan_closed_ok : plan_closed templates macros = true.
Proof. vm_compute. reflexivity. Qed.

(* the plan does contain loops over the name-hashed sets (the obligation is not vacuous) *)
Lemma plan_has_set_loops : Nat.ltb 0 (plan_set_loops templates macros) = true.
Proof. vm_compute. reflexivity. Qed.

(* every Python loop over the sets was classified (the translator fails closed otherwise) and
   none of the three classes depends on the iteration order: PySorted sorts first, PyFindByName
   returns the unique element with a given name, PyKeyedFill is covered by fold_insert_perm *)
Lemma py_loops_nonempty : Nat.ltb 0 (List.length py_loops) = true.
Proof. vm_compute. reflexivity. Qed.

(* the real public header template renders (enough fuel, toy interpretation) and gives the same
   text under the identity and the reversing oracle *)
Definition header_name : str := s2l "c/barectf.h.j2"%string.
Definition header_tmpl : tmpl := match tlookup templates header_name with Some t => t | None => Nop end.

Lemma header_in_plan : In (header_name, header_tmpl) templates.
Proof.
  unfold header_tmpl.
  destruct (tlookup templates header_name) as [t|] eqn:E; [|vm_compute in E; discriminate].
  clear -E. revert E. generalize templates. induction t0 as [|[k v] r IH]; cbn [tlookup]; intro E; [discriminate|].
  destruct (str_eqb k header_name) eqn:K.
  - inversion E; subst. left. apply IdsProofs.str_eqb_eq in K. subst. reflexivity.
  - right. apply IH. exact E.
Qed.

Lemma header_renders :
  isSome (Toy.run templates macros 2000 Toy.o_rev header_tmpl) = true /\
  Toy.run templates macros 2000 Toy.o_id header_tmpl = Toy.run templates macros 2000 Toy.o_rev header_tmpl.
Proof. vm_compute. split; reflexivity. Qed.
