(* C11 — proofs about Front/Effective.v (models in Normalize.v, LogLevel.v, Effective.v).
   All statements quantify over ALL trees, file systems and inclusion directory lists. *)
From Coq Require Import List String Ascii ZArith Bool Lia.
Import ListNotations.
From BT.Front Require Import Yaml YamlRes Patch PatchProofs Include IncludeProofs Alias Inherit Normalize LogLevel Effective.
Open Scope string_scope.
Open Scope list_scope.

(* ================================================================== association lists *)
Lemma set_same : forall k v l, lookup k l = Some v -> set k v l = l.
Proof.
  induction l as [|[k' v'] l IH]; simpl; intros H; [reflexivity|].
  destruct (String.eqb k' k) eqn:E.
  - apply String.eqb_eq in E. inversion H. now subst.
  - f_equal. now apply IH.
Qed.

Lemma forallb_lookup : forall (P : string * yaml -> bool) l k v,
  forallb P l = true -> lookup k l = Some v -> P (k, v) = true.
Proof.
  intros P l k v H L. apply lookup_In in L. rewrite forallb_forall in H. now apply H.
Qed.

Lemma has_lookup : forall k l, has k l = true -> exists v, lookup k l = Some v.
Proof. intros k l H. now apply mem_true_lookup. Qed.

Lemma lookup_has : forall k l v, lookup k l = Some v -> has k l = true.
Proof. intros k l v H. unfold has. eapply lookup_some_mem; eauto. Qed.

Lemma has_false_lookup : forall k l, has k l = false -> lookup k l = None.
Proof. intros k l H. now apply mem_false_lookup. Qed.

Lemma lookup_none_has : forall k l, lookup k l = None -> has k l = false.
Proof. intros k l H. now apply lookup_none_mem. Qed.

Lemma keys_in_lookup_none : forall allowed l k, keys_in allowed l = true -> mem k allowed = false -> lookup k l = None.
Proof.
  intros allowed l k H M. destruct (lookup k l) eqn:L; [|reflexivity].
  unfold keys_in in H. pose proof (forallb_lookup _ _ _ _ H L) as F. simpl in F. congruence.
Qed.

Lemma lookup_remove_other : forall k k' l, k <> k' -> lookup k' (remove k l) = lookup k' l.
Proof.
  induction l as [|[a b] l IH]; simpl; intros N; [reflexivity|].
  destruct (String.eqb a k) eqn:E.
  - apply String.eqb_eq in E. subst a. destruct (String.eqb k k') eqn:E2; [apply String.eqb_eq in E2; contradiction|reflexivity].
  - simpl. destruct (String.eqb a k'); [reflexivity|]. now apply IH.
Qed.

Lemma mem_remove : forall k k' l, mem k' (keys (remove k l)) = true -> mem k' (keys l) = true.
Proof.
  induction l as [|[a b] l IH]; simpl; intros H; [assumption|].
  destruct (String.eqb a k) eqn:E.
  - rewrite H. apply orb_true_r.
  - simpl in H. destruct (String.eqb a k'); [reflexivity|]. now apply IH.
Qed.

Lemma nodup_remove : forall k l, nodupb (keys l) = true -> nodupb (keys (remove k l)) = true.
Proof.
  induction l as [|[a b] l IH]; simpl; intros H; [reflexivity|].
  apply andb_prop in H. destruct H as [H1 H2].
  destruct (String.eqb a k); [assumption|]. simpl. rewrite IH by assumption. rewrite andb_true_r.
  destruct (mem a (keys (remove k l))) eqn:M; [|reflexivity].
  apply mem_remove in M. rewrite M in H1. discriminate.
Qed.

Lemma lookup_remove_same : forall k l, nodupb (keys l) = true -> lookup k (remove k l) = None.
Proof.
  induction l as [|[a b] l IH]; simpl; intros H; [reflexivity|].
  apply andb_prop in H. destruct H as [H1 H2].
  destruct (String.eqb a k) eqn:E.
  - apply String.eqb_eq in E. subst a. apply mem_false_lookup. now destruct (mem k (keys l)).
  - simpl. rewrite E. now apply IH.
Qed.

Lemma forallb_set : forall (P : string * yaml -> bool) k v l,
  forallb P l = true -> P (k, v) = true -> forallb P (set k v l) = true.
Proof.
  induction l as [|[a b] l IH]; simpl; intros H Pk; [reflexivity|].
  apply andb_prop in H. destruct H as [H1 H2].
  destruct (String.eqb a k); simpl; [now rewrite Pk, H2 | now rewrite H1, IH].
Qed.

Lemma forallb_remove : forall (P : string * yaml -> bool) k l,
  forallb P l = true -> forallb P (remove k l) = true.
Proof.
  induction l as [|[a b] l IH]; simpl; intros H; [reflexivity|].
  apply andb_prop in H. destruct H as [H1 H2].
  destruct (String.eqb a k); simpl; [assumption | now rewrite H1, IH].
Qed.

Lemma has_set : forall k k' v l, has k' (set k v l) = has k' l.
Proof. intros. unfold has. now rewrite keys_set. Qed.

Lemma rmapM_id : forall {A} (f : A -> res A) l, (forall x, In x l -> f x = Ok x) -> rmapM f l = Ok l.
Proof.
  induction l as [|x l IH]; simpl; intros H; [reflexivity|].
  rewrite H by now left. simpl. rewrite IH by (intros; apply H; now right). reflexivity.
Qed.

(* ================================================================== spelling tables *)
Lemma canon_class_idem : forall s, canon_class (canon_class s) = canon_class s.
Proof.
  intros s. unfold canon_class.
  destruct (String.eqb s "uint" || String.eqb s "unsigned-int") eqn:E1; [reflexivity|].
  destruct (String.eqb s "sint" || String.eqb s "signed-int") eqn:E2; [reflexivity|].
  destruct (String.eqb s "uenum" || String.eqb s "unsigned-enum") eqn:E3; [reflexivity|].
  destruct (String.eqb s "senum" || String.eqb s "signed-enum") eqn:E4; [reflexivity|].
  destruct (String.eqb s "str") eqn:E5; [reflexivity|].
  destruct (String.eqb s "struct") eqn:E6; [reflexivity|].
  now rewrite E1, E2, E3, E4, E5, E6.
Qed.

Lemma canon_base_idem : forall s, canon_base (canon_base s) = canon_base s.
Proof.
  intros s. unfold canon_base.
  destruct (String.eqb s "bin") eqn:E1; [reflexivity|].
  destruct (String.eqb s "oct") eqn:E2; [reflexivity|].
  destruct (String.eqb s "dec") eqn:E3; [reflexivity|].
  destruct (String.eqb s "hex") eqn:E4; [reflexivity|].
  now rewrite E1, E2, E3, E4.
Qed.

Lemma fix_scalar_idem : forall k s, fix_scalar k (fix_scalar k s) = fix_scalar k s.
Proof.
  intros k s. unfold fix_scalar. destruct (String.eqb k "class"); [apply canon_class_idem|].
  destruct (String.eqb k "preferred-display-base"); [apply canon_base_idem | reflexivity].
Qed.

Ltac mem_cases H :=
  apply mem_In in H; simpl in H;
  repeat (destruct H as [H|H]; [subst; reflexivity|]); contradiction.

Lemma canon_class_spelling : forall s, mem s class_spellings = true -> mem (canon_class s) class_spellings = true.
Proof. intros s H. unfold class_spellings in H. mem_cases H. Qed.

Lemma canon_class_canonical : forall s, mem s class_spellings = true -> mem (canon_class s) canonical_classes = true.
Proof. intros s H. unfold class_spellings in H. mem_cases H. Qed.

Lemma canon_base_spelling : forall s, mem s base_spellings = true -> mem (canon_base s) base_spellings = true.
Proof. intros s H. unfold base_spellings in H. mem_cases H. Qed.

Lemma canon_bo_canonical : forall s, mem s bo_spellings = true -> mem (canon_bo s) canonical_bos = true.
Proof. intros s H. unfold bo_spellings in H. mem_cases H. Qed.

Lemma canon_bo_fixed : forall s, mem s canonical_bos = true -> canon_bo s = s.
Proof. intros s H. unfold canonical_bos in H. mem_cases H. Qed.

Lemma canonical_bo_spelling : forall s, mem s canonical_bos = true -> mem s bo_spellings = true.
Proof. intros s H. unfold canonical_bos in H. mem_cases H. Qed.

(* ================================================================== the walk *)
Definition nv (k : string) (v : yaml) : yaml :=
  match v with YStr s => YStr (fix_scalar k s) | _ => norm v end.

Definition is_null (v : yaml) : bool := match v with YNull => true | _ => false end.

Lemma norm_entry_eq : forall kv, norm_entry kv = if is_null (snd kv) then [] else [(fst kv, nv (fst kv) (snd kv))].
Proof. intros [k v]. unfold norm_entry, nv. simpl. destruct v; reflexivity. Qed.

Lemma norm_map : forall l, norm (YMap l) = YMap (norm_entries l).
Proof. reflexivity. Qed.

Lemma norm_entries_cons : forall kv l, norm_entries (kv :: l) = norm_entry kv ++ norm_entries l.
Proof. reflexivity. Qed.

Lemma nv_not_null : forall k v, is_null v = false -> is_null (nv k v) = false.
Proof. intros k v H. destruct v; simpl in *; try reflexivity; discriminate. Qed.

Theorem nf_norm_id : forall y, nf y = true -> norm y = y.
Proof.
  induction y as [| | | | |l IH|l IH] using yaml_ind'; intros H; try reflexivity.
  - simpl in *. f_equal. induction IH as [|x l Hx _ IHl]; [reflexivity|].
    simpl in H. apply andb_prop in H. destruct H as [H1 H2]. simpl. now rewrite Hx, IHl.
  - rewrite norm_map. f_equal. simpl in H. induction IH as [|[k v] l Hx _ IHl]; [reflexivity|].
    simpl in H. apply andb_prop in H. destruct H as [H1 H2].
    rewrite norm_entries_cons, IHl by assumption. unfold norm_entry. cbn [fst snd] in *.
    destruct v; try discriminate H1; try (rewrite Hx by exact H1); try reflexivity.
    apply String.eqb_eq in H1. now rewrite H1.
Qed.

Theorem nf_norm : forall y, nf (norm y) = true.
Proof.
  induction y as [| | | | |l IH|l IH] using yaml_ind'; try reflexivity.
  - simpl. induction IH as [|x l Hx _ IHl]; [reflexivity|]. simpl. now rewrite Hx, IHl.
  - rewrite norm_map. change (forallb (fun kv => match snd kv with
                                 | YNull => false
                                 | YStr s => String.eqb (fix_scalar (fst kv) s) s
                                 | _ => nf (snd kv)
                                 end) (norm_entries l) = true).
    induction IH as [|[k v] l Hx _ IHl]; [reflexivity|].
    rewrite norm_entries_cons, forallb_app, IHl, andb_true_r. unfold norm_entry. cbn [fst snd] in *.
    destruct v; cbn [forallb fst snd andb]; try reflexivity.
    + rewrite fix_scalar_idem. now rewrite String.eqb_refl.
    + cbn [norm] in *. now rewrite Hx.
    + rewrite norm_map in *. now rewrite Hx.
Qed.

Theorem norm_idem : forall y, norm (norm y) = norm y.
Proof. intros y. apply nf_norm_id, nf_norm. Qed.

Lemma mem_keys_norm_entries : forall k l, mem k (keys (norm_entries l)) = true -> mem k (keys l) = true.
Proof.
  induction l as [|[a b] l IH]; intros H; [assumption|].
  rewrite norm_entries_cons, keys_app, mem_app in H. simpl.
  apply orb_prop in H. destruct H as [H|H].
  - rewrite norm_entry_eq in H. simpl in H. destruct (is_null b); simpl in H; [discriminate|].
    rewrite orb_false_r in H. now rewrite H.
  - rewrite IH by assumption. apply orb_true_r.
Qed.

Lemma nodup_norm_entries : forall l, nodupb (keys l) = true -> nodupb (keys (norm_entries l)) = true.
Proof.
  induction l as [|[a b] l IH]; intros H; [reflexivity|].
  simpl in H. apply andb_prop in H. destruct H as [H1 H2].
  rewrite norm_entries_cons, norm_entry_eq. simpl. destruct (is_null b); simpl; [now apply IH|].
  rewrite IH by assumption. rewrite andb_true_r.
  destruct (mem a (keys (norm_entries l))) eqn:M; [|reflexivity].
  apply mem_keys_norm_entries in M. rewrite M in H1. discriminate.
Qed.

Lemma lookup_norm_entries : forall k l, nodupb (keys l) = true ->
  lookup k (norm_entries l) = match lookup k l with
                              | Some v => if is_null v then None else Some (nv k v)
                              | None => None
                              end.
Proof.
  induction l as [|[a b] l IH]; intros H; [reflexivity|].
  simpl in H. apply andb_prop in H. destruct H as [H1 H2].
  rewrite norm_entries_cons, norm_entry_eq. simpl.
  destruct (String.eqb a k) eqn:E.
  - apply String.eqb_eq in E. subst a. destruct (is_null b) eqn:N; simpl.
    + apply mem_false_lookup. destruct (mem k (keys (norm_entries l))) eqn:M; [|reflexivity].
      apply mem_keys_norm_entries in M. rewrite M in H1. discriminate.
    + now rewrite String.eqb_refl.
  - destruct (is_null b); simpl; [|rewrite E]; now apply IH.
Qed.

Lemma has_norm_entries : forall k l v, nodupb (keys l) = true -> lookup k l = Some v -> is_null v = false ->
  has k (norm_entries l) = true.
Proof.
  intros k l v H L N. eapply lookup_has. rewrite lookup_norm_entries, L, N by assumption. reflexivity.
Qed.

Lemma has_norm_entries_false : forall k l, has k l = false -> has k (norm_entries l) = false.
Proof.
  intros k l H. unfold has in *. destruct (mem k (keys (norm_entries l))) eqn:M; [|reflexivity].
  apply mem_keys_norm_entries in M. congruence.
Qed.

Lemma forallb_norm_entries : forall (P Q : string * yaml -> bool) l,
  (forall k v, In (k, v) l -> P (k, v) = true -> is_null v = false -> Q (k, nv k v) = true) ->
  forallb P l = true -> forallb Q (norm_entries l) = true.
Proof.
  induction l as [|[a b] l IH]; intros HPQ H; [reflexivity|].
  simpl in H. apply andb_prop in H. destruct H as [H1 H2].
  rewrite norm_entries_cons, forallb_app, IH; [|intros; apply HPQ; [now right|assumption..]|assumption].
  rewrite andb_true_r, norm_entry_eq. simpl. destruct (is_null b) eqn:N; [reflexivity|]. simpl.
  rewrite HPQ; [reflexivity|now left|assumption..].
Qed.

Lemma keys_in_norm_entries : forall allowed l, keys_in allowed l = true -> keys_in allowed (norm_entries l) = true.
Proof.
  intros allowed l H. unfold keys_in in *. eapply forallb_norm_entries; [|exact H]. intros k v _ M _. exact M.
Qed.

(* ================================================================== the gate is stable under the walk *)
Lemma ft_ok_eq : forall st nl,
  ft_ok st (YMap nl) =
    nodupb (keys nl) &&
    match lookup "class" nl with
    | Some (YStr cls) =>
        mem cls class_spellings &&
        (if String.eqb (canon_class cls) "dynamic-array" && negb st then true
         else forallb (ft_clause st (canon_class cls)) nl
              && (if String.eqb (canon_class cls) "static-array" || String.eqb (canon_class cls) "dynamic-array"
                  then has "element-field-type" nl else true))
    | _ => false
    end.
Proof. reflexivity. Qed.

Lemma ft_ok_is_map : forall st y, ft_ok st y = true -> exists nl, y = YMap nl.
Proof. intros st y H. destruct y; try discriminate H. eauto. Qed.

Lemma fix_scalar_class : forall s, fix_scalar "class" s = canon_class s.
Proof. reflexivity. Qed.

Lemma fix_scalar_pdb : forall s, fix_scalar "preferred-display-base" s = canon_base s.
Proof. reflexivity. Qed.

Definition P_norm (st : bool) (y : yaml) : Prop :=
  (ft_ok st y = true -> ft_ok st (norm y) = true) /\
  (member_val_ok st y = true -> member_val_ok st (norm y) = true) /\
  (member_item_ok st y = true -> member_item_ok st (norm y) = true) /\
  (members_val_ok st y = true -> members_val_ok st (norm y) = true).

Lemma blind_member_norm : forall mv, blind_member_ok mv = true -> blind_member_ok (norm mv) = true.
Proof.
  intros mv H. destruct mv as [| | | | | |ml]; try discriminate H.
  rewrite norm_map. simpl in H. apply andb_prop in H. destruct H as [N H].
  destruct (lookup "field-type" ml) as [[| | | | | |fl]|] eqn:L; try discriminate H.
  apply andb_prop in H. destruct H as [N2 H].
  destruct (lookup "class" fl) as [c|] eqn:Lc; [|discriminate H].
  assert (Nc : is_null c = false) by (destruct c; try reflexivity; discriminate H).
  unfold blind_member_ok. rewrite nodup_norm_entries by assumption. simpl.
  rewrite lookup_norm_entries, L by assumption. simpl.
  rewrite nodup_norm_entries by assumption. simpl.
  rewrite lookup_norm_entries, Lc, Nc by assumption.
  pose proof (nv_not_null "class" c Nc) as Q. destruct (nv "class" c); try reflexivity. discriminate Q.
Qed.

Lemma ft_clause_norm : forall st c k v,
  P_norm st v -> ft_clause st c (k, v) = true -> is_null v = false -> ft_clause st c (k, nv k v) = true.
Proof.
  intros st c k v [P1 [_ [_ P4]]] H N. unfold ft_clause in *. cbn [fst snd] in *.
  apply andb_prop in H. destruct H as [M H]. rewrite M. simpl.
  destruct (String.eqb k "preferred-display-base") eqn:E1.
  { apply String.eqb_eq in E1. subst k. destruct v; try discriminate H; try discriminate N.
    simpl. rewrite fix_scalar_pdb. now apply canon_base_spelling. }
  destruct (String.eqb k "element-field-type") eqn:E2.
  { destruct (ft_ok_is_map _ _ H) as [nl ->]. simpl. now apply P1. }
  destruct (String.eqb k "members") eqn:E3.
  { destruct v; try discriminate H; try discriminate N. now apply P4. }
  reflexivity.
Qed.

Lemma Forall_In_snd : forall (P : yaml -> Prop) (l : entries) k v,
  Forall (fun kv => P (snd kv)) l -> In (k, v) l -> P v.
Proof. intros P l k v F I. rewrite Forall_forall in F. exact (F _ I). Qed.

Theorem gate_norm : forall st y, P_norm st y.
Proof.
  intros st. induction y as [| | | | |l IH|nl IH] using yaml_ind'; unfold P_norm;
    try (repeat split; intros H; try discriminate H; reflexivity).
  - (* sequences *)
    repeat split; intros H; try discriminate H.
    simpl in *. induction IH as [|x l [_ [_ [Hx _]]] _ IHl]; [reflexivity|].
    simpl in H. apply andb_prop in H. destruct H as [H1 H2]. simpl. now rewrite Hx, IHl.
  - (* mappings *)
    repeat split; intros H; try discriminate H.
    + (* field type object *)
      rewrite norm_map. rewrite ft_ok_eq in *.
      apply andb_prop in H. destruct H as [N H]. rewrite nodup_norm_entries by assumption. cbn [andb].
      destruct (lookup "class" nl) as [[| | | |cls| |]|] eqn:L; try discriminate H.
      rewrite lookup_norm_entries, L by assumption. cbn [is_null nv]. rewrite fix_scalar_class, canon_class_idem.
      apply andb_prop in H. destruct H as [M H]. rewrite canon_class_spelling by assumption. cbn [andb].
      destruct (String.eqb (canon_class cls) "dynamic-array" && negb st); [reflexivity|].
      apply andb_prop in H. destruct H as [F A].
      apply andb_true_intro. split.
      * eapply forallb_norm_entries; [|exact F]. intros k v I C Nn.
        apply ft_clause_norm; try assumption. eapply Forall_In_snd; eauto.
      * destruct (String.eqb (canon_class cls) "static-array" || String.eqb (canon_class cls) "dynamic-array"); [|reflexivity].
        destruct (has_lookup _ _ A) as [v Lv].
        pose proof (forallb_lookup _ _ _ _ F Lv) as C. unfold ft_clause in C. cbn [fst snd] in C.
        apply andb_prop in C. destruct C as [_ C]. simpl in C.
        destruct (ft_ok_is_map _ _ C) as [el ->]. eapply has_norm_entries; eauto.
    + (* member value {field-type: ...} *)
      rewrite norm_map. unfold member_val_ok in *.
      apply andb_prop in H. destruct H as [H F]. apply andb_prop in H. destruct H as [N A].
      rewrite nodup_norm_entries by assumption. simpl.
      destruct (has_lookup _ _ A) as [v Lv].
      pose proof (forallb_lookup _ _ _ _ F Lv) as C. cbn [fst snd] in C. simpl in C.
      destruct (ft_ok_is_map _ _ C) as [el ->].
      erewrite has_norm_entries by eauto. simpl.
      eapply forallb_norm_entries; [|exact F]. intros k v I C2 Nn. cbn [fst snd] in *.
      apply andb_prop in C2. destruct C2 as [E C2]. rewrite E. simpl.
      destruct (ft_ok_is_map _ _ C2) as [el2 ->]. simpl.
      pose proof (Forall_In_snd _ _ _ _ IH I) as [P1 _]. now apply P1.
    + (* member item {name: value} *)
      destruct nl as [|[name mv] [|]]; try discriminate H.
      rewrite norm_map. unfold member_item_ok in *.
      inversion IH as [|? ? [_ [P2 _]] _]; subst. cbn [snd] in P2.
      destruct (ident name) eqn:I.
      * unfold member_val_ok in H. destruct mv as [| | | | | |ml]; try discriminate H.
        unfold norm_entries. simpl flat_map. unfold norm_entry. cbn [fst snd app]. rewrite I. now apply P2.
      * apply andb_prop in H. destruct H as [S B].
        assert (exists ml, mv = YMap ml) as [ml ->] by (destruct mv; try discriminate B; eauto).
        unfold norm_entries. simpl flat_map. unfold norm_entry. cbn [fst snd app]. rewrite I, S. cbn [andb].
        exact (blind_member_norm (YMap ml) B).
Qed.

Corollary ft_ok_norm : forall st y, ft_ok st y = true -> ft_ok st (norm y) = true.
Proof. intros st y. apply gate_norm. Qed.

Lemma feature_ok_nv : forall st k v, feature_ok st v = true -> is_null v = false -> feature_ok st (nv k v) = true.
Proof.
  intros st k v H N. destruct v; try discriminate H; try discriminate N; [reflexivity|].
  unfold nv. rewrite norm_map. unfold feature_ok in *. rewrite <- norm_map. now apply ft_ok_norm.
Qed.

Lemma opt_ft_ok_nv : forall st k v, opt_ft_ok st v = true -> is_null v = false -> opt_ft_ok st (nv k v) = true.
Proof.
  intros st k v H N. destruct v; try discriminate H; try discriminate N.
  unfold nv. rewrite norm_map. unfold opt_ft_ok in *. rewrite <- norm_map. now apply ft_ok_norm.
Qed.

Lemma features_obj_ok_nv : forall st allowed k v,
  features_obj_ok st allowed v = true -> is_null v = false -> features_obj_ok st allowed (nv k v) = true.
Proof.
  intros st allowed k v H N. destruct v as [| | | | | |fl]; try discriminate H; try discriminate N.
  unfold nv. rewrite norm_map. unfold features_obj_ok in *.
  apply andb_prop in H. destruct H as [H F]. apply andb_prop in H. destruct H as [Nd K].
  rewrite nodup_norm_entries, keys_in_norm_entries by assumption. cbn [andb].
  eapply forallb_norm_entries; [|exact F]. intros k' v' _ C Nn. cbn [fst snd] in *. now apply feature_ok_nv.
Qed.

Lemma members_ok_norm : forall st ms, members_ok st (YSeq ms) = true -> members_ok st (norm (YSeq ms)) = true.
Proof.
  intros st ms H. unfold members_ok in *. apply ft_ok_norm in H. exact H.
Qed.

Lemma ert_ok_norm : forall st v, ert_ok st v = true -> ert_ok st (norm v) = true.
Proof.
  intros st v H. destruct v as [| | | | | |el]; try discriminate H.
  rewrite norm_map. unfold ert_ok in *. apply andb_prop in H. destruct H as [Nd F].
  rewrite nodup_norm_entries by assumption. cbn [andb].
  eapply forallb_norm_entries; [|exact F]. intros k v _ C Nn. unfold ert_clause in *. cbn [fst snd] in *.
  apply andb_prop in C. destruct C as [M C]. rewrite M. cbn [andb].
  destruct (String.eqb k "log-level").
  - destruct v; try discriminate C; try discriminate Nn; reflexivity.
  - now apply opt_ft_ok_nv.
Qed.

Lemma ert_ok_is_map : forall st v, ert_ok st v = true -> exists el, v = YMap el.
Proof. intros st v H. destruct v; try discriminate H. eauto. Qed.

Lemma dst_clause_nv : forall st k v, dst_clause st (k, v) = true -> is_null v = false -> dst_clause st (k, nv k v) = true.
Proof.
  intros st k v C Nn. unfold dst_clause in *. cbn [fst snd] in *.
  apply andb_prop in C. destruct C as [M C]. rewrite M. cbn [andb].
  destruct (String.eqb k "$features").
  { destruct v as [| | | | | |fl]; try discriminate C; try discriminate Nn.
    unfold nv. rewrite norm_map. apply andb_prop in C. destruct C as [Nd F].
    rewrite nodup_norm_entries by assumption. cbn [andb].
    eapply forallb_norm_entries; [|exact F]. intros k' v' _ C' Nn'. unfold dst_features_clause in *. cbn [fst snd] in *.
    destruct (String.eqb k' "packet"); [now apply features_obj_ok_nv|].
    destruct (String.eqb k' "event-record"); [now apply features_obj_ok_nv|discriminate C']. }
  destruct (String.eqb k EXTRA_KEY).
  { destruct v as [| | | | |ms|]; try discriminate C; try discriminate Nn.
    unfold nv. pose proof (members_ok_norm _ _ C) as Q. cbn [norm] in *. exact Q. }
  destruct (String.eqb k "event-record-common-context-field-type"); [now apply opt_ft_ok_nv|].
  destruct (String.eqb k "event-record-types"); [|reflexivity].
  destruct v as [| | | | | |el]; try discriminate C.
  unfold nv. rewrite norm_map. apply andb_prop in C. destruct C as [Nd F].
  rewrite nodup_norm_entries by assumption. cbn [andb].
  eapply forallb_norm_entries; [|exact F]. intros k' v' _ C' _. cbn [fst snd] in *.
  destruct (ert_ok_is_map _ _ C') as [el' ->]. unfold nv. now apply ert_ok_norm.
Qed.

Lemma dst_clause_erts : forall st dl v, forallb (dst_clause st) dl = true -> lookup "event-record-types" dl = Some v ->
  exists el, v = YMap el /\ nodupb (keys el) = true /\ forallb (fun kv' => ert_ok st (snd kv')) el = true.
Proof.
  intros st dl v F L. pose proof (forallb_lookup _ _ _ _ F L) as C. unfold dst_clause in C. cbn [fst snd] in C.
  apply andb_prop in C. destruct C as [_ C]. simpl in C.
  destruct v as [| | | | | |el]; try discriminate C. apply andb_prop in C. destruct C as [C1 C2]. eauto.
Qed.

Lemma dst_ok_norm : forall st v, dst_ok st v = true -> dst_ok st (norm v) = true.
Proof.
  intros st v H. destruct v as [| | | | | |dl]; try discriminate H.
  rewrite norm_map. unfold dst_ok in *.
  apply andb_prop in H. destruct H as [H F]. apply andb_prop in H. destruct H as [Nd A].
  rewrite nodup_norm_entries by assumption. cbn [andb].
  destruct (has_lookup _ _ A) as [v Lv]. destruct (dst_clause_erts _ _ _ F Lv) as [el [-> _]].
  erewrite has_norm_entries by eauto. cbn [andb].
  eapply forallb_norm_entries; [|exact F]. intros k v' _ C Nn. now apply dst_clause_nv.
Qed.

Lemma dst_ok_is_map : forall st v, dst_ok st v = true -> exists dl, v = YMap dl.
Proof. intros st v H. destruct v; try discriminate H. eauto. Qed.

Lemma clock_ok_norm : forall v, clock_ok v = true -> clock_ok (norm v) = true.
Proof.
  intros v H. destruct v as [| | | | | |c]; try discriminate H. rewrite norm_map. unfold clock_ok in *.
  apply andb_prop in H. destruct H as [Nd K]. now rewrite nodup_norm_entries, keys_in_norm_entries.
Qed.

Lemma tt_clause_nv : forall st k v, tt_clause st (k, v) = true -> is_null v = false -> tt_clause st (k, nv k v) = true.
Proof.
  intros st k v C Nn. unfold tt_clause in *. cbn [fst snd] in *.
  apply andb_prop in C. destruct C as [M C]. rewrite M. cbn [andb].
  destruct (String.eqb k "native-byte-order" || String.eqb k "trace-byte-order") eqn:Ebo.
  { destruct v; try discriminate C. unfold nv, fix_scalar.
    assert (String.eqb k "class" = false /\ String.eqb k "preferred-display-base" = false) as [E1 E2].
    { apply orb_prop in Ebo. destruct Ebo as [E|E]; apply String.eqb_eq in E; subst k; split; reflexivity. }
    rewrite E1, E2. exact C. }
  destruct (String.eqb k "$features"); [now apply features_obj_ok_nv|].
  destruct (String.eqb k "clock-types").
  { destruct v as [| | | | | |cl]; try discriminate C. unfold nv. rewrite norm_map.
    apply andb_prop in C. destruct C as [Nd F]. rewrite nodup_norm_entries by assumption. cbn [andb].
    eapply forallb_norm_entries; [|exact F]. intros k' v' _ C' _. cbn [fst snd] in *.
    assert (exists c, v' = YMap c) as [c ->] by (destruct v'; try discriminate C'; eauto).
    unfold nv. now apply clock_ok_norm. }
  destruct (String.eqb k "data-stream-types"); [|reflexivity].
  destruct v as [| | | | | |dl]; try discriminate C. unfold nv. rewrite norm_map.
  apply andb_prop in C. destruct C as [Nd F]. rewrite nodup_norm_entries by assumption. cbn [andb].
  eapply forallb_norm_entries; [|exact F]. intros k' v' _ C' _. cbn [fst snd] in *.
  destruct (dst_ok_is_map _ _ C') as [dl' ->]. unfold nv. now apply dst_ok_norm.
Qed.

(* a byte order property that is present has a (non-null) string value *)
Lemma tt_bo_lookup : forall st ttl k v, forallb (tt_clause st) ttl = true ->
  (k = "native-byte-order" \/ k = "trace-byte-order") -> lookup k ttl = Some v ->
  exists s, v = YStr s /\ mem s bo_spellings = true.
Proof.
  intros st ttl k v F K L. pose proof (forallb_lookup _ _ _ _ F L) as C. unfold tt_clause in C. cbn [fst snd] in C.
  apply andb_prop in C. destruct C as [_ C].
  assert (E : String.eqb k "native-byte-order" || String.eqb k "trace-byte-order" = true)
    by (destruct K; subst k; reflexivity).
  rewrite E in C. destruct v; try discriminate C. eauto.
Qed.

Lemma has_bo_norm : forall st ttl k, nodupb (keys ttl) = true -> forallb (tt_clause st) ttl = true ->
  (k = "native-byte-order" \/ k = "trace-byte-order") -> has k (norm_entries ttl) = has k ttl.
Proof.
  intros st ttl k Nd F K. destruct (has k ttl) eqn:H.
  - destruct (has_lookup _ _ H) as [v L]. destruct (tt_bo_lookup _ _ _ _ F K L) as [s [-> _]].
    eapply has_norm_entries; eauto.
  - now apply has_norm_entries_false.
Qed.

Lemma tt_dsts : forall st ttl v, forallb (tt_clause st) ttl = true -> lookup "data-stream-types" ttl = Some v ->
  exists dl, v = YMap dl /\ nodupb (keys dl) = true /\ forallb (fun kv' => dst_ok st (snd kv')) dl = true.
Proof.
  intros st ttl v F L. pose proof (forallb_lookup _ _ _ _ F L) as C. unfold tt_clause in C. cbn [fst snd] in C.
  apply andb_prop in C. destruct C as [_ C]. simpl in C.
  destruct v as [| | | | | |dl]; try discriminate C. apply andb_prop in C. destruct C as [C1 C2]. eauto.
Qed.

Theorem tt_ok_norm : forall st ttl, tt_ok st (YMap ttl) = true -> tt_ok st (norm (YMap ttl)) = true.
Proof.
  intros st ttl H. rewrite norm_map. unfold tt_ok in *.
  apply andb_prop in H. destruct H as [H F]. apply andb_prop in H. destruct H as [H X]. apply andb_prop in H. destruct H as [Nd A].
  rewrite nodup_norm_entries by assumption. cbn [andb].
  destruct (has_lookup _ _ A) as [v Lv]. destruct (tt_dsts _ _ _ F Lv) as [dl [-> _]].
  erewrite has_norm_entries by eauto. cbn [andb].
  rewrite !(has_bo_norm st) by auto. rewrite X. cbn [andb].
  eapply forallb_norm_entries; [|exact F]. intros k v' _ C Nn. now apply tt_clause_nv.
Qed.

(* ================================================================== _normalize_props on a tree that passed the gate *)
Lemma bo_key_cases : forall ttl, bo_key_of ttl = "native-byte-order" \/ bo_key_of ttl = "trace-byte-order".
Proof. intros ttl. unfold bo_key_of. destruct (has "native-byte-order" ttl); auto. Qed.

Lemma bo_key_lookup : forall st ttl, tt_ok st (YMap ttl) = true ->
  exists s, lookup (bo_key_of ttl) ttl = Some (YStr s) /\ mem s bo_spellings = true.
Proof.
  intros st ttl H. unfold tt_ok in H.
  apply andb_prop in H. destruct H as [H F]. apply andb_prop in H. destruct H as [H X].
  assert (exists v, lookup (bo_key_of ttl) ttl = Some v) as [v L].
  { unfold bo_key_of. destruct (has "native-byte-order" ttl) eqn:E; [now apply has_lookup|].
    destruct (has "trace-byte-order" ttl) eqn:E2; [now apply has_lookup|discriminate X]. }
  destruct (tt_bo_lookup _ _ _ _ F (bo_key_cases ttl) L) as [s [-> M]]. eauto.
Qed.

Lemma bo_key_not_special : forall ttl, String.eqb (bo_key_of ttl) "class" = false /\ String.eqb (bo_key_of ttl) "preferred-display-base" = false.
Proof. intros ttl. destruct (bo_key_cases ttl) as [E|E]; rewrite E; split; reflexivity. Qed.

Lemma tt_ok_set_bo : forall st ttl s, tt_ok st (YMap ttl) = true -> mem s bo_spellings = true ->
  tt_ok st (YMap (set (bo_key_of ttl) (YStr (canon_bo s)) ttl)) = true.
Proof.
  intros st ttl s H M. unfold tt_ok in *. rewrite keys_set, !has_set.
  apply andb_prop in H. destruct H as [H F]. rewrite H. cbn [andb].
  apply forallb_set; [assumption|]. unfold tt_clause. cbn [fst snd].
  destruct (bo_key_cases ttl) as [E|E]; rewrite E; cbn;
    apply canonical_bo_spelling, canon_bo_canonical; assumption.
Qed.

Lemma bo_key_set : forall ttl k v, bo_key_of (set k v ttl) = bo_key_of ttl.
Proof. intros. unfold bo_key_of. now rewrite has_set. Qed.

Lemma bo_key_norm : forall st ttl, tt_ok st (YMap ttl) = true -> bo_key_of (norm_entries ttl) = bo_key_of ttl.
Proof.
  intros st ttl H. unfold tt_ok in H.
  apply andb_prop in H. destruct H as [H F]. apply andb_prop in H. destruct H as [H _]. apply andb_prop in H. destruct H as [Nd _].
  unfold bo_key_of. now rewrite (has_bo_norm st) by auto.
Qed.

(* the shape of a tree that passed the gate *)
Lemma final_ok_shape : forall st root, final_ok st root = true ->
  exists rl tl ttl, root = YMap rl /\ nodupb (keys rl) = true /\ lookup "trace" rl = Some (YMap tl) /\
    nodupb (keys tl) = true /\ forallb (trace_clause st) tl = true /\
    lookup "type" tl = Some (YMap ttl) /\ tt_ok st (YMap ttl) = true.
Proof.
  intros st root H. destruct root as [| | | | | |rl]; try discriminate H. unfold final_ok in H.
  apply andb_prop in H. destruct H as [Nr H].
  destruct (lookup "trace" rl) as [[| | | | | |tl]|] eqn:Lt; try discriminate H.
  apply andb_prop in H. destruct H as [H F]. apply andb_prop in H. destruct H as [Nt A].
  destruct (has_lookup _ _ A) as [ty Lty].
  pose proof (forallb_lookup _ _ _ _ F Lty) as C. unfold trace_clause in C. cbn in C.
  assert (exists ttl, ty = YMap ttl) as [ttl ->] by (destruct ty; try discriminate C; eauto).
  exists rl, tl, ttl. repeat split; assumption.
Qed.

Lemma trace_type_of_shape : forall rl tl ttl, lookup "trace" rl = Some (YMap tl) -> lookup "type" tl = Some (YMap ttl) ->
  trace_type_of (YMap rl) = Some ttl.
Proof. intros rl tl ttl L1 L2. unfold trace_type_of. simpl. now rewrite L1, L2. Qed.

Definition norm_trace (tl ttl : entries) (s : string) : entries :=
  let tl1 := set "type" (norm (YMap (set (bo_key_of ttl) (YStr (canon_bo s)) ttl))) tl in
  match lookup "environment" tl1 with Some YNull => remove "environment" tl1 | _ => tl1 end.

Lemma normalize_props_eq : forall rl tl ttl s,
  lookup "trace" rl = Some (YMap tl) -> lookup "type" tl = Some (YMap ttl) ->
  lookup (bo_key_of ttl) ttl = Some (YStr s) ->
  normalize_props (YMap rl) = Ok (YMap (set "trace" (YMap (norm_trace tl ttl s)) rl)).
Proof.
  intros rl tl ttl s L1 L2 L3. unfold normalize_props, on_map, at_key. rewrite L1. cbn [rbind].
  rewrite L2. unfold normalize_tt. rewrite L3. reflexivity.
Qed.

Lemma mem_keys_set_remove : forall k (l : entries) k1 v1 k2,
  mem k (keys l) = false ->
  mem k (keys (match lookup k2 (set k1 v1 l) with Some YNull => remove k2 (set k1 v1 l) | _ => set k1 v1 l end)) = false.
Proof.
  intros k l k1 v1 k2 H.
  assert (Q : mem k (keys (set k1 v1 l)) = false) by now rewrite keys_set.
  destruct (lookup k2 (set k1 v1 l)) as [[]|]; try assumption.
  destruct (mem k (keys (remove k2 (set k1 v1 l)))) eqn:M; [|reflexivity].
  apply mem_remove in M. congruence.
Qed.

Theorem normalize_clean : forall st t3 t4,
  final_ok st t3 = true -> no_include_in_trace t3 = true -> normalize_props t3 = Ok t4 -> cleanb st t4 = true.
Proof.
  intros st t3 t4 G NI Hn.
  destruct (final_ok_shape _ _ G) as [rl [tl [ttl [-> [Nr [Lt [Nt [F [Lty T]]]]]]]]].
  destruct (bo_key_lookup _ _ T) as [s [Lbo Ms]].
  rewrite (normalize_props_eq _ _ _ _ Lt Lty Lbo) in Hn. inversion Hn; subst t4; clear Hn.
  set (k := bo_key_of ttl) in *.
  set (ttl1 := set k (YStr (canon_bo s)) ttl).
  assert (T1 : tt_ok st (YMap ttl1) = true) by (apply tt_ok_set_bo; assumption).
  assert (T2 : tt_ok st (norm (YMap ttl1)) = true) by now apply tt_ok_norm.
  set (tl1 := set "type" (norm (YMap ttl1)) tl).
  assert (Ltl1 : lookup "type" tl1 = Some (norm (YMap ttl1))) by (unfold tl1; eapply lookup_set_same; eauto).
  assert (Ntl1 : nodupb (keys tl1) = true) by (unfold tl1; now rewrite keys_set).
  assert (Ftl1 : forallb (trace_clause st) tl1 = true) by (unfold tl1; apply forallb_set; [assumption|exact T2]).
  set (tl' := norm_trace tl ttl s).
  assert (Etl' : tl' = match lookup "environment" tl1 with Some YNull => remove "environment" tl1 | _ => tl1 end) by reflexivity.
  assert (Ltl' : lookup "type" tl' = Some (norm (YMap ttl1))).
  { rewrite Etl'. destruct (lookup "environment" tl1) as [[]|]; try assumption.
    rewrite lookup_remove_other; [assumption|discriminate]. }
  assert (Ntl' : nodupb (keys tl') = true).
  { rewrite Etl'. destruct (lookup "environment" tl1) as [[]|]; try assumption. now apply nodup_remove. }
  assert (Ftl' : forallb (trace_clause st) tl' = true).
  { rewrite Etl'. destruct (lookup "environment" tl1) as [[]|]; try assumption. now apply forallb_remove. }
  assert (Lroot : lookup "trace" (set "trace" (YMap tl') rl) = Some (YMap tl')) by (eapply lookup_set_same; eauto).
  unfold cleanb. apply andb_true_intro. split; [apply andb_true_intro; split|].
  - (* the gate still holds *)
    unfold final_ok. rewrite keys_set, Nr, Lroot, Ntl'. cbn [andb]. rewrite (lookup_has _ _ _ Ltl'), Ftl'. reflexivity.
  - (* no $include in the trace object *)
    unfold no_include_in_trace in *. cbn [ylookup] in *. rewrite Lroot. rewrite Lt in NI.
    unfold has in *. apply negb_true_iff in NI. apply negb_true_iff.
    unfold tl', norm_trace. now apply mem_keys_set_remove.
  - cbn [ylookup]. rewrite Lroot.
    apply andb_true_intro. split.
    + (* environment is not null *)
      rewrite Etl'. destruct (lookup "environment" tl1) as [e|] eqn:Le.
      * destruct e; try (rewrite Le; reflexivity). now rewrite lookup_remove_same.
      * now rewrite Le.
    + rewrite Ltl'. rewrite norm_map. apply andb_true_intro. split.
      * rewrite <- norm_map. apply nf_norm.
      * rewrite (bo_key_norm st) by assumption. unfold ttl1 at 1. rewrite bo_key_set. fold k.
        assert (Nd1 : nodupb (keys ttl1) = true).
        { unfold tt_ok in T1. apply andb_prop in T1. destruct T1 as [T1 _]. apply andb_prop in T1. destruct T1 as [T1 _].
          apply andb_prop in T1. now destruct T1. }
        rewrite lookup_norm_entries by assumption.
        assert (L1 : lookup k ttl1 = Some (YStr (canon_bo s))) by (unfold ttl1; eapply lookup_set_same; eauto).
        rewrite L1. cbn [is_null nv]. unfold fix_scalar. destruct (bo_key_not_special ttl) as [E1 E2]. fold k in E1, E2.
        rewrite E1, E2. now apply canon_bo_canonical.
Qed.

(* ================================================================== effective_clean *)
Lemma final_ok_no_include : forall t, final_ok true t = true -> no_include_in_trace t = true.
Proof.
  intros t G. destruct (final_ok_shape _ _ G) as [rl [tl [ttl [-> [Nr [Lt [Nt [F [Lty T]]]]]]]]].
  unfold no_include_in_trace. cbn [ylookup]. rewrite Lt. apply negb_true_iff.
  destruct (has "$include" tl) eqn:H; [|reflexivity].
  destruct (has_lookup _ _ H) as [v L]. pose proof (forallb_lookup _ _ _ _ F L) as C. discriminate C.
Qed.

(* the effective document is clean *)
Theorem effective_clean : forall fuel fs dirs t t',
  effective fuel fs dirs t = Ok t' -> clean t' = true.
Proof.
  intros fuel fs dirs t t' H. unfold effective in H. apply rbind_ok in H. destruct H as [[[t4 k] bo] [Hp E]].
  inversion E; subst t'; clear E. unfold pipeline in Hp. apply rbind_ok in Hp. destruct Hp as [t3 [Hs Hg]].
  destruct (final_ok true t3) eqn:G; [|discriminate Hg].
  destruct (trace_type_of t3); [|discriminate Hg].
  apply rbind_ok in Hg. destruct Hg as [t4' [Hn Hb]]. apply rbind_ok in Hb. destruct Hb as [bo' [_ E2]].
  inversion E2; subst. cbn [fst]. eapply normalize_clean; eauto. now apply final_ok_no_include.
Qed.

(* ================================================================== every stage is the identity on clean trees *)
Lemma cleanb_shape : forall st t, cleanb st t = true ->
  exists rl tl ttl s, t = YMap rl /\ nodupb (keys rl) = true /\ lookup "trace" rl = Some (YMap tl) /\
    nodupb (keys tl) = true /\ forallb (trace_clause st) tl = true /\
    lookup "type" tl = Some (YMap ttl) /\ tt_ok st (YMap ttl) = true /\
    lookup "$include" tl = None /\ lookup "environment" tl <> Some YNull /\
    nf (YMap ttl) = true /\ lookup (bo_key_of ttl) ttl = Some (YStr s) /\ mem s canonical_bos = true.
Proof.
  intros st t H. unfold cleanb in H. apply andb_prop in H. destruct H as [H C]. apply andb_prop in H. destruct H as [G NI].
  destruct (final_ok_shape _ _ G) as [rl [tl [ttl [-> [Nr [Lt [Nt [F [Lty T]]]]]]]]].
  cbn [ylookup] in C. unfold no_include_in_trace in NI. cbn [ylookup] in NI. rewrite Lt in C, NI. rewrite Lty in C.
  apply andb_prop in C. destruct C as [E C]. apply andb_prop in C. destruct C as [N B].
  destruct (lookup (bo_key_of ttl) ttl) as [[| | | |s| |]|] eqn:Lb; try discriminate B.
  exists rl, tl, ttl, s. repeat split; try assumption.
  - apply has_false_lookup. now apply negb_true_iff in NI.
  - intros Q. rewrite Q in E. discriminate E.
Qed.

Lemma clause_keys_none : forall (P : string * yaml -> bool) allowed l k,
  forallb P l = true -> (forall kv, P kv = true -> mem (fst kv) allowed = true) -> mem k allowed = false -> lookup k l = None.
Proof.
  intros P allowed l k F HP M. destruct (lookup k l) eqn:L; [|reflexivity].
  pose proof (forallb_lookup _ _ _ _ F L) as C. apply HP in C. cbn in C. congruence.
Qed.

Lemma ert_clause_key : forall st kv, ert_clause st kv = true -> mem (fst kv) ert_keys = true.
Proof. intros st kv H. unfold ert_clause in H. apply andb_prop in H. now destruct H. Qed.
Lemma dst_clause_key : forall st kv, dst_clause st kv = true -> mem (fst kv) dst_keys = true.
Proof. intros st kv H. unfold dst_clause in H. apply andb_prop in H. now destruct H. Qed.
Lemma tt_clause_key : forall st kv, tt_clause st kv = true -> mem (fst kv) tt_keys = true.
Proof. intros st kv H. unfold tt_clause in H. apply andb_prop in H. now destruct H. Qed.

Section IncludeId.
  Variables (ign : bool) (fs : entries) (dirs : list string).

  Lemma process_leaf : forall f stack k nl, children true k = [] -> lookup "$include" nl = None ->
    process (S f) true ign fs dirs stack k (YMap nl) = Ok (YMap nl).
  Proof. intros f stack k nl Hc Hl. apply include_none; [rewrite Hc; reflexivity | assumption]. Qed.

  Lemma process_ert_id : forall st f stack v, ert_ok st v = true -> process (S f) true ign fs dirs stack KErt v = Ok v.
  Proof.
    intros st f stack v H. destruct (ert_ok_is_map _ _ H) as [el ->]. apply process_leaf; [reflexivity|].
    unfold ert_ok in H. apply andb_prop in H. destruct H as [_ F].
    eapply clause_keys_none; [exact F | apply ert_clause_key | reflexivity].
  Qed.

  Lemma process_clock_id : forall f stack v, clock_ok v = true -> process (S f) true ign fs dirs stack KClock v = Ok v.
  Proof.
    intros f stack v H. destruct v as [| | | | | |c]; try discriminate H. apply process_leaf; [reflexivity|].
    unfold clock_ok in H. apply andb_prop in H. destruct H as [_ K]. eapply keys_in_lookup_none; [exact K|reflexivity].
  Qed.

  (* a child property whose entries are each mapped to themselves *)
  Lemma process_child_iter_id : forall (rec : list string -> kind -> yaml -> res yaml) stack nl name k el,
    lookup name nl = Some (YMap el) -> (forall kv, In kv el -> rec stack k (snd kv) = Ok (snd kv)) ->
    process_child rec stack (Ok nl) (name, true, k) = Ok nl.
  Proof.
    intros rec stack nl name k el L H. unfold process_child. cbn [rbind fst snd]. rewrite L.
    rewrite rmapM_id; [cbn [rbind]; now rewrite set_same|].
    intros [a b] I. pose proof (H _ I) as Q. cbn [fst snd] in *. rewrite Q. reflexivity.
  Qed.

  Lemma process_child_absent : forall (rec : list string -> kind -> yaml -> res yaml) stack nl name it k,
    lookup name nl = None -> process_child rec stack (Ok nl) (name, it, k) = Ok nl.
  Proof. intros. unfold process_child. cbn [rbind fst snd]. now rewrite H. Qed.

  Lemma process_dst_id : forall st f stack v, dst_ok st v = true -> process (S (S f)) true ign fs dirs stack KDst v = Ok v.
  Proof.
    intros st f stack v H. destruct (dst_ok_is_map _ _ H) as [dl ->].
    unfold dst_ok in H. apply andb_prop in H. destruct H as [H F]. apply andb_prop in H. destruct H as [_ A].
    destruct (has_lookup _ _ A) as [v Lv]. destruct (dst_clause_erts _ _ _ F Lv) as [el [-> [_ Fe]]].
    apply include_none.
    - cbn [children fold_left]. eapply process_child_iter_id; [exact Lv|].
      intros kv I. rewrite forallb_forall in Fe. eapply process_ert_id. exact (Fe _ I).
    - eapply clause_keys_none; [exact F | apply dst_clause_key | reflexivity].
  Qed.

  Lemma process_tt_id : forall st f stack ttl, tt_ok st (YMap ttl) = true ->
    process (S (S (S f))) true ign fs dirs stack KTraceType (YMap ttl) = Ok (YMap ttl).
  Proof.
    intros st f stack ttl H. unfold tt_ok in H. apply andb_prop in H. destruct H as [H F].
    apply andb_prop in H. destruct H as [H _]. apply andb_prop in H. destruct H as [_ A].
    destruct (has_lookup _ _ A) as [v Lv]. destruct (tt_dsts _ _ _ F Lv) as [dl [-> [_ Fd]]].
    apply include_none.
    - cbn [children fold_left].
      assert (C1 : process_child (process (S (S f)) true ign fs dirs) stack (Ok ttl) ("clock-types", true, KClock) = Ok ttl).
      { destruct (lookup "clock-types" ttl) as [c|] eqn:Lc; [|now apply process_child_absent].
        pose proof (forallb_lookup _ _ _ _ F Lc) as C. unfold tt_clause in C. cbn [fst snd] in C.
        apply andb_prop in C. destruct C as [_ C]. simpl in C.
        destruct c as [| | | | | |cl]; try discriminate C. apply andb_prop in C. destruct C as [_ Fc].
        eapply process_child_iter_id; [exact Lc|]. intros kv I. rewrite forallb_forall in Fc. apply process_clock_id. exact (Fc _ I). }
      unfold entries in *. rewrite C1. eapply process_child_iter_id; [exact Lv|].
      intros kv I. rewrite forallb_forall in Fd. eapply process_dst_id. exact (Fd _ I).
    - eapply clause_keys_none; [exact F | apply tt_clause_key | reflexivity].
  Qed.

End IncludeId.

Lemma include_stage_id : forall fs dirs st f t, cleanb st t = true -> include_stage (4 + f) fs dirs t = Ok t.
Proof.
  intros fs dirs.
    intros st f t H. destruct (cleanb_shape _ _ H) as [rl [tl [ttl [s [-> [Nr [Lt [Nt [F [Lty [T [Li _]]]]]]]]]]]].
    unfold include_stage. rewrite Lt.
    assert (P : process (4 + f) true false fs dirs [] KTrace (YMap tl) = Ok (YMap tl)).
    { apply include_none; [|assumption]. cbn [children fold_left].
      unfold process_child. cbn [rbind fst snd]. rewrite Lty.
      change (Nat.add 3 f) with (S (S (S f))).
      rewrite (process_tt_id false fs dirs st) by assumption. cbn [rbind]. now rewrite set_same. }
    rewrite P. cbn [rbind]. now rewrite set_same.
Qed.

(* ------------------------------------------------------------------ _expand_fts, _sub_log_level_aliases *)
Lemma on_trace_type_id : forall f rl tl ttl,
  lookup "trace" rl = Some (YMap tl) -> lookup "type" tl = Some (YMap ttl) -> f ttl = Ok ttl ->
  on_trace_type f (YMap rl) = Ok (YMap rl).
Proof.
  intros f rl tl ttl L1 L2 Hf. unfold on_trace_type, on_map, at_key. rewrite L1. cbn [rbind]. rewrite L2. cbn [rbind].
  rewrite Hf. cbn [rbind]. rewrite (set_same _ _ _ L2). cbn [rbind]. now rewrite (set_same _ _ _ L1).
Qed.

Lemma ert_ok_ll : forall st v, ert_ok st v = true -> is_map v = true /\ ll_prop_ok v = true.
Proof.
  intros st v H. destruct (ert_ok_is_map _ _ H) as [el ->]. split; [reflexivity|].
  unfold ert_ok in H. apply andb_prop in H. destruct H as [_ F]. unfold ll_prop_ok. cbn [ylookup].
  destruct (lookup "log-level" el) as [l|] eqn:L; [|reflexivity].
  pose proof (forallb_lookup _ _ _ _ F L) as C. unfold ert_clause in C. cbn in C.
  destruct l; try discriminate C; reflexivity.
Qed.

Lemma dst_ok_skeleton : forall st v, dst_ok st v = true ->
  is_map v = true /\ ert_map_ok v = true /\
  match ylookup "event-record-types" v with
  | Some (YMap el) => forallb (fun kv' => ll_prop_ok (snd kv')) el
  | _ => false
  end = true.
Proof.
  intros st v H. destruct (dst_ok_is_map _ _ H) as [dl ->]. split; [reflexivity|].
  unfold dst_ok in H. apply andb_prop in H. destruct H as [H F]. apply andb_prop in H. destruct H as [_ A].
  destruct (has_lookup _ _ A) as [v Lv]. destruct (dst_clause_erts _ _ _ F Lv) as [el [-> [_ Fe]]].
  unfold ert_map_ok. cbn [ylookup]. rewrite Lv. rewrite forallb_forall in Fe.
  split; apply forallb_forall; intros kv I; destruct (ert_ok_ll _ _ (Fe _ I)); assumption.
Qed.

Lemma tt_ok_skeleton : forall st ttl, tt_ok st (YMap ttl) = true ->
  exists dl, lookup "data-stream-types" ttl = Some (YMap dl) /\
    forallb (fun kv => is_map (snd kv) && ert_map_ok (snd kv)) dl = true /\
    forallb (fun kv => match ylookup "event-record-types" (snd kv) with
                       | Some (YMap el) => forallb (fun kv' => ll_prop_ok (snd kv')) el
                       | _ => false
                       end) dl = true.
Proof.
  intros st ttl H. unfold tt_ok in H. apply andb_prop in H. destruct H as [H F].
  apply andb_prop in H. destruct H as [H _]. apply andb_prop in H. destruct H as [_ A].
  destruct (has_lookup _ _ A) as [v Lv]. destruct (tt_dsts _ _ _ F Lv) as [dl [-> [_ Fd]]].
  exists dl. split; [assumption|]. rewrite forallb_forall in Fd.
  split; apply forallb_forall; intros kv I; destruct (dst_ok_skeleton _ _ (Fd _ I)) as [Q1 [Q2 Q3]];
    [now rewrite Q1, Q2 | assumption].
Qed.

Lemma tt_ok_no_key : forall st ttl k, tt_ok st (YMap ttl) = true -> mem k tt_keys = false -> lookup k ttl = None.
Proof.
  intros st ttl k H M. unfold tt_ok in H. apply andb_prop in H. destruct H as [_ F].
  eapply clause_keys_none; [exact F | apply tt_clause_key | assumption].
Qed.

Lemma expand_fts_id : forall st fuel t, cleanb st t = true -> expand_fts fuel t = Ok t.
Proof.
  intros st fuel t H. destruct (cleanb_shape _ _ H) as [rl [tl [ttl [s [-> [Nr [Lt [Nt [F [Lty [T _]]]]]]]]]]].
  destruct (tt_ok_skeleton _ _ T) as [dl [Ld [S1 _]]].
  assert (LA : lookup A_KEY ttl = None) by (eapply tt_ok_no_key; [exact T|reflexivity]).
  unfold expand_fts, pre_ft_ok, skeleton_ok. rewrite (trace_type_of_shape _ _ _ Lt Lty), Ld, S1, LA. cbn [andb].
  eapply on_trace_type_id; eauto. unfold expand_tt. now rewrite LA.
Qed.

Lemma sub_ll_id : forall st t, cleanb st t = true -> sub_log_level_aliases t = Ok t.
Proof.
  intros st t H. destruct (cleanb_shape _ _ H) as [rl [tl [ttl [s [-> [Nr [Lt [Nt [F [Lty [T _]]]]]]]]]]].
  destruct (tt_ok_skeleton _ _ T) as [dl [Ld [S1 S2]]].
  assert (LL : lookup "$log-level-aliases" ttl = None) by (eapply tt_ok_no_key; [exact T|reflexivity]).
  unfold sub_log_level_aliases, pre_ll_ok, skeleton_ok. rewrite (trace_type_of_shape _ _ _ Lt Lty), Ld, S1, LL, S2. cbn [andb].
  eapply on_trace_type_id; eauto. unfold sub_ll_tt. now rewrite LL.
Qed.

(* ------------------------------------------------------------------ _normalize_props *)
Lemma normalize_props_id : forall st t, cleanb st t = true -> normalize_props t = Ok t.
Proof.
  intros st t H. destruct (cleanb_shape _ _ H) as [rl [tl [ttl [s [-> [Nr [Lt [Nt [F [Lty [T [Li [Le [Nf [Lb Ms]]]]]]]]]]]]]]].
  rewrite (normalize_props_eq _ _ _ _ Lt Lty Lb). unfold norm_trace.
  rewrite (canon_bo_fixed _ Ms), (set_same _ _ _ Lb), (nf_norm_id _ Nf), (set_same _ _ _ Lty).
  destruct (lookup "environment" tl) as [[]|] eqn:E; try (now rewrite set_same).
Qed.

Lemma byte_order_of_clean : forall rl tl ttl s,
  lookup "trace" rl = Some (YMap tl) -> lookup "type" tl = Some (YMap ttl) ->
  lookup (bo_key_of ttl) ttl = Some (YStr s) -> mem s canonical_bos = true ->
  byte_order_of (bo_key_of ttl) (YMap rl) = Ok s.
Proof.
  intros rl tl ttl s L1 L2 L3 M. unfold byte_order_of. now rewrite (trace_type_of_shape _ _ _ L1 L2), L3, M.
Qed.

(* ================================================================== the pipeline on a clean tree *)
Theorem pipeline_id_on_clean : forall f fs dirs t, clean t = true ->
  exists key bo, pipeline (4 + f) fs dirs t = Ok (t, key, bo).
Proof.
  intros f fs dirs t H. unfold pipeline, stages_before_gate.
  rewrite (include_stage_id fs dirs true f t H). cbn [rbind].
  rewrite (expand_fts_id true _ t H). cbn [rbind]. rewrite (sub_ll_id true t H). cbn [rbind].
  pose proof H as H'. unfold clean, cleanb in H'. apply andb_prop in H'. destruct H' as [H' _]. apply andb_prop in H'. destruct H' as [G _].
  rewrite G. destruct (cleanb_shape _ _ H) as [rl [tl [ttl [s [-> [Nr [Lt [Nt [F [Lty [T [Li [Le [Nf [Lb Ms]]]]]]]]]]]]]]].
  rewrite (trace_type_of_shape _ _ _ Lt Lty). rewrite (normalize_props_id true _ H). cbn [rbind].
  rewrite (byte_order_of_clean _ _ _ _ Lt Lty Lb Ms). cbn [rbind]. eauto.
Qed.

Theorem effective_id_on_clean : forall f fs dirs t, clean t = true -> effective (4 + f) fs dirs t = Ok t.
Proof.
  intros f fs dirs t H. unfold effective. destruct (pipeline_id_on_clean f fs dirs t H) as [k [bo ->]]. reflexivity.
Qed.

Theorem stage_id_on_clean : forall f fs dirs t, clean t = true ->
  include_stage (4 + f) fs dirs t = Ok t
  /\ expand_fts (4 + f) t = Ok t
  /\ sub_log_level_aliases t = Ok t
  /\ final_ok true t = true
  /\ normalize_props t = Ok t.
Proof.
  intros f fs dirs t H. split; [exact (include_stage_id fs dirs true f t H)|].
  split; [exact (expand_fts_id true _ t H)|]. split; [exact (sub_ll_id true t H)|].
  split; [|exact (normalize_props_id true t H)].
  unfold clean, cleanb in H. apply andb_prop in H. destruct H as [H _]. apply andb_prop in H. now destruct H.
Qed.

Theorem normalise_idempotent : forall y, norm (norm y) = norm y /\ nf (norm y) = true.
Proof. intros y. split; [apply norm_idem | apply nf_norm]. Qed.

(* C11: printing the effective configuration of the effective configuration returns it, whatever
   the inclusion directories and their contents then are *)
Theorem C11_fixed_point_thm : forall fuel fs dirs f' fs' dirs' t t',
  effective fuel fs dirs t = Ok t' -> effective (4 + f') fs' dirs' t' = Ok t'.
Proof. intros. apply effective_id_on_clean. eapply effective_clean; eauto. Qed.

Theorem no_inclusion_files_needed : forall f fs dirs fs' dirs' t, clean t = true ->
  effective (4 + f) fs dirs t = effective (4 + f) fs' dirs' t.
Proof. intros. now rewrite !effective_id_on_clean. Qed.

(* what _create_config is handed (tree, byte order property key, byte order) is the same when the
   front end is given the effective document instead of the original *)
Theorem pre_create_same : forall fuel fs dirs f' fs' dirs' t r,
  pipeline fuel fs dirs t = Ok r -> pipeline (4 + f') fs' dirs' (fst (fst r)) = Ok r.
Proof.
  intros fuel fs dirs f' fs' dirs' t [[t' key] bo] H. cbn [fst].
  assert (E : effective fuel fs dirs t = Ok t') by (unfold effective; now rewrite H).
  pose proof (effective_clean _ _ _ _ _ E) as C.
  destruct (pipeline_id_on_clean f' fs' dirs' t' C) as [k2 [bo2 P2]]. rewrite P2. f_equal.
  (* the key and the byte order are functions of the tree *)
  unfold pipeline in H. apply rbind_ok in H. destruct H as [t3 [Hs Hg]].
  destruct (final_ok true t3) eqn:G; [|discriminate Hg].
  destruct (final_ok_shape _ _ G) as [rl [tl [ttl [-> [Nr [Lt [Nt [F [Lty T]]]]]]]]].
  rewrite (trace_type_of_shape _ _ _ Lt Lty) in Hg.
  destruct (bo_key_lookup _ _ T) as [s [Lbo Ms]].
  rewrite (normalize_props_eq _ _ _ _ Lt Lty Lbo) in Hg. cbn [rbind] in Hg.
  apply rbind_ok in Hg. destruct Hg as [bo' [Hb E2]]. inversion E2; subst t' key bo'; clear E2.
  (* evaluate the pipeline on the normalised tree again *)
  unfold pipeline, stages_before_gate in P2.
  rewrite (include_stage_id fs' dirs' true f' _ C) in P2. cbn [rbind] in P2.
  rewrite (expand_fts_id true _ _ C) in P2. cbn [rbind] in P2. rewrite (sub_ll_id true _ C) in P2. cbn [rbind] in P2.
  destruct (cleanb_shape _ _ C) as [rl2 [tl2 [ttl2 [s2 [E0 [_ [Lt2 [_ [_ [Lty2 [T2 [_ [_ [_ [Lb2 Ms2]]]]]]]]]]]]]]].
  inversion E0; subst rl2; clear E0.
  pose proof C as C'. unfold clean, cleanb in C'. apply andb_prop in C'. destruct C' as [C' _]. apply andb_prop in C'. destruct C' as [G2 _].
  rewrite G2, (trace_type_of_shape _ _ _ Lt2 Lty2), (normalize_props_id true _ C) in P2. cbn [rbind] in P2.
  rewrite (byte_order_of_clean _ _ _ _ Lt2 Lty2 Lb2 Ms2) in P2. cbn [rbind] in P2.
  inversion P2; subst k2 bo2; clear P2.
  (* ttl2 is the normalised trace type of t3 *)
  assert (Lr : lookup "trace" (set "trace" (YMap (norm_trace tl ttl s)) rl) = Some (YMap (norm_trace tl ttl s)))
    by (eapply lookup_set_same; eauto).
  rewrite Lr in Lt2. inversion Lt2; subst tl2; clear Lt2.
  assert (Lty' : lookup "type" (norm_trace tl ttl s) = Some (norm (YMap (set (bo_key_of ttl) (YStr (canon_bo s)) ttl)))).
  { unfold norm_trace. set (tl1 := set "type" _ tl).
    assert (L1 : lookup "type" tl1 = Some (norm (YMap (set (bo_key_of ttl) (YStr (canon_bo s)) ttl)))) by (eapply lookup_set_same; eauto).
    destruct (lookup "environment" tl1) as [[]|]; try assumption. rewrite lookup_remove_other; [assumption|discriminate]. }
  rewrite norm_map in Lty'. rewrite Lty' in Lty2. inversion Lty2; subst ttl2; clear Lty2.
  assert (K : bo_key_of (norm_entries (set (bo_key_of ttl) (YStr (canon_bo s)) ttl)) = bo_key_of ttl).
  { rewrite (bo_key_norm true); [apply bo_key_set | now apply tt_ok_set_bo]. }
  rewrite K in *. f_equal.
  unfold byte_order_of in Hb. rewrite (trace_type_of_shape _ _ _ Lr Lty') in Hb.
  rewrite Lb2 in Hb. rewrite Ms2 in Hb. now inversion Hb.
Qed.

(* ================================================================== non-vacuity *)
(* a document using every stage: an inclusion file that itself includes a file, an alias chain,
   `$inherit`, the short member form, a log level alias, null resets, spelling aliases *)
Definition ex_fs : entries :=
  [("d/ert.yaml", YMap [("$include", YStr "base.yaml"); ("log-level", YStr "WARN")]);
   ("d/base.yaml", YMap [("log-level", YInt 1);
                         ("specific-context-field-type", YMap [("class", YStr "struct"); ("members", YSeq [YMap [("c", YStr "u8")]])])]);
   ("e/base.yaml", YMap [("zzz", YInt 0)])].

Definition ex_doc : yaml :=
  YMap [("trace", YMap [
    ("environment", YNull);
    ("type", YMap [
      ("native-byte-order", YStr "le");
      ("uuid", YNull);
      ("$log-level-aliases", YMap [("WARN", YInt 4)]);
      ("$field-type-aliases", YMap [
         ("u8", YMap [("class", YStr "uint"); ("size", YInt 8); ("preferred-display-base", YStr "hex")]);
         ("byte", YStr "u8");
         ("b2", YMap [("$inherit", YStr "byte"); ("alignment", YInt 16); ("preferred-display-base", YNull)])]);
      ("$features", YMap [("magic-field-type", YBool false); ("data-stream-type-id-field-type", YStr "byte")]);
      ("data-stream-types", YMap [
         ("ds", YMap [
            ("$is-default", YNull);
            ("event-record-types", YMap [
               ("ev", YMap [
                  ("$include", YSeq [YStr "ert.yaml"]);
                  ("payload-field-type", YMap [("class", YStr "struct");
                     ("members", YSeq [YMap [("a", YStr "b2")];
                                       YMap [("s", YMap [("field-type", YMap [("class", YStr "str")])])]])])])])])])])])].

Definition ex_eff : yaml :=
  YMap [("trace", YMap [
    ("type", YMap [
      ("native-byte-order", YStr "little-endian");
      ("$features", YMap [("magic-field-type", YBool false);
                          ("data-stream-type-id-field-type", YMap [("class", YStr "unsigned-integer"); ("size", YInt 8); ("preferred-display-base", YStr "hexadecimal")])]);
      ("data-stream-types", YMap [
         ("ds", YMap [
            ("event-record-types", YMap [
               ("ev", YMap [
                  ("log-level", YInt 4);
                  ("specific-context-field-type", YMap [("class", YStr "structure");
                     ("members", YSeq [YMap [("c", YMap [("field-type", YMap [("class", YStr "unsigned-integer"); ("size", YInt 8); ("preferred-display-base", YStr "hexadecimal")])])]])]);
                  ("payload-field-type", YMap [("class", YStr "structure");
                     ("members", YSeq [YMap [("a", YMap [("field-type", YMap [("class", YStr "unsigned-integer"); ("size", YInt 8); ("alignment", YInt 16)])])];
                                       YMap [("s", YMap [("field-type", YMap [("class", YStr "string")])])]])])])])])])])])].

Example effective_example : effective 50 ex_fs ["d"; "e"] ex_doc = Ok ex_eff.
Proof. vm_compute. reflexivity. Qed.

Example effective_example_clean : clean ex_eff = true /\ clean ex_doc = false.
Proof. split; vm_compute; reflexivity. Qed.

Example effective_example_fixed_point : effective 4 [] [] ex_eff = Ok ex_eff.
Proof. vm_compute. reflexivity. Qed.

Example pipeline_example : pipeline 50 ex_fs ["d"; "e"] ex_doc = Ok (ex_eff, "native-byte-order", "little-endian").
Proof. vm_compute. reflexivity. Qed.

(* errors: unknown log level alias; an alias name with no alias table; a `$inherit` left because
   there is no alias table (inheritance is skipped) is rejected by the final schema *)
Definition ex_min (ert : entries) : yaml :=
  YMap [("trace", YMap [("type", YMap [("trace-byte-order", YStr "be");
     ("data-stream-types", YMap [("ds", YMap [("event-record-types", YMap [("ev", YMap ert)])])])])])].
Definition ex_payload (ft : yaml) : string * yaml :=
  ("payload-field-type", YMap [("class", YStr "struct"); ("members", YSeq [YMap [("a", YMap [("field-type", ft)])]])]).

Example effective_error_examples :
  is_cfgerr (effective 50 [] [] (ex_min [("log-level", YStr "NOPE"); ex_payload (YMap [("class", YStr "uint"); ("size", YInt 8)])])) = true
  /\ is_cfgerr (effective 50 [] [] (ex_min [ex_payload (YStr "uint8")])) = true
  /\ is_cfgerr (effective 50 [] [] (ex_min [ex_payload (YMap [("class", YStr "dynamic-array");
                                                               ("$inherit", YMap [("class", YStr "uint"); ("size", YInt 8)]);
                                                               ("element-field-type", YMap [("class", YStr "uint"); ("size", YInt 8)])])])) = true
  /\ is_ok (effective 50 [] [] (ex_min [ex_payload (YMap [("class", YStr "dynamic-array");
                                                          ("element-field-type", YMap [("class", YStr "uint"); ("size", YInt 8)])])])) = true.
Proof. repeat split; vm_compute; reflexivity. Qed.
