#!/bin/sh
# usage: tools/keep_seed.sh <worktree> <seed-name> <property> "<needs>" "<caught-by>"
# Confirms a seeded change in its scratch worktree (suite passes with it, demo fails with it and
# passes without it) and stores it under /verif/seeded/<seed-name>/.
WT="$1"; NAME="$2"; PROP="$3"; NEEDS="$4"; CAUGHT="$5"
cd "$WT" || exit 2
git diff -- barectf > /tmp/$NAME.patch
[ -s /tmp/$NAME.patch ] || { echo "no change in $WT"; exit 2; }
T1=$(PYTHONPATH="$WT" /venv/bin/python -m pytest -q -p no:cacheprovider -n 8 2>&1 | tail -1)
sh demo/demo.sh >/tmp/$NAME.with.log 2>&1; RC_WITH=$?
# (no git stash: the stash is shared by every worktree of the repository)
git apply -R /tmp/$NAME.patch
sh demo/demo.sh >/tmp/$NAME.without.log 2>&1; RC_WITHOUT=$?
git apply /tmp/$NAME.patch
echo "$NAME: tests with change: $T1 | demo rc with=$RC_WITH without=$RC_WITHOUT"
D=/verif/seeded/$NAME; rm -rf "$D"; mkdir -p "$D"
cp /tmp/$NAME.patch "$D/patch.diff"
rsync -a --exclude patch.diff --exclude '*.o' --exclude 'out*' --exclude build "$WT/demo/" "$D/demo/" 2>/dev/null
find "$D/demo" -type f -size +200k -delete 2>/dev/null
cat > "$D/meta.json" <<EOM
{
 "property": "$PROP",
 "needs_to_manifest": "$NEEDS",
 "confirmed": {"test_suite_with_change": "$T1", "demo_exit_with_change": $RC_WITH, "demo_exit_without_change": $RC_WITHOUT,
               "how": "pytest -n 8 in the scratch worktree with the change applied; demo/demo.sh with the change and with the change reverted (git apply -R)"},
 "checks_run": "tools/try_seed.sh <worktree> <IDs> (isolated copy of /verif, VERIF_REPO=<worktree>)",
 "caught_by": "$CAUGHT"
}
EOM
