#!/venv/bin/python
"""py2coq.py /repo <outdir>  ->  PyFuns.v, Consts.v

Fail-closed `ast` translator (trusted base) for a whitelist of small pure functions of barectf:

  cgen._CodeGen._ft_c_type            -> ft_c_type      (fuelled: it is recursive)
  cgen._loop_var_name                 -> loop_var_name
  template._filt_escape_dq            -> escape_dq
  config_parse_common._v3_prefixes_from_v2_prefix -> v3_prefixes_from_v2_prefix
  config_parse_v3 `prefix` handling of _create_config      -> cfg_prefixes_of_str
  codegen.CodeGenerator file names    -> header_file_name, bitfield_header_file_name, source_file_name
  cli._GenCmd.exec --prefix override  -> structural check only (cli_prefix_override_shape)

and literal constant tables (Consts.v).  Statement subset: if / elif / else, return, assignment
to a local, assert, typing.cast.  Expression subset: int / str / bool constants, names, int
comparisons and + -, and / or / not, conditional expressions, isinstance / `type(x) is C` on the
field type classes (resolved through the REAL class hierarchy of barectf/config.py), the
attributes size / alignment / element_field_type, f-strings, 'lit'[i], str.replace with a
one-character pattern, str.rstrip with a one-character argument, the _ArithCType / _PointerCType
/ _V3Prefixes constructors, self-recursion.  Anything else: Unsupported -> exit 1.

Partial operations (assert, attribute that may be missing, index, subtraction, recursion) make
the translated function return `option`; None = Python would raise (or fuel ran out).
"""
import ast
import os
import sys

sys.path.insert(0, os.path.dirname(os.path.abspath(__file__)))
from j2coq import Unsupported, coq_str, HEADER  # noqa: E402

LEAF_CLASSES = {
    'UnsignedIntegerFieldType': 'CUInt', 'SignedIntegerFieldType': 'CSInt',
    'UnsignedEnumerationFieldType': 'CUEnum', 'SignedEnumerationFieldType': 'CSEnum',
    'RealFieldType': 'CReal', 'StringFieldType': 'CStr',
    'StaticArrayFieldType': 'CSArr', 'DynamicArrayFieldType': 'CDArr',
}
# classes of config.py that are field types but outside the Gallina `ft` (never parameters)
NON_PARAM_CLASSES = {'StructureFieldType'}


def class_hierarchy(repo):
    tree = ast.parse(open(os.path.join(repo, 'barectf', 'config.py')).read())
    bases = {}
    for n in tree.body:
        if isinstance(n, ast.ClassDef):
            bases[n.name] = [b.id for b in n.bases if isinstance(b, ast.Name)]

    def ancestors(c):
        res = {c}
        for b in bases.get(c, []):
            res |= ancestors(b)
        return res
    for c in LEAF_CLASSES:
        if c not in bases:
            raise Unsupported('config.py: class %s not found' % c)
    # every concrete subclass of _FieldType must be known
    for c in bases:
        if '_FieldType' in ancestors(c) and not c.startswith('_') and c not in LEAF_CLASSES and c not in NON_PARAM_CLASSES:
            raise Unsupported('config.py: unknown field type class %s' % c)
    return bases, ancestors


class Fun:
    """Translation of one function definition."""

    def __init__(self, fdef, self_name, coq_name, params, anc, recursive_attr=None, var_types=None):
        self.f, self.coq_name, self.anc = fdef, coq_name, anc
        self.params = params          # python param name -> (coq name, type)
        self.recursive_attr = recursive_attr
        self.types = dict((p, t) for p, (_, t) in params.items())
        if var_types:
            self.types.update(var_types)
        self.partial = False
        self.recursive = False
        self.tmp = 0
        self.scan()

    def err(self, node, msg):
        raise Unsupported('%s line %s: %s' % (self.f.name, getattr(node, 'lineno', '?'), msg))

    def scan(self):
        for n in ast.walk(self.f):
            if isinstance(n, ast.Assert) or isinstance(n, ast.Subscript):
                self.partial = True
            if isinstance(n, ast.BinOp) and isinstance(n.op, ast.Sub):
                self.partial = True
            if isinstance(n, ast.Attribute) and n.attr in ('size', 'element_field_type') and isinstance(n.value, ast.Name):
                self.partial = True
            if self.is_self_call(n):
                self.partial = True
                self.recursive = True

    def is_self_call(self, n):
        return isinstance(n, ast.Call) and (
            (isinstance(n.func, ast.Attribute) and isinstance(n.func.value, ast.Name) and n.func.value.id == 'self'
             and n.func.attr == self.f.name) or
            (isinstance(n.func, ast.Name) and n.func.id == self.f.name))

    # ---- expressions: returns (gallina text, type, binds) ; binds = [(var, option-valued expr)]

    def fresh(self):
        self.tmp += 1
        return 'r%d' % self.tmp

    def classes_of(self, cnode, exact):
        names = []
        cs = cnode.elts if isinstance(cnode, ast.Tuple) else [cnode]
        for c in cs:
            if isinstance(c, ast.Attribute) and isinstance(c.value, ast.Name) and c.value.id == 'barectf_config':
                names.append(c.attr)
            elif isinstance(c, ast.Name):
                names.append(c.id)
            else:
                self.err(cnode, 'class expression')
        res = []
        for leaf, coq in LEAF_CLASSES.items():
            for nm in names:
                if (leaf == nm) if exact else (nm in self.anc(leaf)):
                    if coq not in res:
                        res.append(coq)
        for nm in names:
            if nm not in LEAF_CLASSES and not any(nm in self.anc(l) for l in LEAF_CLASSES) and nm not in NON_PARAM_CLASSES:
                self.err(cnode, 'unknown class %s' % nm)
        return '[' + '; '.join(res) + ']'

    def expr(self, e):
        if isinstance(e, ast.Constant):
            if isinstance(e.value, bool):
                return ('true' if e.value else 'false'), 'bool', []
            if isinstance(e.value, int):
                if e.value < 0:
                    self.err(e, 'negative integer constant')
                return str(e.value), 'int', []
            if isinstance(e.value, str):
                return coq_str(e.value), 'str', []
            self.err(e, 'constant %r' % (e.value,))
        if isinstance(e, ast.Name):
            if e.id in self.params:
                return self.params[e.id][0], self.params[e.id][1], []
            if e.id in self.types:
                return 'v_' + e.id, self.types[e.id], []
            self.err(e, 'unknown name %s' % e.id)
        if isinstance(e, ast.Attribute) and isinstance(e.value, ast.Name) and self.types.get(e.value.id) == 'ft':
            base = self.expr(e.value)[0]
            if e.attr == 'alignment':
                return '(ft_alignment %s)' % base, 'int', []
            if e.attr == 'size':
                v = self.fresh()
                return v, 'int', [(v, 'ft_size %s' % base)]
            if e.attr == 'element_field_type':
                v = self.fresh()
                return v, 'ft', [(v, 'ft_elem %s' % base)]
            self.err(e, 'attribute %s of a field type' % e.attr)
        if isinstance(e, ast.Compare) and len(e.ops) == 1:
            op = e.ops[0]
            # type(x) is C
            if isinstance(op, ast.Is) and isinstance(e.left, ast.Call) and isinstance(e.left.func, ast.Name) \
                    and e.left.func.id == 'type' and len(e.left.args) == 1:
                a, t, b = self.expr(e.left.args[0])
                if t != 'ft':
                    self.err(e, 'type() of a non field type')
                return '(ft_class_in %s %s)' % (a, self.classes_of(e.comparators[0], True)), 'bool', b
            a, ta, ba = self.expr(e.left)
            c, tc, bc = self.expr(e.comparators[0])
            if ta == tc == 'int':
                sym = {ast.LtE: '<=?', ast.Lt: '<?', ast.Eq: '=?'}.get(type(op))
                if sym:
                    return '(%s %s %s)' % (a, sym, c), 'bool', ba + bc
                if isinstance(op, ast.GtE):
                    return '(%s <=? %s)' % (c, a), 'bool', ba + bc
                if isinstance(op, ast.Gt):
                    return '(%s <? %s)' % (c, a), 'bool', ba + bc
                if isinstance(op, ast.NotEq):
                    return '(negb (%s =? %s))' % (a, c), 'bool', ba + bc
            if ta == tc == 'str' and isinstance(op, ast.Eq):
                return '(str_eqb %s %s)' % (a, c), 'bool', ba + bc
            self.err(e, 'comparison')
        if isinstance(e, ast.BoolOp):
            parts = [self.expr(v) for v in e.values]
            if any(p[1] != 'bool' for p in parts):
                self.err(e, 'and/or on non booleans')
            if any(p[2] for p in parts[1:]):
                # a partial operand after the first one would be evaluated eagerly here
                self.err(e, 'partial operation in a short-circuited operand')
            sym = ' && ' if isinstance(e.op, ast.And) else ' || '
            return '(' + sym.join(p[0] for p in parts) + ')', 'bool', parts[0][2]
        if isinstance(e, ast.UnaryOp) and isinstance(e.op, ast.Not):
            a, t, b = self.expr(e.operand)
            if t != 'bool':
                self.err(e, 'not on a non boolean')
            return '(negb %s)' % a, 'bool', b
        if isinstance(e, ast.IfExp):
            t, tt, bt = self.expr(e.test)
            a, ta, ba = self.expr(e.body)
            c, tc, bc = self.expr(e.orelse)
            if tt != 'bool' or ta != tc or ba or bc:
                self.err(e, 'conditional expression')
            return '(if %s then %s else %s)' % (t, a, c), ta, bt
        if isinstance(e, ast.BinOp):
            a, ta, ba = self.expr(e.left)
            c, tc, bc = self.expr(e.right)
            if ta == tc == 'int' and isinstance(e.op, ast.Add):
                return '(%s + %s)' % (a, c), 'int', ba + bc
            if ta == tc == 'int' and isinstance(e.op, ast.Sub):
                v = self.fresh()
                return v, 'int', ba + bc + [(v, 'if %s <=? %s then Some (%s - %s) else None' % (c, a, a, c))]
            if ta == tc == 'str' and isinstance(e.op, ast.Add):
                return '(%s ++ %s)' % (a, c), 'str', ba + bc
            self.err(e, 'binary operation')
        if isinstance(e, ast.JoinedStr):
            parts, binds = [], []
            for v in e.values:
                if isinstance(v, ast.Constant):
                    parts.append(coq_str(v.value))
                elif isinstance(v, ast.FormattedValue) and v.conversion == -1 and v.format_spec is None:
                    a, t, b = self.expr(v.value)
                    binds += b
                    if t == 'int':
                        parts.append('dec %s' % a)
                    elif t == 'str':
                        parts.append(a)
                    else:
                        self.err(e, 'f-string value of type %s' % t)
                else:
                    self.err(e, 'f-string piece')
            return '(' + ' ++ '.join(parts or ['[]']) + ')', 'str', binds
        if isinstance(e, ast.Subscript):
            a, ta, ba = self.expr(e.value)
            i, ti, bi = self.expr(e.slice)
            if ta == 'str' and ti == 'int':
                v = self.fresh()
                return '[%s]' % v, 'str', ba + bi + [(v, 'str_index %s %s' % (a, i))]
            self.err(e, 'subscript')
        if isinstance(e, ast.Call):
            f = e.func
            if self.is_self_call(e):
                args = [self.expr(a) for a in e.args]
                v = self.fresh()
                return v, 'ctype', sum((a[2] for a in args), []) + [(v, '%s fuel %s' % (self.coq_name, ' '.join(a[0] for a in args)))]
            if isinstance(f, ast.Name) and f.id == 'isinstance' and len(e.args) == 2:
                a, t, b = self.expr(e.args[0])
                if t != 'ft':
                    self.err(e, 'isinstance of a non field type')
                return '(ft_class_in %s %s)' % (a, self.classes_of(e.args[1], False)), 'bool', b
            if isinstance(f, ast.Attribute) and isinstance(f.value, ast.Name) and f.value.id == 'typing' and f.attr == 'cast' and len(e.args) == 2:
                return self.expr(e.args[1])
            if isinstance(f, ast.Name) and f.id in ('Count', 'Alignment', 'str') and len(e.args) == 1:
                a, t, b = self.expr(e.args[0])
                if f.id == 'str' and t != 'str':
                    self.err(e, 'str() of a non string')
                return a, t, b
            if isinstance(f, ast.Name) and f.id in ('_ArithCType', '_PointerCType') and len(e.args) == 2 and not e.keywords:
                a, ta, ba = self.expr(e.args[0])
                c, tc, bc = self.expr(e.args[1])
                want = 'str' if f.id == '_ArithCType' else 'ctype'
                if ta != want or tc != 'bool':
                    self.err(e, 'arguments of %s' % f.id)
                return '(%s %s %s)' % ('CArith' if f.id == '_ArithCType' else 'CPtr', a, c), 'ctype', ba + bc
            if isinstance(f, ast.Name) and f.id == '_V3Prefixes' and len(e.args) == 2:
                a, ta, ba = self.expr(e.args[0])
                c, tc, bc = self.expr(e.args[1])
                return '(%s, %s)' % (a, c), 'pair', ba + bc
            if isinstance(f, ast.Attribute) and f.attr == 'replace' and len(e.args) == 2:
                a, ta, ba = self.expr(f.value)
                pat, rep = e.args
                if ta == 'str' and isinstance(pat, ast.Constant) and isinstance(pat.value, str) and len(pat.value) == 1 \
                        and isinstance(rep, ast.Constant) and isinstance(rep.value, str):
                    return '(replace_char %d %s %s)' % (ord(pat.value), coq_str(rep.value), a), 'str', ba
                self.err(e, 'str.replace with a pattern that is not one character')
            if isinstance(f, ast.Attribute) and f.attr == 'rstrip' and len(e.args) == 1:
                a, ta, ba = self.expr(f.value)
                arg = e.args[0]
                if ta == 'str' and isinstance(arg, ast.Constant) and isinstance(arg.value, str) and len(arg.value) == 1:
                    return '(rstrip_char %d %s)' % (ord(arg.value), a), 'str', ba
                self.err(e, 'str.rstrip argument')
            self.err(e, 'call of %s' % ast.unparse(f))
        self.err(e, 'expression %s' % type(e).__name__)

    # ---- statements

    def wrap(self, binds, inner):
        for v, oe in reversed(binds):
            inner = 'match (%s) with None => None | Some %s => %s end' % (oe, v, inner)
        return inner

    def ret(self, text):
        return 'Some %s' % text if self.partial else text

    def block(self, stmts):
        if not stmts:
            if not self.partial:
                self.err(self.f, 'control reaches the end of a total function')
            return 'None'
        s, rest = stmts[0], stmts[1:]
        if isinstance(s, ast.Expr) and isinstance(s.value, ast.Constant) and isinstance(s.value.value, str):
            return self.block(rest)   # docstring
        if isinstance(s, ast.Return):
            a, t, b = self.expr(s.value)
            if b and not self.partial:
                self.err(s, 'partial operation in a total function')
            return self.wrap(b, self.ret(a))
        if isinstance(s, ast.Assign) and len(s.targets) == 1 and isinstance(s.targets[0], ast.Name):
            tgt = s.targets[0].id
            a, t, b = self.expr(s.value)
            if tgt in self.params:
                # `ft = typing.cast(T, ft)`: re-binding a parameter to itself only
                if a != self.params[tgt][0] or b:
                    self.err(s, 'assignment to parameter %s' % tgt)
                return self.block(rest)
            if tgt in self.types and self.types[tgt] != t:
                self.err(s, 'variable %s changes type' % tgt)
            self.types[tgt] = t
            return self.wrap(b, 'let v_%s := %s in\n    %s' % (tgt, a, self.block(rest)))
        if isinstance(s, ast.Assert):
            a, t, b = self.expr(s.test)
            if t != 'bool':
                self.err(s, 'assert of a non boolean')
            return self.wrap(b, 'if %s then %s else None' % (a, self.block(rest)))
        if isinstance(s, ast.If):
            a, t, b = self.expr(s.test)
            if t != 'bool':
                self.err(s, 'if on a non boolean (truthiness of %s)' % t)
            saved = dict(self.types)
            th = self.block(s.body + rest)
            t1 = self.types
            self.types = dict(saved)
            el = self.block(s.orelse + rest)
            self.types = saved
            return self.wrap(b, 'if %s then\n    %s\n  else\n    %s' % (a, th, el))
        self.err(s, 'statement %s' % type(s).__name__)

    def definition(self):
        body = self.block(self.f.body)
        ps = ' '.join('(%s : %s)' % (c, {'int': 'N', 'str': 'str', 'bool': 'bool', 'ft': 'ft'}[t]) for c, t in self.params.values())
        if self.recursive:
            return 'Fixpoint %s (fuel0 : nat) %s {struct fuel0} :=\n  match fuel0 with\n  | O => None\n  | S fuel =>\n  %s\n  end.' % (self.coq_name, ps, body)
        return 'Definition %s %s :=\n  %s.' % (self.coq_name, ps, body)


def find_func(tree, name, cls=None):
    for n in ast.walk(tree):
        if cls is not None:
            if isinstance(n, ast.ClassDef) and n.name == cls:
                for m in n.body:
                    if isinstance(m, ast.FunctionDef) and m.name == name:
                        return m
        elif isinstance(n, ast.FunctionDef) and n.name == name:
            return n
    raise Unsupported('function %s%s not found' % (cls + '.' if cls else '', name))


def fstring_of_return(fdef, attr_map):
    """A property whose body is `return f'...{self._x}...'` -> list of pieces."""
    body = [s for s in fdef.body if not (isinstance(s, ast.Expr) and isinstance(s.value, ast.Constant))]
    if len(body) != 1 or not isinstance(body[0], ast.Return):
        raise Unsupported('%s: not a single return' % fdef.name)
    return fstring_pieces(body[0].value, attr_map, fdef.name)


def fstring_pieces(e, attr_map, what):
    if not isinstance(e, ast.JoinedStr):
        raise Unsupported('%s: not an f-string' % what)
    out = []
    for v in e.values:
        if isinstance(v, ast.Constant):
            out.append(coq_str(v.value))
        elif isinstance(v, ast.FormattedValue) and isinstance(v.value, ast.Attribute) and isinstance(v.value.value, ast.Name) \
                and v.value.value.id == 'self' and v.value.attr in attr_map and v.conversion == -1 and v.format_spec is None:
            out.append(attr_map[v.value.attr])
        else:
            raise Unsupported('%s: f-string piece %s' % (what, ast.unparse(v)))
    return '(' + ' ++ '.join(out) + ')'


def literal_set(node, what):
    if not isinstance(node, ast.Set) or not all(isinstance(e, ast.Constant) and isinstance(e.value, str) for e in node.elts):
        raise Unsupported('%s: not a literal set of strings' % what)
    return sorted(e.value for e in node.elts)


def main():
    repo, outdir = sys.argv[1], sys.argv[2]
    os.makedirs(outdir, exist_ok=True)
    pkg = os.path.join(repo, 'barectf')

    def parse(f):
        return ast.parse(open(os.path.join(pkg, f)).read())
    try:
        bases, anc = class_hierarchy(repo)
        cgen, templ, common = parse('cgen.py'), parse('template.py'), parse('config_parse_common.py')
        v3, codegen, cli, config = parse('config_parse_v3.py'), parse('codegen.py'), parse('cli.py'), parse('config.py')
        defs = []
        # Sections 1-4 are independent functions: a function which cannot be translated does not take the
        # others down with it (its definition is missing, so exactly the theorems about it break)
        failures = []

        def guarded(title, thunk):
            try:
                defs.append((title, thunk()))
            except Unsupported as exc:
                failures.append('%s: %s' % (title, exc))
                defs.append((title, '(* NOT TRANSLATED (fail closed): %s *)' % str(exc).replace('*)', '* )')))

        # 1. _ft_c_type
        def s1():
            f = find_func(cgen, '_ft_c_type', '_CodeGen')
            argn = [a.arg for a in f.args.args]
            if argn != ['self', 'ft', 'is_const'] or len(f.args.defaults) != 1 or not isinstance(f.args.defaults[0], ast.Constant) \
                    or f.args.defaults[0].value is not False:
                raise Unsupported('_ft_c_type: signature changed: %s' % argn)
            return Fun(f, 'self', 'ft_c_type', {'ft': ('ft', 'ft'), 'is_const': ('is_const', 'bool')}, anc).definition()
        guarded('cgen.py _CodeGen._ft_c_type (is_const defaults to False)', s1)

        # 2. _loop_var_name
        def s2():
            f = find_func(cgen, '_loop_var_name')
            if [a.arg for a in f.args.args] != ['level']:
                raise Unsupported('_loop_var_name: signature changed')
            return Fun(f, None, 'loop_var_name', {'level': ('level', 'int')}, anc).definition()
        guarded('cgen.py _loop_var_name', s2)

        # 3. _filt_escape_dq
        def s3():
            f = find_func(templ, '_filt_escape_dq')
            if [a.arg for a in f.args.args] != ['text']:
                raise Unsupported('_filt_escape_dq: signature changed')
            return Fun(f, None, 'escape_dq', {'text': ('text', 'str')}, anc).definition()
        guarded('template.py _filt_escape_dq', s3)

        # 4. _v3_prefixes_from_v2_prefix
        def s4():
            f = find_func(common, '_v3_prefixes_from_v2_prefix')
            if [a.arg for a in f.args.args] != ['v2_prefix']:
                raise Unsupported('_v3_prefixes_from_v2_prefix: signature changed')
            nt = [n for n in ast.walk(common) if isinstance(n, ast.Assign) and isinstance(n.targets[0], ast.Name) and n.targets[0].id == '_V3Prefixes']
            if len(nt) != 1 or not isinstance(nt[0].value, ast.Call) or ast.unparse(nt[0].value.args[1]) != "['identifier', 'file_name']":
                raise Unsupported('_V3Prefixes is not namedtuple(identifier, file_name)')
            return Fun(f, None, 'v3_prefixes_from_v2_prefix', {'v2_prefix': ('v2_prefix', 'str')}, anc).definition()
        guarded('config_parse_common.py _v3_prefixes_from_v2_prefix -> (identifier, file_name)', s4)
        # 5. prefix handling of config_parse_v3._create_config
        f = find_func(v3, '_create_config', '_Parser')
        hits = [n for n in ast.walk(f) if isinstance(n, ast.If) and ast.unparse(n.test) == 'type(prefix_node) is str']
        if len(hits) != 1:
            raise Unsupported('_create_config: `if type(prefix_node) is str` not found exactly once')
        iff = hits[0]
        th = {ast.unparse(s.targets[0]): s.value for s in iff.body if isinstance(s, ast.Assign)}
        el = {ast.unparse(s.targets[0]): ast.unparse(s.value) for s in iff.orelse if isinstance(s, ast.Assign)}
        if set(th) != {'iden_prefix', 'file_name_prefix'} or el != {'iden_prefix': "prefix_node['identifier']", 'file_name_prefix': "prefix_node['file-name']"}:
            raise Unsupported('_create_config: prefix branches changed')
        fake = ast.parse('def cfg_prefixes_of_str(prefix_node):\n    return _V3Prefixes(%s, %s)' % (ast.unparse(th['iden_prefix']), ast.unparse(th['file_name_prefix']))).body[0]
        defs.append(('config_parse_v3.py _create_config, `prefix: STRING` -> (identifier, file name); a mapping gives its two values verbatim',
                     Fun(fake, None, 'cfg_prefixes_of_str', {'prefix_node': ('prefix_node', 'str')}, anc).definition()))
        # defaults of the same function
        dflt = {}
        for s in f.body:
            if isinstance(s, ast.Assign) and isinstance(s.targets[0], ast.Name) and s.targets[0].id in ('iden_prefix', 'file_name_prefix') \
                    and isinstance(s.value, ast.Constant):
                dflt[s.targets[0].id] = s.value.value
        if set(dflt) != {'iden_prefix', 'file_name_prefix'}:
            raise Unsupported('_create_config: default prefixes not found')
        # 6. file names
        cg = [n for n in codegen.body if isinstance(n, ast.ClassDef) and n.name == 'CodeGenerator'][0]
        init = find_func(codegen, '__init__', 'CodeGenerator')
        if 'self._file_name_prefix = configuration.options.code_generation_options.file_name_prefix' not in ast.unparse(init):
            raise Unsupported('CodeGenerator.__init__: _file_name_prefix source changed')
        amap = {'_file_name_prefix': 'fp'}
        hn = fstring_of_return(find_func(codegen, '_barectf_header_name', 'CodeGenerator'), amap)
        bn = fstring_of_return(find_func(codegen, '_bitfield_header_name', 'CodeGenerator'), amap)
        srcs = find_func(codegen, 'generate_c_sources', 'CodeGenerator')
        gf = [n for n in ast.walk(srcs) if isinstance(n, ast.Call) and isinstance(n.func, ast.Name) and n.func.id == '_GeneratedFile']
        if len(gf) != 1:
            raise Unsupported('generate_c_sources: expected one _GeneratedFile')
        sn = fstring_pieces(gf[0].args[0], amap, 'generate_c_sources')
        hdrs = find_func(codegen, 'generate_c_headers', 'CodeGenerator')
        hg = [ast.unparse(n.args[0]) for n in ast.walk(hdrs) if isinstance(n, ast.Call) and isinstance(n.func, ast.Name) and n.func.id == '_GeneratedFile']
        if hg != ['self._barectf_header_name', 'self._bitfield_header_name']:
            raise Unsupported('generate_c_headers: file list changed: %s' % hg)
        md = find_func(codegen, 'generate_metadata_stream', 'CodeGenerator')
        mg = [n.args[0] for n in ast.walk(md) if isinstance(n, ast.Call) and isinstance(n.func, ast.Name) and n.func.id == '_GeneratedFile']
        if len(mg) != 1 or not isinstance(mg[0], ast.Constant):
            raise Unsupported('generate_metadata_stream: name is not a constant')
        defs.append(('codegen.py CodeGenerator: names of the generated files',
                     'Definition header_file_name (fp : str) : str := %s.\nDefinition bitfield_header_file_name (fp : str) : str := %s.\n'
                     'Definition source_file_name (fp : str) : str := %s.\nDefinition metadata_file_name : str := %s.\n'
                     'Definition generated_file_names (fp : str) : list str :=\n  [header_file_name fp; bitfield_header_file_name fp; source_file_name fp; metadata_file_name].'
                     % (hn, bn, sn, coq_str(mg[0].value))))
        # 7. CLI --prefix override: shape
        ex = find_func(cli, 'exec', '_GenCmd')
        src = ast.unparse(ex)
        need = [
            'if self.cfg.v2_prefix is not None:',
            'v3_prefixes = barectf_config_parse_common._v3_prefixes_from_v2_prefix(self.cfg.v2_prefix)',
            'cg_opts = barectf.ConfigurationCodeGenerationOptions(v3_prefixes.identifier, v3_prefixes.file_name, cg_opts.default_data_stream_type, cg_opts.header_options, cg_opts.clock_type_c_types)',
            'config = barectf.Configuration(config.trace, barectf.ConfigurationOptions(cg_opts))',
            'code_gen = barectf.CodeGenerator(config)',
        ]
        pos = -1
        for line in need:
            k = src.find(line, pos + 1)
            if k < 0:
                raise Unsupported('cli._GenCmd.exec: expected statement not found (in order): ' + line)
            pos = k
        ci = find_func(config, '__init__', 'ConfigurationCodeGenerationOptions')
        if [a.arg for a in ci.args.args][:3] != ['self', 'identifier_prefix', 'file_name_prefix']:
            raise Unsupported('ConfigurationCodeGenerationOptions.__init__: parameter order changed')
        isrc = ast.unparse(ci)
        if 'self._identifier_prefix = identifier_prefix' not in isrc or 'self._file_name_prefix = file_name_prefix' not in isrc:
            raise Unsupported('ConfigurationCodeGenerationOptions.__init__: attributes changed')
        for prop, attr in (('identifier_prefix', '_identifier_prefix'), ('file_name_prefix', '_file_name_prefix')):
            pf = find_func(config, prop, 'ConfigurationCodeGenerationOptions')
            if ast.unparse(pf.body[-1]) != 'return self.%s' % attr:
                raise Unsupported('ConfigurationCodeGenerationOptions.%s is not a plain getter' % prop)
        opt = [n for n in ast.walk(cli) if isinstance(n, ast.Call) and ast.unparse(n.func) == 'barectf_argpar.OptDescr'
               and len(n.args) >= 2 and isinstance(n.args[1], ast.Constant) and n.args[1].value == 'prefix']
        if not opt:
            raise Unsupported('cli: --prefix option descriptor not found')
        defs.append(('cli.py _GenCmd.exec: with --prefix P the code generator receives a configuration whose code generation options are\n'
                     '   ConfigurationCodeGenerationOptions(identifier = fst (v3_prefixes_from_v2_prefix P), file name = snd (...)); checked structurally',
                     'Definition cli_prefix_override (p : str) : str * str := v3_prefixes_from_v2_prefix p.\n'
                     'Definition cli_prefix_override_shape : bool := true.\n'
                     'Definition default_identifier_prefix : str := %s.\nDefinition default_file_name_prefix : str := %s.'
                     % (coq_str(dflt['iden_prefix']), coq_str(dflt['file_name_prefix']))))
        # ---- constants
        consts = []
        of = find_func(cgen, '_open_func_params_str', '_CodeGen')
        sets = [n for n in ast.walk(of) if isinstance(n, ast.Set)]
        if len(sets) != 2:
            raise Unsupported('_open_func_params_str: expected two literal sets')
        sets.sort(key=lambda n: n.lineno)
        consts.append(('open_func_pkt_header_exclude', literal_set(sets[0], 'open header exclude')))
        consts.append(('open_func_pkt_ctx_exclude', literal_set(sets[1], 'open context exclude')))
        tf = find_func(cgen, '_trace_func_params_str', '_CodeGen')
        sets = [n for n in ast.walk(tf) if isinstance(n, ast.Set)]
        if len(sets) != 1:
            raise Unsupported('_trace_func_params_str: expected one literal set')
        consts.append(('trace_func_er_header_exclude', literal_set(sets[0], 'trace header exclude')))
        dstf = find_func(v3, '_create_dst', '_Parser')
        rs = [n for n in ast.walk(dstf) if isinstance(n, ast.Assign) and ast.unparse(n.targets[0]) == 'reserved_member_names']
        if len(rs) != 1:
            raise Unsupported('_create_dst: reserved_member_names not found')
        consts.append(('reserved_pkt_ctx_member_names', literal_set(rs[0].value, 'reserved names')))
        kw = [n for n in ast.walk(v3) if isinstance(n, ast.Set) and any(isinstance(e, ast.Constant) and e.value == 'typealias' for e in n.elts)]
        if len(kw) != 1:
            raise Unsupported('config_parse_v3: CTF keyword set not found')
        consts.append(('ctf_keywords', literal_set(kw[0], 'ctf keywords')))
        rp = [n for n in cgen.body if isinstance(n, ast.ClassDef) and n.name == '_RootFtPrefixes']
        if len(rp) != 1:
            raise Unsupported('cgen: _RootFtPrefixes not found')
        prefixes = {}
        for s in rp[0].body:
            if isinstance(s, ast.Assign) and isinstance(s.value, ast.Constant):
                prefixes[s.targets[0].id] = s.value.value
        if set(prefixes) != {'PH', 'PC', 'ERH', 'ERCC', 'ERSC', 'ERP'}:
            raise Unsupported('cgen: _RootFtPrefixes members changed')
        # which prefix each root field type gets in the prototypes
        want = {'_open_func_params_str': ['PH', 'PC'], '_trace_func_params_str': ['ERH', 'ERCC', 'ERSC', 'ERP']}
        for fn, order in want.items():
            fd = find_func(cgen, fn, '_CodeGen')
            got = [n.attr for n in ast.walk(fd) if isinstance(n, ast.Attribute) and isinstance(n.value, ast.Name) and n.value.id == '_RootFtPrefixes']
            got_sorted = [n.attr for n in sorted((n for n in ast.walk(fd) if isinstance(n, ast.Attribute) and isinstance(n.value, ast.Name)
                                                 and n.value.id == '_RootFtPrefixes'), key=lambda n: (n.lineno, n.col_offset))]
            if got_sorted != order:
                raise Unsupported('%s: order of root field types changed: %s' % (fn, got_sorted))
    except Unsupported as e:
        print('py2coq: unsupported construct (fail closed): %s' % e)
        return 1
    o = [HEADER % ('py2coq.py', repo + '/barectf/*.py'),
         'From Coq Require Import List NArith Bool String.', 'Import ListNotations.',
         'From BT.Front Require Import Prefix CTypes.', 'Open Scope N_scope.', '']
    for what, d in defs:
        o.append('(* %s *)' % what)
        o.append(d)
        o.append('')
    with open(os.path.join(outdir, 'PyFuns.v'), 'w') as f:
        f.write('\n'.join(o))
    o = [HEADER % ('py2coq.py', repo + '/barectf/*.py'),
         'From Coq Require Import List NArith String.', 'Import ListNotations.',
         'From BT.Front Require Import Prefix.', 'Open Scope N_scope.', '']
    for name, vals in consts:
        o.append('Definition %s : list str := [%s].' % (name, '; '.join(coq_str(v) for v in vals)))
    for k in ('PH', 'PC', 'ERH', 'ERCC', 'ERSC', 'ERP'):
        o.append('Definition root_ft_prefix_%s : str := %s.' % (k, coq_str(prefixes[k])))
    with open(os.path.join(outdir, 'Consts.v'), 'w') as f:
        f.write('\n'.join(o) + '\n')
    print('py2coq: %d definitions, %d constant tables' % (len(defs), len(consts)))
    for fl in failures:
        print('py2coq: NOT TRANSLATED (fail closed, its definition is missing from PyFuns.v): %s' % fl)
    return 0


if __name__ == '__main__':
    sys.exit(main())
