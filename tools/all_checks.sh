#!/bin/sh
# usage: tools/all_checks.sh <worktree> [IDs...]
# Runs the quick checks (all 19 by default) against a modified checkout in an isolated copy of /verif, four at a time, and
# prints one summary line per check (ok / alarm without failing input / ALARM concrete).  Used for the false-alarm round
# (behaviour-preserving refactorings, DESIGN.md 11.5) and for whole-suite runs against a seeded change.
WT="$1"; shift
TAG=$(basename "$WT")
COPY=/tmp/verif_all_$TAG
rm -rf "$COPY"; mkdir -p "$COPY"
rsync -a --exclude .git --exclude out --exclude seeded /verif/ "$COPY"/
cd "$COPY" || exit 2
IDS="$@"; [ -z "$IDS" ] && IDS="C01 C02 C03 C04 C05 C06 C07 C08 C09 C10 C11 C12 C13 C14 C15 C16 C17 C18 C19"
first=$(echo $IDS | cut -d' ' -f1)     # alone: it regenerates Gen/ and rebuilds what changed
VERIF_REPO="$WT" timeout 2400 ./check $first --tier quick > log_$first.txt 2>&1
echo $IDS | tr ' ' '\n' | tail -n +2 | xargs -P 4 -I{} sh -c "VERIF_REPO=$WT timeout 2400 ./check {} --tier quick > log_{}.txt 2>&1"
for p in $IDS; do
  if grep -q "^VIOLATION" log_$p.txt; then
    if grep "^VIOLATION" log_$p.txt | grep -qv "no-failing-input-found"; then echo "$TAG $p: ALARM concrete: $(grep '^VIOLATION' log_$p.txt | grep -v no-failing | head -1 | cut -c1-260)";
    else echo "$TAG $p: alarm without failing input: $(grep '^VIOLATION' log_$p.txt | head -1 | cut -c1-300)"; fi
  elif grep -q ": OK" log_$p.txt; then echo "$TAG $p: ok"; else echo "$TAG $p: ??? $(tail -2 log_$p.txt | cut -c1-200)"; fi
done
cd /; rm -rf "$COPY"
