#!/venv/bin/python
"""cdecl_scan.py /repo <outdir>  ->  Decls.v

Translator (trusted base, fail closed).  Flattens the three C file templates (barectf.h.j2,
barectf.c.j2, bitfield.h.j2) through Jinja2's AST -- includes inlined, both branches of every
{% if %}, loop bodies once, {{ expr }} kept as placeholders -- and scans the result with a small
C declaration scanner.  For every file-scope declaration: storage class (static / none = external
linkage), const-ness, kind (function declaration / definition, object, macro, tag) and the name
as a list of pieces (literal text | identifier-prefix placeholder | upper-cased prefix | other
placeholder).  Also every block-scope `static` object of any C template (e.g. the uuid array of
serialize-write-uuid-statements.j2).  Also the token list of the tracepoint() macro of
extra/barectf-tracepoint.h.
"""
import os
import re
import sys

import jinja2
from jinja2 import nodes as N

sys.path.insert(0, os.path.dirname(os.path.abspath(__file__)))
from j2coq import Unsupported, coq_str, expr_text, jinja_env_options, HEADER  # noqa: E402

FILE_TEMPLATES = ['c/barectf.h.j2', 'c/barectf.c.j2', 'c/bitfield.h.j2']


class P:
    """Placeholder piece."""
    def __init__(self, kind, text=''):
        self.kind, self.text = kind, text   # kind: 'prefix' | 'ucprefix' | 'other'

    def __repr__(self):
        return '<%s %s>' % (self.kind, self.text)

    def coq(self):
        return {'prefix': 'PPrefix', 'ucprefix': 'PUcPrefix'}.get(self.kind) or 'POther %s' % coq_str(self.text)


class Flattener:
    def __init__(self, repo):
        self.root = os.path.join(repo, 'barectf', 'templates')
        self.env = jinja2.Environment(**jinja_env_options(repo))
        self.asts = {}
        self.macros = {}
        for d, _, fs in sorted(os.walk(self.root)):
            for f in sorted(fs):
                p = os.path.join(d, f)
                name = os.path.relpath(p, self.root)
                with open(p) as fh:
                    self.asts[name] = self.env.parse(fh.read(), name)
        for name, tree in self.asts.items():
            for m in tree.find_all(N.Macro):
                self.macros[(name, m.name)] = m
        # module-level variables of the imported helper templates, as pieces
        self._module_vars = {}

    def module_vars(self, name):
        if name not in self._module_vars:
            self._module_vars[name] = {}       # cycle guard
            self._module_vars[name] = self.top_level_vars(name)
        return self._module_vars[name]

    def top_level_vars(self, name):
        res = {}
        st = State(self, name, {})
        for s in self.asts[name].body:
            if isinstance(s, N.Import):
                st.imports[s.target] = s.template.value
            elif isinstance(s, N.Assign) and isinstance(s.target, N.Name):
                res[s.target.name] = st.expr_pieces(s.node)
                st.vars[s.target.name] = res[s.target.name]
            elif isinstance(s, N.AssignBlock) and isinstance(s.target, N.Name):
                out = []
                st.flatten(s.body, out)
                res[s.target.name] = out
                st.vars[s.target.name] = out
        return res


class State:
    def __init__(self, fl, name, vars_):
        self.fl, self.name = fl, name
        self.vars = dict(vars_)   # variable -> list of pieces (str | P)
        self.imports = {}

    def expr_pieces(self, e):
        """Symbolic value of an expression as a list of pieces."""
        if isinstance(e, N.Name) and e.name in self.vars:
            return list(self.vars[e.name])
        if isinstance(e, N.Getattr) and isinstance(e.node, N.Name) and e.node.name in self.imports:
            mv = self.fl.module_vars(self.imports[e.node.name])
            if e.attr in mv:
                return list(mv[e.attr])
        t = expr_text(e)
        if t == 'cfg.options.code_generation_options.identifier_prefix':
            return [P('prefix')]
        if isinstance(e, N.Filter) and e.name == 'upper' and not e.args:
            inner = self.expr_pieces(e.node)
            if len(inner) == 1 and isinstance(inner[0], P) and inner[0].kind == 'prefix':
                return [P('ucprefix')]
        if isinstance(e, N.Const) and isinstance(e.value, str):
            return [e.value]
        # a macro call producing a name
        inner = e
        while isinstance(inner, N.Filter):
            inner = inner.node
        if isinstance(inner, N.Call) and inner is e:
            m = self.resolve_macro(inner.node)
            if m is not None:
                return self.expand_macro(m, inner)
        # placeholders keep the (alias-resolved) expression text
        return [P('other', self.resolve_text(e))]

    def resolve_text(self, e):
        """Expression text with variables that are known plain aliases substituted (so that
        `def_dst.name` and `dst.name` stay distinguishable but `trace_type` aliases do not matter)."""
        if isinstance(e, N.Getattr):
            return self.resolve_text(e.node) + '.' + e.attr
        if isinstance(e, N.Name):
            v = self.vars.get(e.name)
            if v is not None and len(v) == 1 and isinstance(v[0], P) and v[0].kind == 'other':
                return v[0].text
            return e.name
        return expr_text(e)

    def resolve_macro(self, f):
        if isinstance(f, N.Getattr) and isinstance(f.node, N.Name) and f.node.name in self.imports:
            k = (self.imports[f.node.name], f.attr)
            return k if k in self.fl.macros else None
        if isinstance(f, N.Name) and (self.name, f.name) in self.fl.macros:
            return (self.name, f.name)
        return None

    def expand_macro(self, key, call):
        m = self.fl.macros[key]
        st = State(self.fl, key[0], {})
        # imports of the macro's template
        for s in self.fl.asts[key[0]].body:
            if isinstance(s, N.Import):
                st.imports[s.target] = s.template.value
        args = list(call.args)
        for i, a in enumerate(m.args):
            if i < len(args):
                st.vars[a.name] = [P('other', self.resolve_text(args[i]))]
        out = []
        st.flatten(m.body, out)
        # trim_blocks / {%- leave no newline at the ends of these name macros
        while out and isinstance(out[0], str) and not out[0].strip():
            out.pop(0)
        while out and isinstance(out[-1], str) and not out[-1].strip():
            out.pop()
        return out

    def flatten(self, body, out):
        for s in body:
            if isinstance(s, N.Output):
                for e in s.nodes:
                    if isinstance(e, N.TemplateData):
                        out.append(e.data)
                    else:
                        out.extend(self.expr_pieces(e))
            elif isinstance(s, N.Import):
                self.imports[s.target] = s.template.value
            elif isinstance(s, N.Macro):
                pass
            elif isinstance(s, N.Assign):
                if isinstance(s.target, N.Name):
                    self.vars[s.target.name] = self.expr_pieces(s.node)
            elif isinstance(s, N.AssignBlock):
                tmp = []
                self.flatten(s.body, tmp)
                if isinstance(s.target, N.Name):
                    self.vars[s.target.name] = tmp
            elif isinstance(s, N.FilterBlock):
                self.flatten(s.body, out)
            elif isinstance(s, N.Include):
                sub = State(self.fl, s.template.value, self.vars)
                sub.flatten(self.fl.asts[s.template.value].body, out)
            elif isinstance(s, N.If):
                saved = dict(self.vars)
                self.flatten(s.body, out)
                v1 = self.vars
                self.vars = dict(saved)
                for e in s.elif_:
                    self.flatten(e.body, out)
                    self.vars = dict(saved)
                self.flatten(s.else_, out)
                # variables set differently in the branches become opaque
                for k in set(v1) | set(self.vars):
                    if repr(v1.get(k)) != repr(self.vars.get(k)):
                        self.vars[k] = [P('other', k)]
            elif isinstance(s, N.For):
                saved = dict(self.vars)
                for t in [s.target] + list(s.target.find_all(N.Name)):
                    if isinstance(t, N.Name):
                        self.vars.pop(t.name, None)
                self.flatten(s.body, out)
                self.vars = saved
            else:
                raise Unsupported('%s:%s: statement %s' % (self.name, getattr(s, 'lineno', '?'), type(s).__name__))


# ----------------------------------------------------------------------------- C scanner

IDCH = set('abcdefghijklmnopqrstuvwxyzABCDEFGHIJKLMNOPQRSTUVWXYZ0123456789_')


def tokenize(items, name):
    """items: list of str | P.  Tokens: ('name', [pieces]) | ('punct', c) | ('str', text) |
    ('pp', [tokens of the logical line]) | ('nl',)"""
    # 1. merge into a char/placeholder stream
    stream = []
    for it in items:
        if isinstance(it, P):
            stream.append(it)
        else:
            stream.extend(it)
    toks = []
    i, n = 0, len(stream)
    line_start = True

    def lex_plain(j, stop_at_newline):
        """Lex tokens from j; returns (tokens, next index)."""
        res = []
        while j < n:
            c = stream[j]
            if isinstance(c, P) or c in IDCH:
                pieces, lit = [], ''
                while j < n and (isinstance(stream[j], P) or stream[j] in IDCH):
                    if isinstance(stream[j], P):
                        if lit:
                            pieces.append(lit)
                            lit = ''
                        pieces.append(stream[j])
                    else:
                        lit += stream[j]
                    j += 1
                if lit:
                    pieces.append(lit)
                res.append(('name', pieces))
                continue
            if c == '\\' and j + 1 < n and stream[j + 1] == '\n':
                j += 2
                continue
            if c == '\n':
                if stop_at_newline:
                    return res, j
                res.append(('nl',))
                j += 1
                continue
            if c in ' \t\r':
                j += 1
                continue
            if c == '/' and j + 1 < n and stream[j + 1] == '*':
                k = j + 2
                while k + 1 < n and not (stream[k] == '*' and stream[k + 1] == '/'):
                    k += 1
                j = k + 2
                continue
            if c == '"' or c == "'":
                k = j + 1
                s = ''
                while k < n and stream[k] != c:
                    if stream[k] == '\\':
                        k += 1
                    s += stream[k] if not isinstance(stream[k], P) else '?'
                    k += 1
                res.append(('str', s))
                j = k + 1
                continue
            res.append(('punct', c))
            j += 1
        return res, j

    while i < n:
        c = stream[i]
        if not isinstance(c, P) and c in ' \t\r':
            i += 1
            continue
        if not isinstance(c, P) and c == '\n':
            line_start = True
            i += 1
            continue
        if line_start and not isinstance(c, P) and c == '#':
            line, i = lex_plain(i + 1, True)
            toks.append(('pp', line))
            continue
        line_start = False
        # lex up to the end of this physical line
        line, i = lex_plain(i, True)
        toks.extend(line)
    return toks


def name_coq(pieces):
    return '[' + '; '.join(p.coq() if isinstance(p, P) else 'PLit %s' % coq_str(p) for p in pieces) + ']'


def is_kw(tok, kw):
    return tok[0] == 'name' and tok[1] == [kw]


def scan_file_scope(toks, tmpl):
    decls = []
    i, n = 0, len(toks)
    extern_c_open = 0
    while i < n:
        t = toks[i]
        if t[0] == 'pp':
            line = t[1]
            if line and is_kw(line[0], 'define'):
                if len(line) < 2 or line[1][0] != 'name':
                    raise Unsupported('%s: #define without a name' % tmpl)
                body = []
                for b in line[2:]:
                    if b[0] == 'name':
                        body.append(b[1])
                decls.append(dict(tmpl=tmpl, scope='FileScope', storage='SNone', const=False, kind='KMacro',
                                  name=line[1][1], body=line[2:]))
            elif line and line[0][0] == 'name' and line[0][1][0] in ('include', 'ifdef', 'ifndef', 'if', 'else', 'elif', 'endif', 'error', 'undef'):
                pass
            else:
                raise Unsupported('%s: preprocessor directive %r' % (tmpl, line[:2]))
            i += 1
            continue
        if t == ('punct', '}') and extern_c_open:
            extern_c_open -= 1
            i += 1
            continue
        # collect a declaration
        j = i
        pd = 0
        head = []
        term = None
        while j < n:
            x = toks[j]
            if x[0] == 'pp':
                raise Unsupported('%s: preprocessor line inside a declaration near %r' % (tmpl, head[:4]))
            if x[0] == 'punct':
                if x[1] == '(':
                    pd += 1
                elif x[1] == ')':
                    pd -= 1
                elif pd == 0 and x[1] in ';{=':
                    term = x[1]
                    break
            head.append(x)
            j += 1
        if term is None:
            if not head:
                break
            raise Unsupported('%s: unterminated declaration %r' % (tmpl, head[:5]))
        j += 1
        # linkage specification
        if len(head) == 2 and is_kw(head[0], 'extern') and head[1] == ('str', 'C') and term == '{':
            extern_c_open += 1
            i = j
            continue
        # skip a body / initialiser
        if term == '{' or term == '=':
            depth = 1 if term == '{' else 0
            while j < n:
                x = toks[j]
                if x == ('punct', '{'):
                    depth += 1
                elif x == ('punct', '}'):
                    depth -= 1
                    if depth == 0 and term == '{':
                        j += 1
                        break
                elif x == ('punct', ';') and depth == 0:
                    j += 1
                    break
                j += 1
        names = [h for h in head if h[0] == 'name']
        storage = 'SStatic' if any(is_kw(h, 'static') for h in head) else 'SExtern'
        if any(is_kw(h, 'typedef') for h in head):
            raise Unsupported('%s: typedef at file scope' % tmpl)
        first_paren = next((k for k, h in enumerate(head) if h == ('punct', '(')), None)
        if first_paren is not None:
            if first_paren == 0 or head[first_paren - 1][0] != 'name':
                raise Unsupported('%s: function declarator without a plain name %r' % (tmpl, head[:6]))
            nm = head[first_paren - 1][1]
            spec = head[:first_paren - 1]
            decls.append(dict(tmpl=tmpl, scope='FileScope', storage=storage, const=False,
                              kind='KFuncDef' if term == '{' else 'KFuncDecl', name=nm, body=[]))
        elif names and (is_kw(names[0], 'struct') or is_kw(names[0], 'union')) and len(names) == 2 and \
                not any(h[0] == 'punct' for h in head):
            decls.append(dict(tmpl=tmpl, scope='FileScope', storage='SNone', const=False, kind='KTag', name=names[1][1], body=[]))
            if term == '{':
                # `struct X { ... } obj;` would declare an object: what follows the body must be `;`
                if j >= n or toks[j] != ('punct', ';'):
                    raise Unsupported('%s: declarator after a struct body' % tmpl)
                j += 1
        else:
            # object declaration: name = last name token before [ = ;
            k = len(head)
            for q, h in enumerate(head):
                if h == ('punct', '['):
                    k = q
                    break
            cand = [h for h in head[:k] if h[0] == 'name']
            if not cand:
                raise Unsupported('%s: declaration without a name %r' % (tmpl, head[:6]))
            decls.append(dict(tmpl=tmpl, scope='FileScope', storage=storage,
                              const=any(is_kw(h, 'const') for h in head[:k]), kind='KObject', name=cand[-1][1], body=[]))
        i = j
    if extern_c_open:
        raise Unsupported('%s: extern "C" block not closed' % tmpl)
    return decls


def scan_block_statics(toks, tmpl):
    """Every `static` keyword that is not at file scope of a file template."""
    res = []
    flat = []
    for t in toks:
        if t[0] == 'pp':
            continue   # macro bodies do not declare objects by themselves
        flat.append(t)
    depth = 0
    file_tmpl = tmpl in FILE_TEMPLATES
    for i, t in enumerate(flat):
        if t == ('punct', '{'):
            depth += 1
        elif t == ('punct', '}'):
            depth -= 1
        elif is_kw(t, 'static') and (depth > 0 or not file_tmpl):
            head = []
            j = i + 1
            while j < len(flat) and flat[j] not in (('punct', ';'), ('punct', '='), ('punct', '[')):
                head.append(flat[j])
                j += 1
            if any(h == ('punct', '(') for h in head):
                raise Unsupported('%s: block-scope static function declaration' % tmpl)
            cand = [h for h in head if h[0] == 'name']
            if not cand:
                raise Unsupported('%s: static declaration without a name' % tmpl)
            res.append(dict(tmpl=tmpl, scope='BlockScope', storage='SStatic',
                            const=any(is_kw(h, 'const') for h in head), kind='KObject', name=cand[-1][1], body=[]))
    return res


def body_coq(body, name=()):
    """Macro replacement list (names as piece lists).  Kept only for the macros that matter to
    C19: those whose name or body carries a placeholder."""
    out = []
    if not any(isinstance(p, P) for p in name) and not any(isinstance(p, P) for b in body if b[0] == 'name' for p in b[1]):
        return '[]'
    for b in body:
        if b[0] == 'name':
            out.append(name_coq(b[1]))
    return '[' + '; '.join(out) + ']'


def tracepoint_args(repo):
    p = os.path.join(repo, 'extra', 'barectf-tracepoint.h')
    src = open(p).read()
    src = src.replace('\\\n', ' ')
    m = re.search(r'#define\s+tracepoint\(_prov_name,\s*_tp_name,\s*\.\.\.\)\s+_COMBINE_TOKENS6\(([^)]*)\)\(BARECTF_TRACEPOINT_CTX', src)
    if not m:
        raise Unsupported('extra/barectf-tracepoint.h: tracepoint() definition not recognised')
    args = [a.strip() for a in m.group(1).split(',')]
    if len(args) != 6:
        raise Unsupported('extra/barectf-tracepoint.h: _COMBINE_TOKENS6 with %d arguments' % len(args))
    if not re.search(r'#define\s+__COMBINE_TOKENS6\(_a, _b, _c, _d, _e, _f\)\s+_a ## _b ## _c ## _d ## _e ## _f', src) or \
            not re.search(r'#define\s+_COMBINE_TOKENS6\(_a, _b, _c, _d, _e, _f\)\s+__COMBINE_TOKENS6\(_a, _b, _c, _d, _e, _f\)', src):
        raise Unsupported('extra/barectf-tracepoint.h: _COMBINE_TOKENS6 is not plain token pasting')
    # where the two configuration macros come from
    chain = {}
    for mm in re.finditer(r'#\s*define\s+(_BARECTF_TRACEPOINT_PREFIX|_BARECTF_TRACEPOINT_DST_NAME)\s+(\w+)', src):
        chain.setdefault(mm.group(1), []).append(mm.group(2))
    return args, chain


def main():
    repo, outdir = sys.argv[1], sys.argv[2]
    os.makedirs(outdir, exist_ok=True)
    try:
        fl = Flattener(repo)
        decls = []
        for name in sorted(fl.asts):
            if not name.startswith('c/'):
                continue
            st = State(fl, name, {})
            items = []
            st.flatten(fl.asts[name].body, items)
            toks = tokenize(items, name)
            if name in FILE_TEMPLATES:
                decls.extend(scan_file_scope(toks, name))
            decls.extend(scan_block_statics(toks, name))
        tp_args, tp_chain = tracepoint_args(repo)
    except Unsupported as e:
        print('cdecl_scan: unsupported construct (fail closed): %s' % e)
        return 1
    o = [HEADER % ('cdecl_scan.py', repo + '/barectf/templates/c and extra/barectf-tracepoint.h'),
         'From Coq Require Import List NArith String.', 'Import ListNotations.',
         'From BT.Front Require Import Prefix Decls.', 'Open Scope N_scope.', '',
         'Definition decls : list decl := [']
    rows = []
    seen = set()
    for d in decls:
        row = '  mk_decl %s %s %s %s %s %s %s' % (coq_str(d['tmpl']), d['scope'], d['storage'], 'true' if d['const'] else 'false',
                                                d['kind'], name_coq(d['name']), body_coq(d['body'], d['name']))
        if row in seen and d['scope'] == 'BlockScope':
            continue   # the same statement template reached through several includes
        seen.add(row)
        rows.append(row)
    o.append(';\n'.join(rows))
    o.append('].\n')
    o.append('(* tracepoint(_prov_name, _tp_name, ...) of extra/barectf-tracepoint.h pastes these six tokens *)')
    o.append('Definition tracepoint_tokens : list str := [%s].' % '; '.join(coq_str(a) for a in tp_args))
    o.append('(* and takes the first two from (in order of preference): %s *)' % repr(tp_chain).replace('(*', '').replace('*)', ''))
    o.append('Definition tracepoint_prefix_sources : list str := [%s].' % '; '.join(coq_str(a) for a in tp_chain.get('_BARECTF_TRACEPOINT_PREFIX', [])))
    o.append('Definition tracepoint_dst_sources : list str := [%s].' % '; '.join(coq_str(a) for a in tp_chain.get('_BARECTF_TRACEPOINT_DST_NAME', [])))
    with open(os.path.join(outdir, 'Decls.v'), 'w') as f:
        f.write('\n'.join(o) + '\n')
    print('cdecl_scan: %d declarations (%d file-scope functions, %d macros, %d block-scope statics)' % (
        len(rows), sum(1 for d in decls if d['kind'].startswith('KFunc')), sum(1 for d in decls if d['kind'] == 'KMacro'),
        sum(1 for d in decls if d['scope'] == 'BlockScope')))
    return 0


if __name__ == '__main__':
    sys.exit(main())
