#!/venv/bin/python
"""j2coq.py /repo <outdir>  ->  TemplatePlan.v, MetaGuards.v

Translator (trusted base, fail closed): reads every template under barectf/templates with the
Jinja2 parser configured as barectf/template.py configures it and emits

  TemplatePlan.v  the control skeleton of every template file and macro as a term of
                  BT.Front.Template.tmpl, the table of {% for %} loops (iterable text, sorted?,
                  name-hashed set?), and the classification of the Python loops over the three
                  name-hashed set attributes (data_stream_types, event_record_types, clock_types)
  MetaGuards.v    for the metadata templates: one row per attribute line with the enclosing
                  {% if %} tests classified Truthy / IsNotNone / Other, whether the value is
                  written between double quotes and whether it goes through escape_dq.

Anything outside the recognised subset raises Unsupported (exit 1): the caller then writes a stub
and every obligation depending on the file counts as unproved.
"""
import ast
import os
import re
import sys

import jinja2
from jinja2 import nodes as N

SET_ATTRS = ('data_stream_types', 'event_record_types', 'clock_types')
# other set-valued attributes: hashed by integers (hash seed independent), filled from a YAML
# sequence (not one of the permuted mappings); reported, not part of the C13 quantifier
INT_SET_ATTRS = ('ranges',)


class Unsupported(Exception):
    pass


# ----------------------------------------------------------------------------- helpers

def coq_str(s):
    """Gallina term of type str (list N) for a Python string."""
    if all(32 <= ord(c) < 127 for c in s):
        return '(s2l "%s")' % s.replace('"', '""')
    return '[' + ';'.join(str(ord(c)) for c in s) + ']'


def comment(s):
    s = s.replace('(*', '( *').replace('*)', '* )').replace('\n', '\\n').replace('\t', '\\t')
    s = s.replace('"', "'")
    return s if len(s) < 110 else s[:107] + '...'


def expr_text(n):
    """Compact, deterministic source-like text of a Jinja2 expression node."""
    if isinstance(n, N.Name):
        return n.name
    if isinstance(n, N.Getattr):
        return expr_text(n.node) + '.' + n.attr
    if isinstance(n, N.Getitem):
        return '%s[%s]' % (expr_text(n.node), expr_text(n.arg))
    if isinstance(n, N.Const):
        return repr(n.value)
    if isinstance(n, N.TemplateData):
        return repr(n.data)
    if isinstance(n, N.Filter):
        args = [expr_text(a) for a in n.args] + ['%s=%s' % (k.key, expr_text(k.value)) for k in n.kwargs]
        base = expr_text(n.node) if n.node is not None else ''
        return '%s | %s%s' % (base, n.name, '(' + ', '.join(args) + ')' if args else '')
    if isinstance(n, N.Test):
        args = [expr_text(a) for a in n.args]
        return '%s is %s%s' % (expr_text(n.node), n.name, '(' + ', '.join(args) + ')' if args else '')
    if isinstance(n, N.Call):
        args = [expr_text(a) for a in n.args] + ['%s=%s' % (k.key, expr_text(k.value)) for k in n.kwargs]
        return '%s(%s)' % (expr_text(n.node), ', '.join(args))
    if isinstance(n, N.Not):
        return 'not ' + expr_text(n.node)
    if isinstance(n, (N.And, N.Or, N.Add, N.Sub, N.Mul, N.Div, N.Mod, N.FloorDiv, N.Pow)):
        return '(%s %s %s)' % (expr_text(n.left), n.operator if hasattr(n, 'operator') else type(n).__name__.lower(), expr_text(n.right))
    if isinstance(n, N.Compare):
        return expr_text(n.expr) + ''.join(' %s %s' % (o.op, expr_text(o.expr)) for o in n.ops)
    if isinstance(n, N.CondExpr):
        return '(%s if %s else %s)' % (expr_text(n.expr1), expr_text(n.test), expr_text(n.expr2) if n.expr2 is not None else 'undefined')
    if isinstance(n, N.Tuple):
        return '(' + ', '.join(expr_text(i) for i in n.items) + ')'
    if isinstance(n, N.List):
        return '[' + ', '.join(expr_text(i) for i in n.items) + ']'
    if isinstance(n, N.Concat):
        return ' ~ '.join(expr_text(i) for i in n.nodes)
    raise Unsupported('expression node %s' % type(n).__name__)


def jinja_env_options(repo):
    """Options of the jinja2.Environment(...) call in barectf/template.py."""
    src = open(os.path.join(repo, 'barectf', 'template.py')).read()
    tree = ast.parse(src)
    found = []
    for n in ast.walk(tree):
        if isinstance(n, ast.Call) and isinstance(n.func, ast.Attribute) and n.func.attr == 'Environment' \
                and isinstance(n.func.value, ast.Name) and n.func.value.id == 'jinja2':
            opts = {}
            for k in n.keywords:
                if k.arg == 'loader':
                    continue
                if not isinstance(k.value, ast.Constant):
                    raise Unsupported('template.py: jinja2.Environment option %s is not a constant' % k.arg)
                opts[k.arg] = k.value.value
            found.append(opts)
    if len(found) != 1:
        raise Unsupported('template.py: expected exactly one jinja2.Environment(...) call, found %d' % len(found))
    return found[0]


# ----------------------------------------------------------------------------- template skeletons

class Plan:
    def __init__(self, repo):
        self.repo = repo
        self.root = os.path.join(repo, 'barectf', 'templates')
        self.env = jinja2.Environment(**jinja_env_options(repo))
        self.next_id = 1
        self.templates = {}      # name -> coq term
        self.macros = {}         # (tname, mname) -> coq term
        self.macro_names = {}    # tname -> set of macro names
        self.asts = {}
        self.loops = []          # (id, template, line, iter text, kind, sorted)
        self.set_mentions = []   # whitelisted non-iterable mentions (template, line, text, why)
        self.int_set_loops = []
        for d, _, fs in sorted(os.walk(self.root)):
            for f in sorted(fs):
                p = os.path.join(d, f)
                name = os.path.relpath(p, self.root)
                if not f.endswith('.j2'):
                    raise Unsupported('unexpected file in templates: ' + name)
                with open(p) as fh:
                    self.asts[name] = self.env.parse(fh.read(), name)
        for name, tree in self.asts.items():
            self.macro_names[name] = {m.name for m in tree.find_all(N.Macro)}
        # names bound (anywhere, in any template: included templates share the context) to one
        # of the name-hashed sets are treated like the attribute itself in EVERY template
        self.global_taint = set()
        changed = True
        while changed:
            changed = False
            for tree in self.asts.values():
                for a in tree.find_all(N.Assign):
                    v = a.node
                    if isinstance(a.target, N.Name) and a.target.name not in self.global_taint and (
                            (isinstance(v, N.Getattr) and v.attr in SET_ATTRS) or
                            (isinstance(v, N.Name) and v.name in self.global_taint)):
                        self.global_taint.add(a.target.name)
                        changed = True
        # a template outside the supported subset fails the template plan (C13) only: the attribute guards of the
        # metadata templates (C15) are scanned separately (emit_guards)
        self.plan_error = None
        for name in sorted(self.asts):
            try:
                self.check_derived(name, self.asts[name])
                self.templates[name] = TemplateWalker(self, name).run()
            except Unsupported as e:
                if self.plan_error is None:
                    self.plan_error = e

    def check_derived(self, name, tree):
        """Containers filled from the sets (ds_ops, er_ops, clock_type_c_types) may only be looked up."""
        def is_ref(n):
            return (isinstance(n, N.Name) and n.name in DERIVED_IN_TEMPLATES) or \
                   (isinstance(n, N.Getattr) and n.attr in DERIVED_IN_TEMPLATES)
        refs = [n for n in tree.find_all((N.Name, N.Getattr)) if is_ref(n) and getattr(n, 'ctx', 'load') == 'load']
        looked_up = [g.node for g in tree.find_all(N.Getitem) if is_ref(g.node)]
        bad = [n for n in refs if not any(n is l for l in looked_up)]
        if bad:
            raise Unsupported('%s:%s: a container filled from a name-hashed set is used other than by subscript: %s'
                              % (name, bad[0].lineno, expr_text(bad[0])))
        self.derived_lookups = getattr(self, 'derived_lookups', 0) + len(looked_up)

    def fresh(self):
        i = self.next_id
        self.next_id += 1
        return i


class TemplateWalker:
    def __init__(self, plan, name):
        self.plan, self.name = plan, name
        self.imports = {}      # alias -> template name
        self.tainted = plan.global_taint   # names bound to a name-hashed set (global, conservative)

    def err(self, node, msg):
        raise Unsupported('%s:%s: %s' % (self.name, getattr(node, 'lineno', '?'), msg))

    # --- name-hashed set discipline

    def is_set_expr(self, e):
        """e IS (not merely mentions) a name-hashed set value."""
        return (isinstance(e, N.Getattr) and e.attr in SET_ATTRS) or \
               (isinstance(e, N.Name) and e.name in self.tainted)

    def mentions_set(self, e):
        for n in [e] + list(e.find_all(N.Node)):
            if isinstance(n, N.Getattr) and n.attr in SET_ATTRS:
                return True
            if isinstance(n, N.Name) and n.name in self.tainted and n.ctx == 'load':
                return True
            if isinstance(n, N.Getitem) and isinstance(n.arg, N.Const) and n.arg.value in SET_ATTRS:
                return True
        return False

    def check_plain(self, e, what):
        """An expression used as a leaf must not look at a name-hashed set at all."""
        if e is not None and self.mentions_set(e):
            self.err(e, 'name-hashed set used outside a for iterable / whitelisted test: %s in %s' % (expr_text(e), what))

    def check_test(self, e):
        """{% if %} test: order-insensitive uses are whitelisted explicitly."""
        if not self.mentions_set(e):
            return
        ok = None
        if self.is_set_expr(e):
            ok = 'truthiness (non-emptiness) of the set'
        elif isinstance(e, N.Not) and self.is_set_expr(e.node):
            ok = 'emptiness of the set'
        elif isinstance(e, N.Compare) and isinstance(e.expr, N.Filter) and e.expr.name == 'length' \
                and self.is_set_expr(e.expr.node) and all(not self.mentions_set(o.expr) for o in e.ops):
            ok = 'cardinality of the set'
        elif isinstance(e, N.Compare) and len(e.ops) == 1 and e.ops[0].op in ('in', 'notin') \
                and self.is_set_expr(e.ops[0].expr) and not self.mentions_set(e.expr):
            ok = 'membership in the set'
        if ok is None:
            self.err(e, 'test looks at a name-hashed set in a non-whitelisted way: ' + expr_text(e))
        self.plan.set_mentions.append((self.name, e.lineno, expr_text(e), ok))

    # --- macro calls

    def macro_call(self, e):
        """If e is filters* over a call of a template macro: (tname, mname, callnode); else None."""
        inner = e
        while isinstance(inner, N.Filter):
            for a in list(inner.args) + [k.value for k in inner.kwargs]:
                if self.find_macro_calls(a):
                    self.err(e, 'macro call inside filter arguments')
            inner = inner.node
        if isinstance(inner, N.Call):
            tm = self.resolve_macro(inner.node)
            if tm is not None:
                for a in list(inner.args) + [k.value for k in inner.kwargs]:
                    if self.find_macro_calls(a):
                        self.err(e, 'nested macro call')
                    self.check_plain(a, 'macro argument')
                return tm[0], tm[1], inner
        if self.find_macro_calls(e):
            self.err(e, 'macro call in an unsupported position: ' + expr_text(e))
        return None

    def resolve_macro(self, f):
        if isinstance(f, N.Getattr) and isinstance(f.node, N.Name) and f.node.name in self.imports:
            t = self.imports[f.node.name]
            if f.attr in self.plan.macro_names[t]:
                return t, f.attr
            return None
        if isinstance(f, N.Name) and f.name in self.plan.macro_names[self.name]:
            return self.name, f.name
        return None

    def find_macro_calls(self, e):
        if e is None:
            return []
        return [c for c in [e] + list(e.find_all(N.Call)) if isinstance(c, N.Call) and self.resolve_macro(c.node)]

    # --- statements

    def run(self):
        tree = self.plan.asts[self.name]
        return self.seq(tree.body)

    def seq(self, body):
        terms = [t for t in (self.stmt(s) for s in body) if t != 'Nop']
        if not terms:
            return 'Nop'
        out = terms[-1]
        for t in reversed(terms[:-1]):
            out = '(Seq %s\n %s)' % (t, out)
        return out

    def stmt(self, s):
        P = self.plan
        if isinstance(s, N.Output):
            parts = []
            for e in s.nodes:
                if isinstance(e, N.TemplateData):
                    parts.append('(Text %d (* %s *))' % (P.fresh(), comment(repr(e.data))))
                    continue
                mc = self.macro_call(e)
                if mc is not None:
                    parts.append('(CallMacro %d %s %s (* %s *))' % (P.fresh(), coq_str(mc[0]), coq_str(mc[1]), comment(expr_text(e))))
                else:
                    self.check_plain(e, 'output')
                    parts.append('(Out %d (* %s *))' % (P.fresh(), comment(expr_text(e))))
            out = 'Nop' if not parts else parts[-1]
            for t in reversed(parts[:-1]):
                out = '(Seq %s %s)' % (t, out)
            return out
        if isinstance(s, N.Import):
            if not isinstance(s.template, N.Const) or not isinstance(s.template.value, str):
                self.err(s, 'import of a computed template name')
            if s.template.value not in P.asts:
                self.err(s, 'import of unknown template ' + s.template.value)
            self.imports[s.target] = s.template.value
            return 'Nop'
        if isinstance(s, N.Macro):
            for d in s.defaults:
                self.check_plain(d, 'macro default')
            P.macros[(self.name, s.name)] = self.seq(s.body)
            return 'Nop'
        if isinstance(s, N.Assign):
            if isinstance(s.target, N.Name) and self.is_set_expr(s.node):
                P.set_mentions.append((self.name, s.lineno, '%s = %s' % (s.target.name, expr_text(s.node)),
                                       'alias of the set; later uses of the name are checked like the attribute'))
                return '(SetVar %d (* %s = %s *))' % (P.fresh(), s.target.name, comment(expr_text(s.node)))
            for t in [s.target] + list(s.target.find_all(N.Name)):
                if isinstance(t, N.Name) and t.name in self.tainted:
                    self.err(s, 'a name bound to a name-hashed set elsewhere is rebound here: ' + t.name)
            mc = self.macro_call(s.node)
            if mc is not None:
                return '(SetBlock %d (CallMacro %d %s %s) (* %s = %s *))' % (
                    P.fresh(), P.fresh(), coq_str(mc[0]), coq_str(mc[1]), comment(expr_text(s.target)), comment(expr_text(s.node)))
            self.check_plain(s.node, 'set')
            return '(SetVar %d (* %s = %s *))' % (P.fresh(), comment(expr_text(s.target)), comment(expr_text(s.node)))
        if isinstance(s, N.AssignBlock):
            if s.filter is not None:
                self.check_plain(s.filter, 'set block filter')
            return '(SetBlock %d %s (* %s *))' % (P.fresh(), self.seq(s.body), comment(expr_text(s.target)))
        if isinstance(s, N.FilterBlock):
            self.check_plain(s.filter, 'filter block')
            if self.find_macro_calls(s.filter):
                self.err(s, 'macro call in filter block header')
            return '(FilterBlock %d %s (* %s *))' % (P.fresh(), self.seq(s.body), comment(expr_text(s.filter)))
        if isinstance(s, N.Include):
            if not isinstance(s.template, N.Const) or not isinstance(s.template.value, str) or s.ignore_missing:
                self.err(s, 'include of a computed / optional template name')
            if s.template.value not in P.asts:
                self.err(s, 'include of unknown template ' + s.template.value)
            return '(Include %s)' % coq_str(s.template.value)
        if isinstance(s, N.If):
            self.check_test(s.test)
            if self.find_macro_calls(s.test):
                self.err(s, 'macro call in a test')
            els = self.seq(s.else_) if s.else_ else 'Nop'
            for e in reversed(s.elif_):
                self.check_test(e.test)
                els = '(Cond %d %s %s (* elif %s *))' % (P.fresh(), self.seq(e.body), els, comment(expr_text(e.test)))
            return '(Cond %d %s\n %s (* if %s *))' % (P.fresh(), self.seq(s.body), els, comment(expr_text(s.test)))
        if isinstance(s, N.For):
            if s.test is not None or s.recursive:
                self.err(s, 'for loop with a filter test / recursive loop')
            it, srt = s.iter, False
            if isinstance(it, N.Filter) and it.name == 'sort':
                if it.args or it.kwargs or it.dyn_args or it.dyn_kwargs:
                    self.err(s, '| sort with arguments')
                it, srt = it.node, True
            if self.is_set_expr(it):
                kind = 'NameSet'
            else:
                self.check_plain(it, 'for iterable')
                kind = 'Ordered'
            if self.find_macro_calls(s.iter):
                self.err(s, 'macro call in a for iterable')
            if kind == 'Ordered' and isinstance(it, N.Getattr) and it.attr in INT_SET_ATTRS:
                P.int_set_loops.append((self.name, s.lineno, expr_text(s.iter)))
            fid = P.fresh()
            P.loops.append((fid, self.name, s.lineno, expr_text(s.iter), kind, srt))
            for t in [s.target] + list(s.target.find_all(N.Name)):
                if isinstance(t, N.Name) and t.name in self.tainted:
                    self.err(s, 'a name bound to a name-hashed set elsewhere is a loop variable here: ' + t.name)
            body = self.seq(s.body)
            els = self.seq(s.else_) if s.else_ else 'Nop'
            return '(For %d %s %s (* %s *)\n %s\n %s)' % (fid, kind, 'true' if srt else 'false', comment(expr_text(s.iter)), body, els)
        self.err(s, 'statement node %s' % type(s).__name__)


# ----------------------------------------------------------------------------- metadata guards

BLOCK_RE = re.compile(r'^(trace|env|clock|stream|event|integer|floating_point|string|struct|enum)\b[^;]*\{\s*$')


class GuardWalker:
    """One row per `name = value;` (or `"label" = value,`) line of a metadata template."""

    def __init__(self, plan, name):
        self.plan, self.name = plan, name
        self.rows = []
        self.block = ''
        self.line = []   # pending pieces of the current output line: ('t', text) | ('e', node)
        self.walk(plan.asts[name].body, [])
        self.flush([])

    def guard(self, test, negate=False):
        if negate:
            return ('GOther', 'not (%s)' % expr_text(test))
        if isinstance(test, (N.Getattr, N.Name)):
            return ('GTruthy', expr_text(test))
        if isinstance(test, N.Not) and isinstance(test.node, N.Test) and test.node.name == 'none' and not test.node.args:
            return ('GIsNotNone', expr_text(test.node.node))
        if isinstance(test, N.Test) and test.name == 'defined':
            return ('GOther', expr_text(test))
        return ('GOther', expr_text(test))

    def walk(self, body, guards):
        for s in body:
            if isinstance(s, N.Output):
                for e in s.nodes:
                    if isinstance(e, N.TemplateData):
                        chunks = e.data.split('\n')
                        for i, c in enumerate(chunks):
                            if i > 0:
                                self.flush(guards)
                            if c:
                                self.line.append(('t', c))
                    else:
                        self.line.append(('e', e))
            elif isinstance(s, N.If):
                self.flush(guards)
                self.walk(s.body, guards + [self.guard(s.test)])
                self.flush(guards)
                neg = [self.guard(s.test, True)]
                for e in s.elif_:
                    self.walk(e.body, guards + neg + [self.guard(e.test)])
                    self.flush(guards)
                    neg.append(self.guard(e.test, True))
                if s.else_:
                    self.walk(s.else_, guards + neg)
                    self.flush(guards)
            elif isinstance(s, N.For):
                self.flush(guards)
                self.walk(s.body, guards)
                self.flush(guards)
                if s.else_:
                    raise Unsupported('%s:%s: for/else in a metadata template' % (self.name, s.lineno))
            elif isinstance(s, (N.Assign, N.AssignBlock, N.Import, N.Macro, N.Include)):
                continue
            else:
                raise Unsupported('%s:%s: statement %s in a metadata template' % (self.name, s.lineno, type(s).__name__))

    def flush(self, guards):
        pieces, self.line = self.line, []
        if not pieces:
            return
        text = ''.join(p[1] if p[0] == 't' else '\x00' for p in pieces)
        exprs = [p[1] for p in pieces if p[0] == 'e']
        st = text.strip()
        m = BLOCK_RE.match(st.replace('\x00', 'X'))
        if m:
            self.block = m.group(1)
            return
        if st.startswith('}') or st.startswith('/*') or not st:
            if st.startswith('}'):
                self.block = self.block  # closing line; the next opener resets it
            return
        # root field type assignment through the root_ft macro: {{ root_ft('packet.header', ...) }}
        if st == '\x00' and isinstance(strip_filters(exprs[0]), N.Call):
            call = strip_filters(exprs[0])
            if isinstance(call.node, N.Name) and call.node.name == 'root_ft' and call.args and isinstance(call.args[0], N.Const):
                self.rows.append(dict(block=self.block, attr=call.args[0].value + ' :=', guards=guards,
                                      value=expr_text(call.args[1]), quoted=False, escaped=False))
                return
        m = re.match(r'^(?P<name>[A-Za-z_][A-Za-z0-9_.]*|\x00|"\x00") (?P<op>=|:=) (?P<val>.*)[;,]$', st, re.S)
        if not m:
            # struct member lines, `} align(..)`, includes of the license header, etc. are not
            # attribute lines; anything that has an `=` and is not recognised fails closed
            if ' = ' in st or ' := ' in st:
                raise Unsupported('%s: unrecognised attribute line %r' % (self.name, st.replace('\x00', '{{..}}')))
            return
        nm, val = m.group('name'), m.group('val')
        ei = 0
        if '\x00' in nm:
            attr_e = exprs[0]
            ei = 1
            attr = ('"<%s>"' if nm.startswith('"') else '<%s>') % expr_text(attr_e)
            name_quoted = nm.startswith('"')
            name_escaped = isinstance(attr_e, N.Filter) and attr_e.name == 'escape_dq'
        else:
            attr = nm
            name_quoted = name_escaped = False
        vexprs = exprs[ei:]
        if val.count('\x00') != len(vexprs):
            raise Unsupported('%s: attribute line bookkeeping failed for %r' % (self.name, st))
        quoted = val.startswith('"') and val.endswith('"')
        escaped = False
        vtxt = val
        if vexprs:
            vtxt = val
            for e in vexprs:
                vtxt = vtxt.replace('\x00', '{{ %s }}' % expr_text(e), 1)
            if quoted and len(vexprs) == 1:
                escaped = isinstance(vexprs[0], N.Filter) and vexprs[0].name == 'escape_dq'
            elif not quoted and len(vexprs) == 1:
                # value if value is number else '"{}"'.format(value | escape_dq)
                e = vexprs[0]
                if isinstance(e, N.CondExpr) and isinstance(e.expr2, N.Call) and isinstance(e.expr2.node, N.Getattr) \
                        and e.expr2.node.attr == 'format' and isinstance(e.expr2.node.node, N.Const) \
                        and e.expr2.node.node.value == '"{}"' and len(e.expr2.args) == 1:
                    a = e.expr2.args[0]
                    quoted = True
                    escaped = isinstance(a, N.Filter) and a.name == 'escape_dq'
        self.rows.append(dict(block=self.block, attr=attr, guards=guards, value=vtxt, quoted=quoted, escaped=escaped,
                              name_quoted=name_quoted, name_escaped=name_escaped))


def strip_filters(e):
    while isinstance(e, N.Filter):
        e = e.node
    return e


# ----------------------------------------------------------------------------- Python loops

PY_FILES = ['config.py', 'cgen.py', 'codegen.py', 'tsdl182gen.py', 'template.py', 'cli.py', '__init__.py',
            'config_parse.py', 'config_parse_common.py', 'config_parse_v2.py', 'config_parse_v3.py', 'config_file.py']
PRIVATE = {'data_stream_types': '_data_stream_types', 'event_record_types': '_event_record_types'}


def py_mentions(e):
    for n in ast.walk(e):
        if isinstance(n, ast.Attribute) and (n.attr in SET_ATTRS or n.attr in PRIVATE.values()):
            return True
    return False


def is_set_attr(e):
    return isinstance(e, ast.Attribute) and (e.attr in SET_ATTRS or e.attr in PRIVATE.values())


# containers filled by keyed-fill loops over the name-hashed sets: their ITERATION order depends on
# the set order (their lookups do not: fold_insert_perm).  Known ones and the names under which
# templates see them; a new one fails closed.
FILLED = set()
KNOWN_FILLED = {'ds_ops', 'er_ops', 'clk_types', 'clk_type_c_types', '_c_types'}
DERIVED_IN_TEMPLATES = ('ds_ops', 'er_ops', 'clock_type_c_types')


def classify_py_loop(loop, fname):
    """Classify `for x in <iter mentioning a name-hashed set>` -- or raise Unsupported."""
    it = loop.iter
    inner = it
    if isinstance(it, ast.Call) and isinstance(it.func, ast.Name) and it.func.id == 'enumerate' and len(it.args) == 1:
        inner = it.args[0]
    if isinstance(inner, ast.Call) and isinstance(inner.func, ast.Name) and inner.func.id == 'sorted':
        if len(inner.args) != 1 or not is_set_attr(inner.args[0]):
            raise Unsupported('%s:%d: sorted() over an expression that is not the plain set' % (fname, loop.lineno))
        kws = {k.arg: k.value for k in inner.keywords}
        if set(kws) - {'key'}:
            raise Unsupported('%s:%d: sorted() with options other than key' % (fname, loop.lineno))
        if 'key' in kws:
            k = kws['key']
            ok = isinstance(k, ast.Lambda) and isinstance(k.body, ast.Attribute) and k.body.attr in ('name', '_name') \
                and isinstance(k.body.value, ast.Name) and k.body.value.id == k.args.args[0].arg
            if not ok:
                raise Unsupported('%s:%d: sorted() key is not the element name' % (fname, loop.lineno))
        return 'PySorted'
    if not is_set_attr(it):
        raise Unsupported('%s:%d: loop iterable mentions a name-hashed set in an unsupported way: %s' % (fname, loop.lineno, ast.unparse(it)))
    if not isinstance(loop.target, ast.Name) or loop.orelse:
        raise Unsupported('%s:%d: loop target / else clause' % (fname, loop.lineno))
    var = loop.target.id
    # shape 1: find by name:  for x in S: if x.name == n: return x
    if len(loop.body) == 1 and isinstance(loop.body[0], ast.If) and not loop.body[0].orelse:
        iff = loop.body[0]
        t = iff.test
        if isinstance(t, ast.Compare) and len(t.ops) == 1 and isinstance(t.ops[0], ast.Eq) \
                and isinstance(t.left, ast.Attribute) and t.left.attr == 'name' and isinstance(t.left.value, ast.Name) \
                and t.left.value.id == var and len(iff.body) == 1 and isinstance(iff.body[0], ast.Return) \
                and isinstance(iff.body[0].value, ast.Name) and iff.body[0].value.id == var:
            return 'PyFindByName'
    # shape 2: keyed fill: body = local assignments (not loop carried), `continue` guards,
    # D[k] = v / D.attr[k] = v / S.add(v), nested loops of the same kinds
    assigned = []

    def check_body(body, bound):
        bound = set(bound)
        for st in body:
            if isinstance(st, ast.Assign) and len(st.targets) == 1 and isinstance(st.targets[0], ast.Name):
                check_reads(st.value, bound, st)
                bound.add(st.targets[0].id)
                assigned.append(st.targets[0].id)
            elif isinstance(st, ast.Assign) and len(st.targets) == 1 and isinstance(st.targets[0], ast.Subscript):
                tgt = st.targets[0]
                base = tgt.value
                if not (isinstance(base, ast.Name) or (isinstance(base, ast.Attribute) and isinstance(base.value, ast.Name))):
                    raise Unsupported('%s:%d: store into a complex target in a set loop' % (fname, st.lineno))
                check_reads(tgt.slice, bound, st)
                check_reads(st.value, bound, st)
                FILLED.add(base.id if isinstance(base, ast.Name) else base.attr)
            elif isinstance(st, ast.Expr) and isinstance(st.value, ast.Call) and isinstance(st.value.func, ast.Attribute) \
                    and st.value.func.attr == 'add' and isinstance(st.value.func.value, ast.Name):
                for a in st.value.args:
                    check_reads(a, bound, st)
                FILLED.add(st.value.func.value.id)
            elif isinstance(st, ast.If):
                check_reads(st.test, bound, st)
                b1 = check_body(st.body, bound)
                b2 = check_body(st.orelse, bound)
                bound |= (b1 & b2)
            elif isinstance(st, ast.Continue):
                pass
            elif isinstance(st, ast.For) and py_mentions(st.iter):
                cls = classify_py_loop(st, fname)
                if cls not in ('PyKeyedFill',):
                    raise Unsupported('%s:%d: nested set loop of class %s inside a keyed fill' % (fname, st.lineno, cls))
                nested.append(st)
            elif isinstance(st, ast.Assert):
                check_reads(st.test, bound, st)
            else:
                raise Unsupported('%s:%d: statement %s in a loop over a name-hashed set' % (fname, st.lineno, type(st).__name__))
        return bound

    def check_reads(e, bound, st):
        # a name assigned somewhere in the loop body must have been assigned earlier in THIS iteration
        for n in ast.walk(e):
            if isinstance(n, ast.Name) and isinstance(n.ctx, ast.Load) and n.id in body_assigned and n.id not in bound:
                raise Unsupported('%s:%d: loop-carried variable %s in a loop over a name-hashed set' % (fname, st.lineno, n.id))

    nested = []
    body_assigned = {t.id for st in ast.walk(loop) if isinstance(st, ast.Assign) for t in st.targets if isinstance(t, ast.Name)}
    check_body(loop.body, {var})
    return 'PyKeyedFill'


def scan_python(repo):
    loops, others = [], []
    pkg = os.path.join(repo, 'barectf')
    present = sorted(f for f in os.listdir(pkg) if f.endswith('.py'))
    for fname in present:
        src = open(os.path.join(pkg, fname)).read()
        tree = ast.parse(src)
        parents = {}
        for p in ast.walk(tree):
            for c in ast.iter_child_nodes(p):
                parents[c] = p
        loop_iters = set()
        for n in ast.walk(tree):
            if isinstance(n, ast.For) and py_mentions(n.iter):
                cls = classify_py_loop(n, fname)
                loops.append((fname, n.lineno, ast.unparse(n.iter), cls))
                for m in ast.walk(n.iter):
                    loop_iters.add(m)
            elif isinstance(n, (ast.ListComp, ast.SetComp, ast.DictComp, ast.GeneratorExp)):
                for g in n.generators:
                    if py_mentions(g.iter):
                        raise Unsupported('%s:%d: comprehension over a name-hashed set' % (fname, n.lineno))
        # every other mention must be one of: definition of the attribute (self._x = frozenset(..)),
        # `return self._x`, the property definition itself, constructor parameter pass-through
        for n in ast.walk(tree):
            if isinstance(n, ast.Attribute) and (n.attr in SET_ATTRS or n.attr in PRIVATE.values()) and n not in loop_iters:
                p = parents.get(n)
                why = None
                if isinstance(p, ast.Return):
                    why = 'getter'
                elif isinstance(p, ast.Assign) and n in p.targets and isinstance(p.value, ast.Call) \
                        and isinstance(p.value.func, ast.Name) and p.value.func.id == 'frozenset':
                    why = 'construction (frozenset of the constructor argument)'
                elif isinstance(p, ast.Call) and isinstance(p.func, ast.Name) and p.func.id == 'sorted':
                    why = 'argument of sorted()'   # classified with its loop
                if why is None:
                    raise Unsupported('%s:%d: use of a name-hashed set outside a classified loop: %s' % (fname, n.lineno, ast.unparse(p)[:80]))
                others.append((fname, n.lineno, ast.unparse(p)[:80], why))
    # set-valued expressions anywhere in the package: each construction site is listed; the ones
    # that are iterated are exactly the name-hashed sets above and `ranges`
    sites = []
    for fname in present:
        tree = ast.parse(open(os.path.join(pkg, fname)).read())
        for n in ast.walk(tree):
            if isinstance(n, (ast.Set, ast.SetComp)) or (isinstance(n, ast.Call) and isinstance(n.func, ast.Name) and n.func.id in ('set', 'frozenset')):
                sites.append((fname, n.lineno, ast.unparse(n)[:60]))
    if not FILLED <= KNOWN_FILLED:
        raise Unsupported('containers filled from a name-hashed set that the template scan does not know: %s' % sorted(FILLED - KNOWN_FILLED))
    return loops, others, sites


# ----------------------------------------------------------------------------- output

HEADER = '(* GENERATED by tools/%s from %s -- do not edit; regenerated on every check *)\n'


def emit_plan(plan, py, outdir, repo):
    loops, others, sites = py
    o = [HEADER % ('j2coq.py', repo + '/barectf/templates and barectf/*.py'),
         'From Coq Require Import List NArith String.', 'Import ListNotations.',
         'From BT.Front Require Import Prefix Template.', 'Open Scope N_scope.', '']
    names = sorted(plan.templates)
    for i, n in enumerate(names):
        o.append('(* template %s *)' % n)
        o.append('Definition t_%d : tmpl :=\n %s.\n' % (i, plan.templates[n]))
    mkeys = sorted(plan.macros)
    for i, k in enumerate(mkeys):
        o.append('(* macro %s of %s *)' % (k[1], k[0]))
        o.append('Definition m_%d : tmpl :=\n %s.\n' % (i, plan.macros[k]))
    o.append('Definition templates : ttable := [\n  ' +
             ';\n  '.join('(%s, t_%d)' % (coq_str(n), i) for i, n in enumerate(names)) + '].\n')
    o.append('Definition macros : mtable := [\n  ' +
             ';\n  '.join('(%s, %s, m_%d)' % (coq_str(k[0]), coq_str(k[1]), i) for i, k in enumerate(mkeys)) + '].\n')
    o.append('(* every {% for %}: (node id, template, line, iterable, name-hashed set?, sorted?) *)')
    o.append('Definition for_loops : list (N * str * N * str * coll_kind * bool) := [\n  ' +
             ';\n  '.join('(%d, %s, %d, %s, %s, %s)' % (fid, coq_str(t), ln, coq_str(it), kind, 'true' if srt else 'false')
                          for fid, t, ln, it, kind, srt in plan.loops) + '].\n')
    o.append('(* whitelisted order-insensitive uses of the name-hashed sets outside a for iterable:')
    for t, ln, txt, why in plan.set_mentions:
        o.append('     %s:%s  %s  -- %s' % (t, ln, comment(txt), why))
    o.append('   loops over integer-hashed sets (hash seed independent, outside the C13 quantifier):')
    for t, ln, txt in plan.int_set_loops:
        o.append('     %s:%s  %s' % (t, ln, comment(txt)))
    o.append('*)\n')
    o.append('Inductive py_loop_class := PySorted | PyKeyedFill | PyFindByName.')
    o.append('(* Python loops over the name-hashed sets: (file, line, iterable, class) *)')
    o.append('Definition py_loops : list (str * N * str * py_loop_class) := [\n  ' +
             ';\n  '.join('(%s, %d, %s, %s)' % (coq_str(f), ln, coq_str(it), cls) for f, ln, it, cls in loops) + '].\n')
    o.append('(* other mentions of the sets in Python (all getters / constructions / sorted() arguments):')
    for f, ln, txt, why in others:
        o.append('     %s:%d  %s  -- %s' % (f, ln, comment(txt), why))
    o.append('   set construction sites in the package (%d):' % len(sites))
    for f, ln, txt in sites:
        o.append('     %s:%d  %s' % (f, ln, comment(txt)))
    o.append('*)')
    o.append('Definition n_set_construction_sites : nat := %d.' % len(sites))
    with open(os.path.join(outdir, 'TemplatePlan.v'), 'w') as f:
        f.write('\n'.join(o) + '\n')


def emit_guards(plan, outdir, repo):
    o = [HEADER % ('j2coq.py', repo + '/barectf/templates/metadata'),
         'From Coq Require Import List NArith String.', 'Import ListNotations.',
         'From BT.Front Require Import Prefix MetaAttrs.', 'Open Scope N_scope.', '',
         'Definition meta_rows : list attr_row := [']
    rows = []
    for name in sorted(plan.asts):
        if not name.startswith('metadata/'):
            continue
        for r in GuardWalker(plan, name).rows:
            gs = '[' + '; '.join('%s %s' % (g[0], coq_str(g[1])) for g in r['guards']) + ']'
            rows.append('  mk_row %s %s %s %s %s %s %s %s %s' % (
                coq_str(name), coq_str(r['block']), coq_str(r['attr']), gs, coq_str(r['value']),
                'true' if r['quoted'] else 'false', 'true' if r['escaped'] else 'false',
                'true' if r.get('name_quoted') else 'false', 'true' if r.get('name_escaped') else 'false'))
    o.append(';\n'.join(rows))
    o.append('].')
    with open(os.path.join(outdir, 'MetaGuards.v'), 'w') as f:
        f.write('\n'.join(o) + '\n')


def main():
    repo, outdir = sys.argv[1], sys.argv[2]
    os.makedirs(outdir, exist_ok=True)
    try:
        plan = Plan(repo)
        py = scan_python(repo)
        failed = []
        if plan.plan_error is not None:
            failed.append(('TemplatePlan', plan.plan_error))
        else:
            try:
                emit_plan(plan, py, outdir, repo)
            except Unsupported as e:
                failed.append(('TemplatePlan', e))
        try:
            emit_guards(plan, outdir, repo)
        except Unsupported as e:
            failed.append(('MetaGuards', e))
        for out, e in failed:
            # fail closed, per output: the file becomes a stub and every theorem that depends on it breaks
            with open(os.path.join(outdir, out + '.v'), 'w') as f:
                f.write('(* translator j2coq.py failed (fail closed): %s *)\nDefinition translation_failed_%s := tt.\n'
                        % (str(e).replace('*)', '* )'), out))
            print('j2coq: unsupported construct (fail closed), Gen/%s.v is a stub: %s' % (out, e))
        if len(failed) == 2:
            return 1
    except Unsupported as e:
        print('j2coq: unsupported construct (fail closed): %s' % e)
        return 1
    print('j2coq: %d templates, %d macros, %d for loops (%d over name-hashed sets), %d python loops' % (
        len(plan.templates), len(plan.macros), len(plan.loops), sum(1 for l in plan.loops if l[4] == 'NameSet'), len(py[0])))
    return 0


if __name__ == '__main__':
    sys.exit(main())
