#!/bin/sh
# usage: tools/regress_seed.sh <seed-name> <ID>
# Applies /verif/seeded/<seed-name>/patch.diff to a scratch worktree of /repo HEAD, runs the quick check <ID> against it
# in an isolated copy of /verif (tools/try_seed.sh) and prints one line: caught (concrete) / caught (no failing input) / MISSED.
S=$1; P=$2
WT=/tmp/rg_$S
git -C /repo worktree add --detach $WT HEAD -q 2>/dev/null
git -C $WT apply /verif/seeded/$S/patch.diff || { echo "$S: patch does not apply"; git -C /repo worktree remove --force $WT; exit 1; }
/verif/tools/try_seed.sh $WT $P > /tmp/rg_$S.log 2>&1
if grep -q "VIOLATION property=$P" /tmp/rg_$S.log; then
  if grep "VIOLATION property=$P" /tmp/rg_$S.log | grep -qv "no-failing-input-found"; then echo "$S $P: caught (concrete)"; else echo "$S $P: caught (no failing input)"; fi
else echo "$S $P: MISSED"; tail -3 /tmp/rg_$S.log | cut -c1-200; fi
git -C /repo worktree remove --force $WT
rm -f /tmp/rg_$S.log
