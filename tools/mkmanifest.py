#!/venv/bin/python
"""Regenerates MANIFEST.json from the table below (so it stays valid at all times)."""
import json, os
V = os.path.dirname(os.path.dirname(os.path.abspath(__file__)))
TB = ('Trusted: Coq 8.16.1 kernel incl. vm_compute (no native_compute), no declared axiom (Print Assumptions of every '
      'property theorem is recorded in the evidence), the translators under /verif/tools, the correspondence harness '
      'under /verif/harness, gcc/clang/libc/x86-64. Hand-written Gallina models are tied to /repo by correspondence runs '
      'on every check; regenerated models (coq/theories/Gen) by translators run on every check. ')
CHECKS = {
 'C08': dict(
   text='Coq theorem C08_bitfield_exact: for both byte orders, all start offsets 0..7, lengths 1..64, carriers 8/16/32/64 signed/unsigned, ALL values and ALL prior window contents, the transcribed bt_bitfield_write macro program returns exactly the CTF-specified window (no UB, no byte outside the window). Proved by reflection: generic soundness of a symbolic bit domain + kernel-evaluated sweep over the 8192 control cases. The transcription is tied to the generated barectf-bitfield.h by running the compiled header and the Coq model on the same cases.',
   note=TB + 'Modelled, not verified: the hand transcription of the macro into register-machine instruction lists (C/Bitfield.v) — validated on every run against the compiled generated header on all 8192 control cases; C90 integer semantics (two\'s complement, arithmetic >> on signed, << of negative int as bit pattern).',
   technique='Coq proof by reflection (symbolic bits + vm_compute sweep) + differential run of model vs compiled generated header',
   ref='5.C08'),
}
PENDING = ['C01','C02','C03','C04','C05','C06','C07','C09','C10','C11','C12','C13','C14','C15','C16','C17','C18','C19']

def main():
    checks = []
    for pid, c in sorted(CHECKS.items()):
        checks.append({
            'property_id': pid,
            'quick_cmd': './check %s --tier quick' % pid,
            'thorough_cmd': './check %s --tier thorough' % pid,
            'evidence_file': '/verif/evidence/%s.json' % pid,
            'replay_cmd_template': './check %s --replay {path}' % pid,
            'engine': 'coq-correspondence',
            'level_claimed': {'category': 'proof', 'text': c['text'], 'design_ref': 'DESIGN.md ' + c['ref']},
            'level_note': c['note'],
            'technique': c['technique'],
        })
    m = {
        'version': 1,
        'setup_cmd': './check --setup',
        'hooks': {'guard': 'EFFICIOS_BARECTF_VERIF', 'enable': 'checks export EFFICIOS_BARECTF_VERIF=1; no source hook exists (no property needs one)',
                  'baseline_off_cmd': 'cd /repo && /venv/bin/python -m pytest -ra -q -p no:cacheprovider --timeout=900 --continue-on-collection-errors',
                  'source_commits': [], 'add_only': True},
        'engines': [{'name': 'coq-correspondence', 'path': '/verif/check', 'serves_properties': sorted(CHECKS),
                     'kind_free_text': 'Coq 8.16 development (coq/theories) + translators (tools/) + correspondence harness (harness/)'}],
        'checks': checks,
        'not_applicable': [{'property_id': p, 'reason': 'check not built yet at this commit (construction in progress, see DESIGN.md section 8); not a claim that the technique cannot apply'}
                           for p in PENDING if p not in CHECKS],
        'notes': 'See DESIGN.md. All checks: ./check <ID> [--tier quick|thorough]; evidence in evidence/<ID>.json; known findings in known_findings.json.',
    }
    with open(os.path.join(V, 'MANIFEST.json'), 'w') as f:
        json.dump(m, f, indent=1)
        f.write('\n')

main()
