#!/venv/bin/python
"""Regenerates MANIFEST.json from the table below (so it stays valid at all times)."""
import json, os
V = os.path.dirname(os.path.dirname(os.path.abspath(__file__)))
TB = ('Trusted: Coq 8.16.1 kernel incl. vm_compute (no native_compute), no declared axiom (Print Assumptions of every '
      'property theorem is recorded in the evidence), the translators under /verif/tools, the correspondence harness '
      'under /verif/harness, gcc/clang/libc/x86-64. Hand-written Gallina models are tied to /repo by correspondence runs '
      'on every check; regenerated models (coq/theories/Gen) by translators run on every check. ')
CHECKS = {
 'C01': dict(
   text='Coq theorems (all field type trees, all values, all start positions, all buffer contents): C01_ops_equal_layout (the C semantics of the operations built by the model of cgen._OpBuilder, with its statically tracked in-byte offsets and memcpy/bit-field choice, equals the layout specification), C01_struct_roundtrip (a CTF reader given only the generated TSDL type reads back the canonical form of the values from what was written, whatever is written later), C01_record_roundtrip (event dispatch on the header id + the four scopes). Ties re-run on every check: (1) model builder vs the REAL _DsOps captured from cgen (structural equality), (2) model TSDL generator vs the parsed REAL metadata, (3) model serialization + runtime vs the bytes produced by the compiled generated C, (4) oracle: the Coq reader applied to the REAL packets with the REAL parsed metadata returns the traced values.',
   note=TB + 'Modelled, not verified: Layout/Model.v and Tracer/Model.v are hand-written (tied by correspondences 1-3); positions are unbounded nat (no uint32 wrap: >= 512 MiB records, S12); hypotheses: alignments 1/2/4/multiple of 8, array elements not dynamic arrays, well-typed arguments (strings without NUL, dynamic array length member = element count), unique event ids; the link between write_bits/enc_int and the byte-level bit-field macro is C08 + the byte correspondence, not a Coq lemma; harness/tsdl.py (TSDL parser) is trusted.',
   technique='Coq proof (induction on field type trees: builder soundness + encode/decode round trip) + differential runs model vs real op trees / metadata / compiled tracer',
   ref='5.C01'),
 'C02': dict(
   text='Coq theorems (all configurations, oracles, histories unless stated): the packet buffer keeps its length in every reachable world - every store the model performs is inside it or raises the error flag (C02_buffer_length_invariant); the size pass gives exactly the position serialization reaches (C02_size_pass_mirrors_serialization); a structure whose computed end fits is serialized without any store outside (C02_fitting_structure_in_bounds); after a successful reservation, if the reserved size is the record size at the position finally used (always true without a packet switch), every store of the record is inside the packet (C02_record_in_bounds_partial). The unrestricted statement is refuted for the faithful model AND the real code: C02_refuted_stale_size (S9), C02_refuted_smaller_buffer (S18) - known findings replayed by the check. Validation: every correspondence run uses gcc -ansi ASan+UBSan builds with exact-size heap buffers; model and compiled tracer agree on which call overflows.',
   note=TB + 'Partial: the compiled object\'s memory accesses and compiler-visible UB are validated by sanitizers, not proved; uint32 wrap of ctx->at (S12) outside the model; bit-field level UB freedom is C08. Known findings S9, S18 (genuine defects of /repo, not repaired: the repair needs the size functions to be re-run after a packet switch).',
   technique='Coq proof (invariant + size/serialize mirror lemmas + refutation witnesses) + sanitizer-instrumented differential runs',
   ref='5.C02'),
 'C03': dict(
   text='Coq theorems on the tracer model for all configurations/oracles/worlds: a tracing call logs at most one discard (C03_at_most_one_discard); _reserve_er_space logs exactly one discard iff it refuses the record (C03_reserve_discards_iff_fails; with C06_accessors the counter equals the refused calls); a refusal happens only when the record exceeds the capacity test or right after is_backend_full answered true (C03_discard_only_if); an accepted record is serialized once, contiguously, in bounds (C02) and reads back (C01). Oracle on every run: the Coq CTF reader applied to the REAL packets with the REAL parsed metadata returns exactly the accepted calls in call order, and the final counter equals the missing calls.',
   note=TB + 'Partial: the whole-history statement (records in emitted packets = accepted calls in order) is checked by the decode oracle on the implementation, not proved (needs the packet-level frame argument). Known finding S9: the capacity test uses the size at the current position. Records of zero bits are excluded (S13).',
   technique='Coq proof (per-call outcome theorems on the state machine) + decode oracle on real packets + differential run',
   ref='5.C03'),
 'C04': dict(
   text='Coq theorems: the packet header written at opening reads back from the generated TSDL as the configured constants (C04_header_roundtrip, instance of the C01 structure theorem); the opening function hands packet_size = 8 x buffer size, the sequence number and the beginning timestamp to the serializer (C04_open_values); in every reachable world the sequence number equals the packets handed over so far and the discarded counter the discards so far (C04_counters); an effective close records content size = position where closing began, parks at packet_size, bumps the sequence number iff the feature exists (C04_close_effective); a late field is skipped at the saved aligned offset and later filled exactly at [saved, saved+size) (C04_fill_position). Oracle on every run: the Coq CTF reader with the parsed REAL metadata decodes every packet handed over by the compiled tracer; magic/UUID/stream id/packet_size/content_size/sequence number/discarded snapshot are compared with counters kept independently; model packets are byte-identical to the real ones.',
   note=TB + 'Partial: the whole-history composition (the reader decodes the packet context of every emitted packet to those values) is checked by the decode oracle on the implementation, not proved (needs the frame argument for late writes). Feature field types of any size/alignment, sub-byte ones included, are in the generator.',
   technique='Coq proof (header round trip, value/accessor invariants, late-field placement) + packet decode oracle + differential run',
   ref='5.C04'),
 'C05': dict(
   text='Coq theorems on the tracer state machine model, for all configurations, oracles and histories: every timestamp written (packet beginning, packet end, record) is the most recent clock sample (C05_ts_is_latest_sample), a record timestamp is the sample taken at the entry of its tracing call (C05_record_ts_is_entry_sample), and under no clock wrap-around the written timestamps are non-decreasing in writing order, hence begin <= records <= end <= next begin (C05_ts_monotone, C05_ts_pairwise). Tie: the model is run against the compiled generated tracer on random histories (callback order, every context field after every call, every packet byte); oracle on the real packets: decoded timestamps are replayed clock samples, ordered.',
   note=TB + 'Modelled: Tracer/Model.v hand-written, tied by correspondence; hypothesis nowrap (no reduction modulo 2^clock bits); that the stored bits are the value modulo the field size is the layout layer (C01/C08).',
   technique='Coq proof (invariant over all histories) + differential run of the model vs the compiled tracer + decode oracle',
   ref='5.C05'),
 'C06': dict(
   text='Coq theorems on the tracer model for all configurations/oracles/histories: opening an open packet and closing a closed one are no-ops (C06_open_noop, C06_close_noop), effective open/close postconditions (C06_open_effective, C06_close_effective: is_open, at, content size, sequence number incremented iff the feature exists), accessor truth (C06_accessors: sequence number = packets handed over, discarded counter = discards), finalisation idiom flushes (C06_fini_flushes), callback protocol (C06_callback_protocol: tracer-initiated open only on a closed packet right after a "not full" answer, close only on an open packet) under positive record sizes and first packet opened, both hypotheses shown necessary by refuted examples. Tie: correspondence with the compiled tracer incl. packet_is_open at every callback entry, buffer swaps, random histories; protocol oracle on the real log.',
   note=TB + 'Modelled: Tracer/Model.v; conformant platform = callbacks call the open/close functions, hand over the packet, may install a buffer; known findings S9/S18 (reservation not re-validated after a packet switch) can put at beyond packet_size; buf/buf_size accessors compared by correspondence only.',
   technique='Coq proof (invariants over all histories) + differential run + protocol oracle on the implementation log',
   ref='5.C06'),
 'C07': dict(
   text='Coq theorems for all worlds: a tracing call that finds tracing disabled after its entry clock sample returns the world unchanged except the saved timestamp, invoking only the clock callback (C07_trace_disabled); a call that passed the test is insensitive to every toggle performed by callbacks during it - same log, packets, buffer, counters (C07_trace_atomic, simulation relation); re-enabling resumes at the position left by the last recorded event (C07_reenable_resumes). Tie: correspondence with toggles between calls and inside every callback kind; oracle: disabled calls leave every context field unchanged and invoke only the clock.',
   note=TB + 'Modelled: Tracer/Model.v; the first packet is opened with tracing enabled (S10); interrupts are modelled as toggles at callback boundaries only (the C code reads the flag once, at entry).',
   technique='Coq proof (simulation relation + case analysis) + differential run + oracle',
   ref='5.C07'),
 'C08': dict(
   text='Coq theorem C08_bitfield_exact: for both byte orders, all start offsets 0..7, lengths 1..64, carriers 8/16/32/64 signed/unsigned, ALL values and ALL prior window contents, the transcribed bt_bitfield_write macro program returns exactly the CTF-specified window (no UB, no byte outside the window). Proved by reflection: generic soundness of a symbolic bit domain + kernel-evaluated sweep over the 8192 control cases. The transcription is tied to the generated barectf-bitfield.h by running the compiled header and the Coq model on the same cases.',
   note=TB + 'Modelled, not verified: the hand transcription of the macro into register-machine instruction lists (C/Bitfield.v) - validated on every run against the compiled generated header on all 8192 control cases; C90 integer semantics (two\'s complement, arithmetic >> on signed, << of negative int as bit pattern).',
   technique='Coq proof by reflection (symbolic bits + vm_compute sweep) + differential run of model vs compiled generated header',
   ref='5.C08'),
 'C09': dict(
   text='Coq theorems on the JSON schemas REGENERATED from /repo on every run (tools/yaml2coq.py, same loader as barectf): a reflective denotation of the Draft-7 keyword subset (C09_keyword_inversion, C09_fuel_monotone) and, for ALL documents, acceptance by config/3/config implies the documented shape of the whole tree (C09_config_accepted_implies_documented_partial, C09_field_type_tree_partial) with one theorem per definition (integer/enumeration/real/string/static array/dynamic array/structure + members/trace/data stream type/event record type/clock type/trace type). Constraints still NOT enforced are refuted by kernel-evaluated witnesses replayed on the real front end (integral floats, enum mappings null, identifier trailing newline, total < content size): known findings. Oracle on every run: 45 documented-constraint mutations x every location kind of valid base documents in both dialects: an accepted violating mutant is a concrete violation. The Gallina validator is compared with python-jsonschema (through barectf\'s own validator) on ~2k (schema, instance) pairs.',
   note=TB + 'Proof covers the final barectf 3 schema stage; the Python-side checks (alignment power of two, duplicate/reserved members, nested structure/dynamic array, ID widths, single default stream, unknown alias/clock/log level/include, cycles), the pre-expansion stage schemas and the barectf 2 dialect are decided by the mutation oracle on the implementation (stated in the evidence). Trusted: tools/yaml2coq.py (validated by the jsonschema correspondence).',
   technique='Coq proof by reflection over regenerated JSON schemas (translator) + validator/jsonschema correspondence + constraint x location mutation oracle',
   ref='5.C09'),
 'C10': dict(
   text='PARTIAL. Coq: the access skeleton of _create_fts / _normalize_props (Front/CreateConfig.create_ft, tied to the real functions by correspondence on schema-valid nodes) never raises a non-configuration exception on a field type tree accepted by the regenerated final schema and free of floats / null mappings (C10_create_ft_total_partial, C10_create_ft_total_string); the two excluded cases are refuted by replayed crash witnesses (known findings). Validation on the implementation (named, not proved): every single structural fault (node kind x delete / retype / out-of-range / unknown or self-referencing alias and inclusion / spliced sub-tree / non-string key) on valid barectf 2 and 3 documents, random multi-fault mutants, raw byte corruption, classified as ok / configuration error / other exception by call site / timeout; every accepted document is generated and compiled; CLI sample (exit status, no traceback, no output file).',
   note=TB + 'Partial by nature: text -> tree by PyYAML on arbitrary bytes, OS errors, the CLI and the C compiler are validated, not modelled. 26 known findings (genuine robustness defects of the unchanged front end: misplaced `required` lists in stage schemas, unguarded shapes before expansion, YAML loader exceptions, integral floats, ...), several repaired by fix: commits (duplicate schema key, static array length, member names, trace properties, non-mapping root).',
   technique='Coq proof (totality of the field type creation skeleton over regenerated schemas) + exhaustive single-fault enumeration on the implementation',
   ref='5.C10'),
 'C11': dict(
   text='Coq theorems for ALL trees, file systems and directory lists on the model of the barectf 3 `_parse` pipeline up to (excluding) _create_config - inclusion (C12 models), alias expansion + inheritance + member normalisation, log level alias substitution, schema gate, `_normalize_props`: C11_effective_clean (the effective tree has no $include / $inherit / aliases / log level aliases / nulls / non-canonical spellings), C11_stage_id_on_clean (every stage is the identity on clean trees), C11_fixed_point, C11_no_inclusion_files_needed, C11_pre_create_same (the tree, byte order key and byte order handed to _create_config are the same from the original and from the effective document), C11_normalise_idempotent. Tie: real effective_configuration_file vs the Coq pipeline on generated documents (inclusions <= 4 levels, alias / inheritance chains, null resets, every spelling alias). Oracles on the real code, both dialects + repository corpus: effective(effective) byte-identical; the effective document loads and is clean; files generated from the original and from the effective document are byte-identical modulo the date.',
   note=TB + 'Modelled, not verified: Front/Effective.v (hand-written, schema checks as necessary-condition gates annotated with their schema clause); _create_config is not modelled: "byte-identical generated files" is proved up to the input of _create_config and validated on the real code; barectf 2 input by oracle only (conversion is C18); uuid: auto excluded (documented).',
   technique='Coq proof (stage-wise identity on clean trees => fixed point) + differential run vs effective_configuration_file + byte-identity oracles',
   ref='5.C11'),
 'C12': dict(
   text='15 Coq theorems for ALL trees: the per-key patching table, key order, update = documented patch_spec on well-formed trees, totality, members merge as ordered map, null replaces, inclusion order/search order/cycle error, alias chains of any depth and alias cycle error, inheritance chain = fold of update. Tie: the REAL _update_node on generated tree pairs vs the Coq update (vm_compute), stage-level comparison of include / alias / inherit, end-to-end scenarios through effective_configuration_file; oracle = Python transcription of the documented table.',
   note=TB + 'Modelled: Front/Patch.v, Include.v, Alias.v, Inherit.v hand-written (file system abstract; realpath/symlinks not modelled); hypotheses: no duplicate keys (PyYAML), well-formed members lists; known findings: alias name merged instead of replacing under $inherit, YAML anchor sharing mutated by in-place update.',
   technique='Coq proof (induction on YAML trees) + differential run of the model vs _update_node and the real front end',
   ref='5.C12'),
 'C13': dict(
   text='Coq theorems: ID assignment is permutation invariant and equals the rank of the name (C13_ids_perm, C13_ids_rank, C13_ids_contiguous); every regenerated template skeleton iterates the name-hashed sets only through sorted loops, so rendering is independent of the iteration order for every interpretation of leaves and tests (C13_render_order_free + obligations C13_plan_sorted/closed on Gen/TemplatePlan, regenerated from /repo on every run); Python dict-fill loops are order-free. Oracle: same configuration generated in fresh processes under several PYTHONHASHSEED values and mapping permutations is byte-identical; IDs in metadata = IDs in C = model.',
   note=TB + 'Trusted: tools/j2coq.py (jinja2 parser, fail-closed classification of set uses), Python ast scan of loops; uuid: auto excluded (documented).',
   technique='Coq proof over regenerated template plans (translator) + permutation/hash-seed oracle',
   ref='5.C13'),
 'C14': dict(
   text='Coq theorems on cgen._ft_c_type translated from /repo on every run: C14_ctype (the chosen C type is the documented one for every well-formed field type), C14_protos (parameter lists = documented ones), C14_protos_count, C14_loop_var_name. Validation (named, not proved): generated files of random configurations compiled with gcc/clang -ansi -pedantic-errors -Wall -Wextra -Werror and g++/clang++ -std=c++98, header alone, glue re-declaring every function with the documented prototype.',
   note=TB + 'Partial: that no compiler diagnoses anything for every configuration is a statement about compilers and is only sampled. Trusted: tools/py2coq.py (re-validated against the real Python function on enumerated arguments on every run). Known findings: name collisions of generated functions for crafted stream/event names, -Wtype-limits on zero-length static arrays.',
   technique='Coq proof over a regenerated translation of _ft_c_type + compiler validation',
   ref='5.C14'),
 'C15': dict(
   text='Coq theorems: C15_escape_roundtrip (for every string the literal written with escape_dq - translated from /repo on every run - is read back by a reader written from the TSDL string literal grammar), C15_guards_adequate_all (every attribute line of the regenerated metadata templates is emitted exactly when configured; truthiness guards on integer attributes are rejected), C15_quoted_values_escaped, C15_required_attributes_present. Oracle: real metadata of boundary-value configurations parsed by an independent TSDL parser and compared attribute by attribute.',
   note=TB + 'Trusted: tools/j2coq.py guard classification, tools/py2coq.py, harness/tsdl.py. Grammar well-formedness of whole files is what the parser accepting them means (validation).',
   technique='Coq proof over regenerated guards and translated escape function + TSDL parse oracle',
   ref='5.C15'),
 'C16': dict(
   text='Coq theorems on the tracer model for all configurations/oracles/histories: every serialization into the packet buffer happens with the in-tracing-section flag set (C16_stores_in_section), every callback a tracing call invokes after its entry clock sample sees the flag set (C16_callbacks_in_section), the flag (and use_cur_last_event_ts) is clear after every public call that returns without error (C16_flag_clear_after_call). Tie: correspondence incl. the flag value at every callback entry and after every call.',
   note=TB + 'Modelled: stores are logged at serialization granularity (one event per root structure write), in template statement order; the entry clock sample precedes the section (reading fixed in DESIGN.md section 9); the flag value at individual machine stores of the compiled code is not observed.',
   technique='Coq proof (invariant over all histories) + differential run with flag values',
   ref='5.C16'),
 'C17': dict(
   text='Coq theorems: C17_no_writable_static (in the declaration list regenerated from the C templates on every run every object with static storage duration is const), and on the product model of n single-context machines C17_frame (a call on one context leaves every other context unchanged), C17_interleaving (for every interleaving each context ends where its own history alone leads it), C17_interleavings_agree. Validation (named): nm of compiled objects shows no .data/.bss symbol; one context per thread under ThreadSanitizer, concurrent byte streams = sequential ones.',
   note=TB + 'Partial: that the compiled functions access nothing but their arguments is validated (nm, TSan), not proved; the single-context component of the product model is Tracer/Model.v (tied by the C01-C07 correspondence runs); hardware-level races are outside any Gallina model.',
   technique='Coq proof (product model frame/interleaving + obligation on regenerated declarations) + nm / ThreadSanitizer validation',
   ref='5.C17'),
 'C19': dict(
   text='Coq theorems on file-scope declarations regenerated from the C templates on every run: every external symbol starts with the identifier prefix (C19_symbols_prefixed), incomparable prefixes give disjoint symbol sets (C19_disjoint_prefix_disjoint_symbols; refuted for nested prefixes), file names, CLI --prefix override (translated function), default-stream macros and tracepoint() resolve to the tracing function. Validation: nm of compiled objects = model symbol set, two tracers linked and run in one program, gcc -E expansion of the shorthand macros.',
   note=TB + 'Partial: linking is a toolchain fact (validated). Trusted: tools/cdecl_scan.py, tools/py2coq.py. Known finding: nested prefixes can collide (a_ + b_s vs a_b_ + s).',
   technique='Coq proof over regenerated declaration list + nm/link validation',
   ref='5.C19'),
}
PENDING = ['C01','C02','C03','C04','C05','C06','C07','C09','C10','C11','C12','C13','C14','C15','C16','C17','C18','C19']

def main():
    checks = []
    for pid, c in sorted(CHECKS.items()):
        checks.append({
            'property_id': pid,
            'quick_cmd': './check %s --tier quick' % pid,
            'thorough_cmd': './check %s --tier thorough' % pid,
            'evidence_file': '/verif/evidence/%s.json' % pid,
            'replay_cmd_template': './check %s --replay {path}' % pid,
            'engine': 'coq-correspondence',
            'level_claimed': {'category': 'proof', 'text': c['text'], 'design_ref': 'DESIGN.md ' + c['ref']},
            'level_note': c['note'],
            'technique': c['technique'],
        })
    m = {
        'version': 1,
        'setup_cmd': './check --setup',
        'hooks': {'guard': 'EFFICIOS_BARECTF_VERIF', 'enable': 'checks export EFFICIOS_BARECTF_VERIF=1; no source hook exists (no property needs one)',
                  'baseline_off_cmd': 'cd /repo && /venv/bin/python -m pytest -ra -q -p no:cacheprovider --timeout=900 --continue-on-collection-errors',
                  'source_commits': [], 'add_only': True},
        'engines': [{'name': 'coq-correspondence', 'path': '/verif/check', 'serves_properties': sorted(CHECKS),
                     'kind_free_text': 'Coq 8.16 development (coq/theories) + translators (tools/) + correspondence harness (harness/)'}],
        'checks': checks,
        'not_applicable': [{'property_id': p, 'reason': 'check not built yet at this commit (construction in progress, see DESIGN.md section 8); not a claim that the technique cannot apply'}
                           for p in PENDING if p not in CHECKS],
        'notes': 'See DESIGN.md. All checks: ./check <ID> [--tier quick|thorough]; evidence in evidence/<ID>.json; known findings in known_findings.json.',
    }
    with open(os.path.join(V, 'MANIFEST.json'), 'w') as f:
        json.dump(m, f, indent=1)
        f.write('\n')

main()
