#!/venv/bin/python
"""yaml2coq.py /repo <outdir>: barectf's JSON schemas -> Gallina schema stores.

Loads every schema file under <repo>/barectf/schemas/config/{common,2,3} with PyYAML's
SafeLoader, exactly as barectf's `_SchemaValidator.__init__` does (so a duplicated mapping key
keeps its last value, as in barectf), and writes

    <outdir>/Schemas3.v   store of `_SchemaValidator({'config/common', 'config/3'})`
    <outdir>/Schemas2.v   store of `_SchemaValidator({'config/common', 'config/2'})`

Each store is a list (key, schema term of BT.Front.JsonSchema) with one entry per schema file
root ("config/3/config#"), one per `definitions` member ("config/3/field-type#/definitions/ft")
and one per other `$ref` target.  `$ref`s are resolved here the way jsonschema.RefResolver does
(urljoin against the `$id` of the enclosing file; no nested `$id` allowed) and emitted as store
keys; a reference whose target does not exist is emitted as is (its key is not in the store:
the validator model answers Stuck, python raises RefResolutionError / RuntimeError).

Fails closed (exit status 2, message naming the construct) on anything outside the supported
subset.  Output is deterministic (no dates, sorted entries).
"""
import hashlib
import os
import re
import sys
from urllib.parse import urljoin, urldefrag

import yaml

ID_PREFIX = 'https://barectf.org/schemas/'
ANNOTATIONS = {'title', 'description', '$comment', '$schema'}
TYPES = {'null': 'TNull', 'boolean': 'TBool', 'integer': 'TInt', 'number': 'TNum',
         'string': 'TStr', 'array': 'TArr', 'object': 'TObj'}
PATTERNS = {
    '.*': 'PAny',
    '': 'PEmpty',
    '^[A-Za-z_][A-Za-z0-9_]*$': 'PIdent',
    '^[0-9a-f]{8}-[0-9a-f]{4}-[0-9a-f]{4}-[0-9a-f]{4}-[0-9a-f]{12}$': 'PUuid',
}


class Unsupported(Exception):
    pass


def fail(where, what):
    raise Unsupported('%s: %s' % ('/'.join(str(w) for w in where), what))


def coq_string(s, where):
    if not isinstance(s, str):
        fail(where, 'string expected, got %r' % (s,))
    for ch in s:
        if not (32 <= ord(ch) <= 126):
            fail(where, 'non printable-ASCII character in schema string %r' % s)
    return '"' + s.replace('"', '""') + '"'


def coq_z(n):
    return '(%d)%%Z' % n


def coq_nat(n, where):
    if isinstance(n, bool) or not isinstance(n, int) or n < 0 or n > 5000:
        fail(where, 'natural number (<= 5000) expected, got %r' % (n,))
    return '%d%%nat' % n


def coq_const(v, where):
    if v is None:
        return 'JNull'
    if v is True:
        return '(JBool true)'
    if v is False:
        return '(JBool false)'
    if isinstance(v, int):
        return '(JInt %s)' % coq_z(v)
    if isinstance(v, str):
        return '(JStr %s)' % coq_string(v, where)
    fail(where, 'enum/const value outside null/bool/integer/string: %r' % (v,))


def coq_list(items, indent):
    if not items:
        return '[]'
    pad = ' ' * indent
    return '[\n' + ';\n'.join(pad + '  ' + i for i in items) + '\n' + pad + ']'


class Store:
    def __init__(self, docs):
        # docs: {full $id: (short id, schema dict, file name)}
        self.docs = docs
        self.entries = {}      # key -> coq term
        self.may_stuck_direct = {}   # key -> bool (SBad or dangling ref lexically inside)
        self.refs_of = {}      # key -> set of keys referenced
        self.todo = []
        self.branch_checks = []  # (where, set of keys referenced in the branch, direct stuck)

    # ---- reference resolution (RefResolver.resolve + resolve_fragment)
    def resolve(self, base, ref, where):
        if not isinstance(ref, str):
            fail(where, '$ref is not a string: %r' % (ref,))
        url, frag = urldefrag(urljoin(base, ref))
        if '%' in frag or '~' in frag:
            fail(where, 'escaped JSON pointer in $ref %r' % ref)
        if frag and not frag.startswith('/'):
            fail(where, 'non-pointer fragment in $ref %r' % ref)
        if url not in self.docs:
            return url + '#' + frag, None
        short, doc, _ = self.docs[url]
        key = short + '#' + frag
        node = doc
        for part in (frag.split('/')[1:] if frag else []):
            if isinstance(node, list):
                fail(where, '$ref %r walks through an array' % ref)
            if not isinstance(node, dict) or part not in node:
                return key, None        # unresolvable JSON pointer
            node = node[part]
        return key, (url, node)

    def want(self, key, base, node, where):
        if key not in self.entries and all(t[0] != key for t in self.todo):
            self.todo.append((key, base, node, where))

    # ---- translation
    def schema(self, node, base, where, ind, acc):
        """acc = {'refs': set, 'stuck': bool} collects what this sub-schema can reach lexically."""
        if node is True:
            return '(SBool true)'
        if node is False:
            return '(SBool false)'
        if not isinstance(node, dict):
            acc['stuck'] = True
            return 'SBad'
        if '$ref' in node:
            key, target = self.resolve(base, node['$ref'], where + ['$ref'])
            if target is None:
                acc['stuck'] = True
            else:
                acc['refs'].add(key)
                self.want(key, target[0], target[1], where + ['$ref'])
            return '(SRef %s)' % coq_string(key, where)
        kws = []
        for k, v in node.items():
            w = where + [k]
            if not isinstance(k, str):
                fail(w, 'non-string keyword')
            if k in ANNOTATIONS or k in ('then', 'else'):
                continue
            if k == '$id':
                if len(where) != 1:
                    fail(w, 'nested $id (changes the resolution scope)')
                continue
            if k == 'definitions':
                if len(where) != 1:
                    fail(w, 'nested definitions')
                continue
            kws.append(self.keyword(k, v, node, base, w, ind + 2, acc))
        return '(SKws %s)' % coq_list(kws, ind)

    def sub(self, node, base, where, ind, acc):
        return self.schema(node, base, where, ind, acc)

    def branch(self, node, base, where, ind, acc):
        """a branch of anyOf / oneOf: must not be able to reach SBad / an unresolvable $ref"""
        mine = {'refs': set(), 'stuck': False}
        t = self.schema(node, base, where, ind, mine)
        self.branch_checks.append((where, set(mine['refs']), mine['stuck']))
        acc['refs'] |= mine['refs']
        acc['stuck'] = acc['stuck'] or mine['stuck']
        return t

    def keyword(self, k, v, node, base, w, ind, acc):
        def strs(x, ww):
            if not isinstance(x, list):
                fail(ww, 'list of strings expected')
            return '[' + '; '.join(coq_string(s, ww) for s in x) + ']'

        def pat(p, ww):
            if p not in PATTERNS:
                fail(ww, 'regular expression without a Gallina predicate: %r' % (p,))
            return PATTERNS[p]

        if k == 'type':
            ts = v if isinstance(v, list) else [v]
            for t in ts:
                if not isinstance(t, str) or t not in TYPES:
                    fail(w, 'unknown type %r' % (t,))
            return 'KType [' + '; '.join(TYPES[t] for t in ts) + ']'
        if k == 'enum':
            if not isinstance(v, list):
                fail(w, 'enum is not a list')
            return 'KEnum [' + '; '.join(coq_const(x, w) for x in v) + ']'
        if k == 'const':
            return 'KConst ' + coq_const(v, w)
        if k == 'properties':
            if not isinstance(v, dict):
                fail(w, 'properties is not a mapping')
            items = ['(%s, %s)' % (coq_string(p, w), self.sub(s, base, w + [p], ind + 2, acc)) for p, s in v.items()]
            return 'KProperties ' + coq_list(items, ind)
        if k == 'patternProperties':
            if not isinstance(v, dict):
                fail(w, 'patternProperties is not a mapping')
            items = ['(%s, %s)' % (pat(p, w), self.sub(s, base, w + [p], ind + 2, acc)) for p, s in v.items()]
            return 'KPatternProperties ' + coq_list(items, ind)
        if k == 'additionalProperties':
            props = node.get('properties', {})
            pats = node.get('patternProperties', {})
            if not isinstance(props, dict) or not isinstance(pats, dict):
                fail(w, 'sibling properties/patternProperties is not a mapping')
            if not isinstance(v, (bool, dict)):
                fail(w, 'additionalProperties is neither a boolean nor a schema')
            return 'KAdditionalProperties %s [%s] %s' % (
                strs(list(props), w), '; '.join(pat(p, w) for p in pats), self.branch(v, base, w, ind + 2, acc))
        if k == 'required':
            return 'KRequired ' + strs(v, w)
        if k == 'dependencies':
            if not isinstance(v, dict):
                fail(w, 'dependencies is not a mapping')
            items = []
            for p, d in v.items():
                if not isinstance(d, list):
                    fail(w + [p], 'schema dependency (only property dependencies are supported)')
                items.append('(%s, %s)' % (coq_string(p, w), strs(d, w + [p])))
            return 'KDependencies [' + '; '.join(items) + ']'
        if k in ('minProperties', 'maxProperties', 'minItems', 'maxItems'):
            return 'K%s%s %s' % (k[0].upper(), k[1:], coq_nat(v, w))
        if k in ('minimum', 'maximum'):
            if isinstance(v, bool) or not isinstance(v, int):
                fail(w, 'integer bound expected, got %r' % (v,))
            return 'K%s%s %s' % (k[0].upper(), k[1:], coq_z(v))
        if k == 'items':
            if isinstance(v, list):
                fail(w, 'positional items')
            return 'KItems ' + self.sub(v, base, w, ind + 2, acc)
        if k == 'pattern':
            return 'KPattern ' + pat(v, w)
        if k in ('allOf', 'anyOf', 'oneOf'):
            if not isinstance(v, list):
                fail(w, '%s is not a list' % k)
            f = self.sub if k == 'allOf' else self.branch
            items = [f(s, base, w + [i], ind + 2, acc) for i, s in enumerate(v)]
            return 'K%s%s %s' % (k[0].upper(), k[1:], coq_list(items, ind))
        if k == 'not':
            return 'KNot ' + self.sub(v, base, w, ind + 2, acc)
        if k == 'if':
            def opt(name):
                if name in node:
                    return '(Some %s)' % self.sub(node[name], base, w[:-1] + [name], ind + 2, acc)
                return 'None'
            c = self.sub(v, base, w, ind + 2, acc)
            pad = ' ' * (ind + 2)
            return 'KIf %s\n%s%s\n%s%s' % (c, pad, opt('then'), pad, opt('else'))
        fail(w, 'unsupported keyword %r' % k)

    def build(self):
        for url in sorted(self.docs):
            short, doc, fname = self.docs[url]
            if not isinstance(doc, dict):
                fail([fname], 'schema file root is not a mapping')
            self.want(short + '#', url, doc, [fname])
            defs = doc.get('definitions', {})
            if not isinstance(defs, dict):
                fail([fname, 'definitions'], 'not a mapping')
            for name in defs:
                if not isinstance(name, str) or '/' in name or '~' in name or '%' in name:
                    fail([fname, 'definitions', name], 'definition name needs JSON-pointer escaping')
                self.want('%s#/definitions/%s' % (short, name), url, defs[name], [fname, 'definitions', name])
        while self.todo:
            key, base, node, where = self.todo.pop(0)
            if key in self.entries:
                continue
            acc = {'refs': set(), 'stuck': False}
            self.entries[key] = self.schema(node, base, where if len(where) == 1 else where, 0, acc)
            self.refs_of[key] = acc['refs']
            self.may_stuck_direct[key] = acc['stuck']
        # which entries can reach SBad / an unresolvable reference
        stuck = {k for k, v in self.may_stuck_direct.items() if v}
        changed = True
        while changed:
            changed = False
            for k, rs in self.refs_of.items():
                if k not in stuck and rs & stuck:
                    stuck.add(k)
                    changed = True
        for where, refs, direct in self.branch_checks:
            if direct or refs & stuck:
                fail(where, 'a branch of anyOf/oneOf/additionalProperties can reach a malformed '
                            'sub-schema or an unresolvable $ref (evaluation-order model of BT.Front.JsonSchema does not cover this)')
        self.stuck = stuck


def ident(key):
    short, frag = key.split('#', 1)
    assert short.startswith('config/'), short
    parts = short[len('config/'):].split('/')
    if parts[0] == 'common':
        pre = 'common' if parts[1:] == ['common'] else 'common_' + '_'.join(parts[1:])
    else:
        pre = 'v' + '_'.join(parts)
    if frag == '':
        f = 'root'
    elif frag.startswith('/definitions/'):
        f = frag[len('/definitions/'):]
    else:
        f = 'at' + frag
    return re.sub(r'[^A-Za-z0-9]', '_', pre) + '__' + re.sub(r'[^A-Za-z0-9]', '_', f)


def load_docs(repo, subdirs):
    docs, digest = {}, hashlib.sha256()
    base = os.path.join(repo, 'barectf', 'schemas')
    for subdir in subdirs:
        d = os.path.join(base, subdir)
        for fn in sorted(os.listdir(d)):
            if not fn.endswith('.yaml'):
                continue
            path = os.path.join(d, fn)
            with open(path, 'rb') as f:
                raw = f.read()
            digest.update(subdir.encode() + b'/' + fn.encode() + b'\0' + raw + b'\0')
            with open(path) as f:
                doc = yaml.load(f, Loader=yaml.SafeLoader)
            rel = subdir + '/' + fn
            if not isinstance(doc, dict) or '$id' not in doc:
                fail([rel], 'no $id')
            url = doc['$id']
            if not isinstance(url, str) or not url.startswith(ID_PREFIX) or not url.endswith('.json') or '#' in url:
                fail([rel, '$id'], 'unexpected $id %r' % (url,))
            if url in docs:
                fail([rel, '$id'], 'duplicate $id %r' % url)
            short = url[len(ID_PREFIX):-len('.json')]
            if short != rel[:-len('.yaml')]:
                fail([rel, '$id'], '$id %r does not name the file' % url)
            docs[url] = (short, doc, rel)
    return docs, digest.hexdigest()


def emit(name, major, repo):
    docs, h = load_docs(repo, ['config/common', 'config/%d' % major])
    st = Store(docs)
    st.build()
    out = ['(* GENERATED by tools/yaml2coq.py from barectf/schemas/config/{common,%d}/*.yaml - do not edit.' % major,
           '   sha256 of the source files: %s *)' % h,
           'From Coq Require Import List String ZArith.',
           'Import ListNotations.',
           'From BT.Front Require Import Json JsonSchema.',
           'Open Scope string_scope.',
           '']
    names = {}
    for key in sorted(st.entries):
        n = ident(key)
        if n in names.values():
            fail([key], 'identifier clash for %s' % n)
        names[key] = n
        out.append('(* %s%s *)' % (key, '   [can reach a malformed sub-schema / unresolvable $ref]' if key in st.stuck else ''))
        out.append('Definition %s : schema :=\n  %s.' % (n, st.entries[key].replace('\n', '\n  ')))
        out.append('')
    out.append('Definition store : list (string * schema) :=')
    out.append('  ' + coq_list(['(%s, %s)' % (coq_string(k, [k]), names[k]) for k in sorted(st.entries)], 2) + '.')
    out.append('')
    roots = sorted(short for (short, _, _) in docs.values())
    out.append('(* the schema short ids `_SchemaValidator.validate` accepts; the store key of id is id ++ "#" *)')
    out.append('Definition schema_ids : list string :=\n  [' + '; '.join(coq_string(r, [r]) for r in roots) + '].')
    out.append('')
    return '\n'.join(out), st


def main():
    if len(sys.argv) != 3:
        print(__doc__)
        return 2
    repo, outdir = sys.argv[1], sys.argv[2]
    os.makedirs(outdir, exist_ok=True)
    try:
        texts = {'Schemas3': emit('Schemas3', 3, repo)[0], 'Schemas2': emit('Schemas2', 2, repo)[0]}
    except Unsupported as e:
        print('yaml2coq: unsupported construct: %s' % e, file=sys.stderr)
        return 2
    for name, text in texts.items():
        path = os.path.join(outdir, name + '.v')
        try:
            with open(path) as f:
                if f.read() == text:
                    continue
        except FileNotFoundError:
            pass
        with open(path, 'w') as f:
            f.write(text)
    return 0


if __name__ == '__main__':
    sys.exit(main())
