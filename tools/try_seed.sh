#!/bin/sh
# usage: tools/try_seed.sh <repo-worktree-with-the-change> <ID> [<ID> ...]
# Runs the checks against a modified copy of the repository WITHOUT touching /repo or /verif's build:
# an isolated copy of /verif is made under /tmp and removed afterwards.
WT="$1"; shift
TAG=$(basename "$WT")
COPY=/tmp/verif_try_$TAG
rm -rf "$COPY"; mkdir -p "$COPY"
rsync -a --exclude .git --exclude out --exclude seeded /verif/ "$COPY"/
cd "$COPY" || exit 2
for P in "$@"; do
  echo "=== $P against $WT"
  VERIF_REPO="$WT" timeout 1500 ./check "$P" --tier quick 2>&1 | grep -v "^WARNING" | cut -c1-400 | tail -6
done
rm -rf "$COPY"
