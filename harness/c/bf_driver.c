/* Runs the GENERATED barectf-bitfield.h macro on cases read from stdin.
 * Input line:  W sg start len vhex nb b0 b1 ... (hex bytes)
 * Output line: resulting window bytes in hex.
 * Compiled twice: -DBO_LE with the header of a little-endian configuration, -DBO_BE big-endian. */
#include <stdint.h>
#include <stdio.h>
#include <stdlib.h>
#include <string.h>
#include <sys/mman.h>
#include "barectf-bitfield.h"

#ifdef BO_LE
# define WR(p, s, l, t, v) bt_bitfield_write_le(p, s, l, t, v)
#else
# define WR(p, s, l, t, v) bt_bitfield_write_be(p, s, l, t, v)
#endif

int main(void)
{
	unsigned W, sg, start, len, nb, i;
	unsigned long long v;
	/* window end-aligned against a PROT_NONE guard page, and preceded by one */
	unsigned char *area = mmap(NULL, 3 * 4096, PROT_READ | PROT_WRITE, MAP_PRIVATE | MAP_ANONYMOUS, -1, 0);
	if (area == MAP_FAILED) return 2;
	mprotect(area, 4096, PROT_NONE);
	mprotect(area + 2 * 4096, 4096, PROT_NONE);

	while (scanf("%u %u %u %u %llx %u", &W, &sg, &start, &len, &v, &nb) == 6) {
		unsigned char *win = area + 2 * 4096 - nb;
		for (i = 0; i < nb; i++) { unsigned b; if (scanf("%x", &b) != 1) return 3; win[i] = (unsigned char) b; }
		switch (W * 2 + sg) {
		case 16: WR(win, start, len, uint8_t, (uint8_t) v); break;
		case 17: WR(win, start, len, int8_t, (int8_t) v); break;
		case 32: WR(win, start, len, uint16_t, (uint16_t) v); break;
		case 33: WR(win, start, len, int16_t, (int16_t) v); break;
		case 64: WR(win, start, len, uint32_t, (uint32_t) v); break;
		case 65: WR(win, start, len, int32_t, (int32_t) v); break;
		case 128: WR(win, start, len, uint64_t, (uint64_t) v); break;
		case 129: WR(win, start, len, int64_t, (int64_t) v); break;
		default: return 4;
		}
		for (i = 0; i < nb; i++) printf("%02x", win[i]);
		printf("\n");
	}
	return 0;
}
