"""Driving the compiled generated tracer and the Coq tracer model on the same histories.

A history is a list of calls  ('trace', ert_index, [scope values])  | ('open',) | ('close',) |
('enable', b) | ('fini',)  together with an oracle: list of answers
(full, toggle (None|bool), newbuf (None|bytes), clock increment), one consumed per callback invocation.
The C side prints, and the model computes (Tracer/Model.v enc_log), the same list of integers.
"""
import os
import re
import subprocess
from concurrent.futures import ThreadPoolExecutor

import bt
import layout_gen as lg
from common import run_cases_v, VERIF


def scopes(cfg, s, e):
    """user scopes of an event record in order: (struct) for common ctx, specific ctx, payload"""
    return [st for st in (s['cc'], e['sc'], e['p']) if st is not None]


def sorted_erts(s):
    ids = lg.ert_ids(s)
    return sorted(s['erts'], key=lambda e: ids[e['name']])


def rand_history(rng, cfg, s, n, buf_extra, p_full=0.2, p_toggle=0.0, p_swap=0.0, p_other=0.15, maxlen=4,
                 clock_inc=(0, 1, 1, 2, 5), p_same_addr=0.0, p_eager=0.0):
    erts = sorted_erts(s)
    pc_user = [m for m in s['pc_extra']]
    pcargs = lg.rand_struct_vals(rng, {'minal': 8, 'members': pc_user}, maxlen) if pc_user else []
    buf_bytes = (lg.header_bits(cfg, s, pcargs) + 7) // 8 + buf_extra
    if s.get('small_sizes'):
        # every buffer of this history (swaps go up to 2 * buf_bytes) must fit the 13-bit total / content size fields
        buf_bytes = min(buf_bytes, 500)
    calls = []
    opened = False
    for i in range(n):
        r = rng.random()
        if not opened or r < p_other / 3:
            calls.append(('open',))
            opened = True
        elif r < 2 * p_other / 3:
            calls.append(('close',))
        elif r < p_other and p_toggle > 0:
            calls.append(('enable', rng.random() < 0.6))
        elif r < p_other * 1.1:
            calls.append(('fini',))
        else:
            ei = rng.randrange(len(erts))
            vals = [lg.rand_struct_vals(rng, st, maxlen) for st in scopes(cfg, s, erts[ei])]
            calls.append(('trace', ei, vals))
    calls.append(('fini',))
    oracle = []
    for i in range(6 * n + 8):
        oracle.append((rng.random() < p_full,
                       (rng.random() < 0.5) if rng.random() < p_toggle else None,
                       rng.choice([buf_bytes, buf_bytes + 1, buf_bytes + 8, buf_bytes * 2, max(buf_bytes - 1, buf_bytes - buf_extra)]) if rng.random() < p_swap else None,
                       rng.choice(clock_inc)))
    # the platform opens the first packet right after barectf_init(), tracing still enabled
    # (documented initialisation; S10 in DESIGN.md): no toggle inside that very first callback
    for i0 in range(min(2, len(oracle))):   # the open callback itself and the clock read in the opening function
        oracle[i0] = (oracle[i0][0], None, oracle[i0][2], oracle[i0][3])
    return {'calls': calls, 'oracle': oracle, 'pcargs': pcargs, 'buf': buf_bytes,
            'same_addr': p_swap > 0 and rng.random() < p_same_addr,
            # eager (double-buffering) platform: the closing callback opens the next packet itself right after handing
            # the closed one over (a_eager in the Coq model)
            'eager': p_eager > 0 and rng.random() < p_eager}


def directed_switch_history(rng, cfg, s, tries=400, maxlen=4, hardest=False):
    """A history aimed at the size re-computation after a packet switch (S9 / 78bbf0f): a few records bring the
    position to p, then a record whose size depends on the position (alignment padding) is traced with
    size_at(p) < size_at(q), q the position right after the opening of a packet, in a buffer chosen so that the record
    does not fit the rest of the packet, its size AT P fits an empty packet, its size AT Q does not.  A tracer that
    keeps the size computed before the switch writes beyond the packet; the right outcome is one discarded record.
    hardest: among the candidates found, the one whose p - q is divisible by the largest power of two (the position
    change a short-cut comparison of the two positions is most likely to overlook).
    Returns None when the configuration has no such record (sizes independent of the position) or none was found."""
    erts = sorted_erts(s)
    pc_user = [m for m in s['pc_extra']]
    pcargs = lg.rand_struct_vals(rng, {'minal': 8, 'members': pc_user}, maxlen) if pc_user else []
    q = lg.header_bits(cfg, s, pcargs)

    def rec():
        ei = rng.randrange(len(erts))
        return ei, [lg.rand_struct_vals(rng, st, maxlen) for st in scopes(cfg, s, erts[ei])]
    best = None
    for _ in range(tries):
        p, pre = q, []
        for _k in range(rng.randint(1, 6)):
            ei, vals = rec()
            p = lg.record_end(cfg, s, erts[ei], vals, p)
            pre.append(('trace', ei, vals))
        ei, vals = rec()
        fp = lg.record_end(cfg, s, erts[ei], vals, p) - p
        fq = lg.record_end(cfg, s, erts[ei], vals, q) - q
        if fp >= fq:
            continue
        lo, hi = max(p, q + fp), min(p + fp, q + fq)      # 8 * bytes must lie in [lo, hi)
        b = (lo + 7) // 8
        if 8 * b >= hi:
            continue
        v2 = ((p - q) & -(p - q)).bit_length()
        if best is None or v2 > best[0]:
            best = (v2, p, pre, ei, vals, fp, fq, b)
        if not hardest:
            break
    if best is None:
        return None
    v2, p, pre, ei, vals, fp, fq, b = best
    calls = [('open',)] + pre + [('trace', ei, vals)]
    if rng.random() < 0.5:
        e2, v2_ = rec()
        calls.append(('trace', e2, v2_))
    calls.append(('fini',))
    oracle = [(False, None, None, 1)] * (6 * len(calls) + 8)
    return {'calls': calls, 'oracle': oracle, 'pcargs': pcargs, 'buf': b, 'same_addr': False, 'eager': False,
            'directed': 'switch-resize p=%d q=%d size_at_p=%d size_at_q=%d buffer=%d bits' % (p, q, fp, fq, 8 * b)}


# ------------------------------------------------------------------ C glue
GLUE_HEAD = r'''
#include <stdint.h>
#include <stdio.h>
#include <stdlib.h>
#include <string.h>
#include "%(fprefix)s.h"

struct ans { int full; int toggle; int newbuf; unsigned inc; };
static struct %(prefix)s%(st)s_ctx sctx;
static uint8_t *buf;
static int same_addr;      /* the platform re-installs the SAME address with another size */
static int eager;          /* the closing callback opens the next packet itself (double buffering) */
static const struct ans *oracle;
static int or_n, or_i;
static unsigned long long clk;
static const struct ans dflt = { 0, -1, -1, 1 };

#ifdef STORE_PROBE
/*
 * C16 store probe: every packet buffer lives in one arena which is kept write-protected; each store into it faults,
 * the handler samples the in-tracing-section flag as an asynchronous observer would at that very instant, lets the
 * single instruction run (trap flag) and protects the arena again.  Stores made by the platform itself are not judged.
 */
#include <signal.h>
#include <sys/mman.h>
#include <ucontext.h>
#define ARENA_LEN (1UL << 23)
static uint8_t *arena; static size_t arena_used;
static long n_stores, n_flag0, first_bad_call = -1, call_no;
static volatile int plat_store;
static void on_segv(int sig, siginfo_t *si, void *ucv)
{
	ucontext_t *uc = (ucontext_t *) ucv; uint8_t *a = (uint8_t *) si->si_addr; (void) sig;
	if (a < arena || a >= arena + ARENA_LEN) { signal(SIGSEGV, SIG_DFL); return; }
	if (!plat_store) {
		n_stores++;
		if (!sctx.parent.in_tracing_section) { n_flag0++; if (first_bad_call < 0) first_bad_call = call_no; }
	}
	mprotect(arena, ARENA_LEN, PROT_READ | PROT_WRITE);
	uc->uc_mcontext.gregs[REG_EFL] |= 0x100;
}
static void on_trap(int sig, siginfo_t *si, void *ucv)
{
	ucontext_t *uc = (ucontext_t *) ucv; (void) sig; (void) si;
	mprotect(arena, ARENA_LEN, PROT_READ);
	uc->uc_mcontext.gregs[REG_EFL] &= ~0x100L;
}
static void probe_setup(void)
{
	struct sigaction sa;
	arena = (uint8_t *) mmap(NULL, ARENA_LEN, PROT_READ, MAP_PRIVATE | MAP_ANONYMOUS, -1, 0);
	if (arena == (uint8_t *) MAP_FAILED) exit(4);
	memset(&sa, 0, sizeof(sa)); sa.sa_flags = SA_SIGINFO; sigemptyset(&sa.sa_mask);
	sa.sa_sigaction = on_segv; sigaction(SIGSEGV, &sa, NULL);
	sa.sa_sigaction = on_trap; sigaction(SIGTRAP, &sa, NULL);
}
static void probe_report(void) { fprintf(stderr, "STOREPROBE %%ld %%ld %%ld\n", n_stores, n_flag0, first_bad_call); }
static void *buf_alloc(size_t n)
{	/* fresh, zero-filled, 64-byte aligned slice of the arena (never reused) */
	uint8_t *r = arena + arena_used; arena_used += (n + 63) / 64 * 64 + 64;
	if (arena_used > ARENA_LEN) exit(5);
	return r;
}
#define PLAT_STORE_BEGIN plat_store = 1
#define PLAT_STORE_END plat_store = 0
#define NEXT_CALL call_no++
#else
#define buf_alloc(n) calloc(1, (n))
#define PLAT_STORE_BEGIN (void) 0
#define PLAT_STORE_END (void) 0
#define NEXT_CALL (void) 0
#endif

static struct ans pop(void) { if (or_i < or_n) return oracle[or_i++]; return dflt; }
static void toggle(struct ans a) { if (a.toggle >= 0) %(prefix)senable_tracing(&sctx, a.toggle); }
static void log_exit(int kind, int f0) { if (eager) { printf("5 %%d %%d %%d ", kind, f0, %(prefix)sis_in_tracing_section(&sctx)); fflush(stdout); } }
static void log_cb(int kind) { printf("1 %%d %%d %%d ", kind, %(prefix)sis_in_tracing_section(&sctx), %(prefix)spacket_is_open(&sctx)); fflush(stdout); }
static void ret(void)
{
	NEXT_CALL;
	printf("3 %%u %%u %%u %%u %%u %%u %%d %%d %%d %%d %%llu ", sctx.parent.at, sctx.parent.packet_size,
		sctx.parent.content_size, sctx.parent.off_content, sctx.parent.events_discarded,
		sctx.parent.sequence_number, sctx.parent.packet_is_open, sctx.parent.in_tracing_section,
		sctx.parent.is_tracing_enabled, sctx.parent.use_cur_last_event_ts,
		(unsigned long long) %(last_ts)s);
	fflush(stdout);
}
'''

GLUE_CBS = r'''
%(clock_cb)s
static int full_cb(void *d) { struct ans a; int f0 = %(prefix)sis_in_tracing_section(&sctx); (void) d; log_cb(0); a = pop(); toggle(a); log_exit(0, f0); return a.full; }
static void plat_open(void *d)
{
	struct ans a; int f0 = %(prefix)sis_in_tracing_section(&sctx); (void) d; log_cb(1); a = pop(); toggle(a);
	%(prefix)s%(st)s_open_packet(&sctx%(pcargs)s);
	log_exit(1, f0);
}
static void plat_close(void *d)
{
	struct ans a; uint32_t i, n; int was_open; int f0 = %(prefix)sis_in_tracing_section(&sctx); (void) d; log_cb(2); a = pop(); toggle(a);
	was_open = %(prefix)spacket_is_open(&sctx);
	%(prefix)s%(st)s_close_packet(&sctx);
	if (was_open && !%(prefix)spacket_is_open(&sctx)) {
		/* a packet was really closed: hand it over to the back end */
		n = %(prefix)spacket_buf_size(&sctx);
		printf("2 %%u %%u ", %(prefix)spacket_size(&sctx), n);
		for (i = 0; i < n; i++) printf("%%u ", %(prefix)spacket_buf(&sctx)[i]);
		fflush(stdout);
		if (a.newbuf >= 0) {
			if (same_addr) {
				PLAT_STORE_BEGIN; memset(buf, 0, a.newbuf); PLAT_STORE_END;
			} else {
				/* the old buffer is deliberately leaked: exact-size heap blocks keep ASan precise */
				buf = (uint8_t *) buf_alloc(a.newbuf);
			}
			%(prefix)spacket_set_buf(&sctx, buf, a.newbuf);
		}
		if (eager) {
			/* double buffering: the next packet is opened at once */
			%(prefix)s%(st)s_open_packet(&sctx%(pcargs)s);
		}
	}
	log_exit(2, f0);
}
'''

GLUE_MAIN = r'''
int main(int argc, char **argv)
{
	struct %(prefix)splatform_callbacks cbs;
	int h = argc > 1 ? atoi(argv[1]) : 0;
	memset(&cbs, 0, sizeof(cbs));
	/* the context memory is NOT zero-filled: whatever barectf_init() must establish, it has to establish itself */
	memset(&sctx, 0xA5, sizeof(sctx));
#ifdef STORE_PROBE
	probe_setup();
#endif
	%(set_clock)s
	cbs.is_backend_full = full_cb;
	cbs.open_packet = plat_open;
	cbs.close_packet = plat_close;
	switch (h) {
%(cases)s
	default: return 3;
	}
	printf("\n");
#ifdef STORE_PROBE
	probe_report();
#endif
	return 0;
}
'''


def c_ans(o):
    full, tog, newbuf, inc = o
    return '{ %d, %d, %d, %du }' % (1 if full else 0, -1 if tog is None else (1 if tog else 0),
                                    -1 if newbuf is None else newbuf, inc)


def make_glue(cfg, s, hists, prefix='barectf_', fprefix='barectf'):
    erts = sorted_erts(s)
    ca = lg.CArgs()
    pc_user = {'minal': 8, 'members': list(s['pc_extra'])}
    d = {'prefix': prefix, 'fprefix': fprefix, 'st': s['name'],
         'last_ts': 'sctx.cur_last_event_ts' if s['clock'] else '0'}
    parts = [GLUE_HEAD % d]
    funcs, cases = [], []
    # the platform passes the same user packet context arguments at every opening of a history;
    # they are file-scope variables set per history
    pc_decl, pc_use = [], ''
    for (n, f) in pc_user['members']:
        t = ca.c_elem_type(f)
        pc_decl.append('static %s%sg_pc_%s;' % (t, '' if t.endswith('*') else ' ', n))
        pc_use += ', g_pc_%s' % n
    if s['clock']:
        ct = s['clock']['ctype']
        d['clock_cb'] = ('static %s clock_cb(void *d) { struct ans a; (void) d; log_cb(3); a = pop(); clk += a.inc; '
                         'toggle(a); return (%s) clk; }' % (ct, ct))   # (no exit event: the entry sample precedes the section)
        d['set_clock'] = 'cbs.%s_clock_get_value = clock_cb;' % s['clock']['name']
    else:
        d['clock_cb'] = ''
        d['set_clock'] = ''
    d['pcargs'] = pc_use
    for hi, h in enumerate(hists):
        body = []
        for (n, f), v in zip(pc_user['members'], h['pcargs']):
            body.append('\tg_pc_%s = %s;' % (n, ca.lit(f, v)))
        if h.get('same_addr'):
            mx = max([h['buf']] + [o[2] for o in h['oracle'] if o[2] is not None])
            body.append('\tsame_addr = 1; buf = (uint8_t *) buf_alloc(%d);' % mx)
        else:
            body.append('\tsame_addr = 0; buf = (uint8_t *) buf_alloc(%d);' % h['buf'])
        body.append('\teager = %d;' % (1 if h.get('eager') else 0))
        body.append('\t%sinit(&sctx, buf, %d, cbs, NULL);' % (prefix, h['buf']))
        # fields barectf_init() documents nothing about and which the tracer writes before reading them once the
        # first packet is open (S10): the model starts them at 0, so does the platform
        body.append('\tsctx.parent.content_size = 0; sctx.parent.off_content = 0;' +
                    (' sctx.cur_last_event_ts = 0;' if s['clock'] else ''))
        for c in h['calls']:
            if c[0] == 'trace':
                e = erts[c[1]]
                args = []
                for st, vals in zip(scopes(cfg, s, e), c[2]):
                    args += lg.c_call_args(ca, st, vals)
                body.append('\t%s%s_trace_%s(&sctx%s); ret();' % (prefix, s['name'], e['name'], ''.join(', ' + a for a in args)))
            elif c[0] == 'open':
                body.append('\tplat_open(NULL); ret();')
            elif c[0] == 'close':
                body.append('\tplat_close(NULL); ret();')
            elif c[0] == 'enable':
                body.append('\t%senable_tracing(&sctx, %d); ret();' % (prefix, 1 if c[1] else 0))
            elif c[0] == 'fini':
                body.append('\tif (%spacket_is_open(&sctx) && !%spacket_is_empty(&sctx)) plat_close(NULL); ret();' % (prefix, prefix))
        funcs.append('static const struct ans or_%d[] = { %s };' % (hi, ', '.join(c_ans(o) for o in h['oracle']) or '{0,-1,-1,1}'))
        funcs.append('static void hist_%d(struct %splatform_callbacks cbs)\n{\n\toracle = or_%d; or_n = %d; or_i = 0; clk = 0;\n%s\n}' %
                     (hi, prefix, hi, len(h['oracle']), '\n'.join(body)))
        cases.append('\tcase %d: hist_%d(cbs); break;' % (hi, hi))
    d['cases'] = '\n'.join(cases)
    parts.append('\n'.join(pc_decl))
    parts.append(GLUE_CBS % d)
    parts.append('\n'.join(ca.decls))
    parts.append('\n'.join(funcs))
    parts.append(GLUE_MAIN % d)
    return '\n'.join(parts)


SAN = ['-fsanitize=address,undefined', '-fno-sanitize-recover=all', '-fno-omit-frame-pointer']


def build_impl(cfg, s, hists, workdir, sanitize=True, prefix='barectf_', fprefix='barectf', extra_cflags=()):
    """Generate with the REAL barectf, compile (generated source as strict C90), link with the glue."""
    bcfg = lg.to_barectf(cfg, prefix, fprefix)
    files = bt.generate(bcfg, workdir)
    with open(os.path.join(workdir, 'glue.c'), 'w') as f:
        f.write(make_glue(cfg, s, hists, prefix, fprefix))
    san = SAN if sanitize else []
    rc, out = bt.cc(['-ansi', '-pedantic', '-O1', '-g', '-c', fprefix + '.c', '-o', 'tracer.o'] + san + list(extra_cflags), cwd=workdir)
    if rc != 0:
        return None, 'generated source does not compile: ' + out[-1500:], files
    rc, out = bt.cc(['-O0', '-g', '-w', '-c', 'glue.c', '-o', 'glue.o'] + san, cwd=workdir)
    if rc != 0:
        return None, 'glue does not compile (harness or prototype mismatch): ' + out[-1500:], files
    rc, out = bt.cc(['tracer.o', 'glue.o', '-o', 'run'] + san, cwd=workdir)
    if rc != 0:
        return None, 'link failed: ' + out[-1500:], files
    return os.path.join(workdir, 'run'), None, files


def build_store_probe(workdir, fprefix='barectf'):
    """Second executable from the same generated source and glue (after build_impl): no sanitizer, glue compiled with
    STORE_PROBE (write-protected buffer arena, fault handler sampling the in-tracing-section flag at every store)."""
    rc, out = bt.cc(['-ansi', '-pedantic', '-O1', '-g', '-c', fprefix + '.c', '-o', 'tracer_np.o'], cwd=workdir)
    if rc != 0:
        return None, 'generated source does not compile: ' + out[-800:]
    rc, out = bt.cc(['-O0', '-g', '-w', '-D_GNU_SOURCE', '-DSTORE_PROBE', '-c', 'glue.c', '-o', 'glue_sp.o'], cwd=workdir)
    if rc != 0:
        return None, 'store probe glue does not compile: ' + out[-800:]
    rc, out = bt.cc(['tracer_np.o', 'glue_sp.o', '-o', 'run_sp'], cwd=workdir)
    if rc != 0:
        return None, 'store probe link failed: ' + out[-800:]
    return os.path.join(workdir, 'run_sp'), None


def run_store_probe(exe, nh):
    """Per history: (stores observed, stores with the flag reading 0, index of the first offending call, stdout tokens) or an error string."""
    def one(i):
        try:
            p = subprocess.run([exe, str(i)], capture_output=True, text=True, timeout=120)
        except subprocess.TimeoutExpired:
            return 'timeout'
        m = re.search(r'STOREPROBE (-?\d+) (-?\d+) (-?\d+)', p.stderr)
        if p.returncode != 0 or not m:
            return 'rc %s: %s' % (p.returncode, p.stderr[-200:])
        toks = [int(t) for t in p.stdout.split()] if p.stdout.strip() else []
        return (int(m.group(1)), int(m.group(2)), int(m.group(3)), toks)
    with ThreadPoolExecutor(max_workers=16) as ex:
        return list(ex.map(one, range(nh)))


def run_impl(exe, nh):
    """Returns list of (tokens, error) per history."""
    res = []
    env = dict(os.environ, ASAN_OPTIONS='detect_leaks=0:abort_on_error=0:exitcode=77', UBSAN_OPTIONS='print_stacktrace=1')

    def one(i):
        try:
            p = subprocess.run([exe, str(i)], capture_output=True, text=True, timeout=60, env=env)
        except subprocess.TimeoutExpired:
            return ([], 'timeout')
        toks = [int(t) for t in p.stdout.split()] if p.stdout.strip() else []
        err = None
        if p.returncode != 0:
            kind = 'asan' if 'AddressSanitizer' in p.stderr else 'ubsan' if 'runtime error' in p.stderr else \
                   'assert' if 'Assertion' in p.stderr else 'rc%d' % p.returncode
            m = re.search(r'(ERROR: AddressSanitizer: [^\n]*|runtime error: [^\n]*|Assertion[^\n]*)', p.stderr)
            err = (kind, m.group(1) if m else p.stderr[-300:])
        return (toks, err)
    with ThreadPoolExecutor(max_workers=16) as ex:
        res = list(ex.map(one, range(nh)))
    return res


# ------------------------------------------------------------------ model side
def coq_call(c):
    if c[0] == 'trace':
        return '(CTrace %d [%s])' % (c[1], '; '.join(lg.coq_val(lg.model_val(v)) for v in c[2]))
    if c[0] == 'open':
        return 'COpen'
    if c[0] == 'close':
        return 'CClose'
    if c[0] == 'enable':
        return '(CEnable %s)' % ('true' if c[1] else 'false')
    return 'CFini'


def coq_ans(o, eager=False):
    full, tog, newbuf, inc = o
    return '(mk_ans %s %s %s %d %s)' % ('true' if full else 'false',
                                        'None' if tog is None else '(Some %s)' % ('true' if tog else 'false'),
                                        'None' if newbuf is None else '(Some %d)' % newbuf, inc,
                                        'true' if eager else 'false')


def model_logs(cfg, s, hists, scratch, name, timeout=900):
    """Evaluate the Coq model on the histories; returns list of token lists (or None on failure), raw output."""
    dterm = lg.coq_dst(cfg, s)
    body = ['From Coq Require Import List ZArith String Bool.', 'Import ListNotations.',
            'From BT.Base Require Import Bits.', 'From BT.Layout Require Import Model.',
            'From BT.Tracer Require Import Model.',
            'Local Open Scope nat_scope.',
            'Definition d : dstm := %s.' % dterm,
            'Definition hists : list (nat * list val * list ans * list call) := [']
    rows = []
    for h in hists:
        rows.append('(%d, [%s], [%s], [%s])' % (
            h['buf'], '; '.join(lg.coq_val(lg.model_val(v)) for v in h['pcargs']),
            '; '.join(coq_ans(o, h.get('eager')) for o in h['oracle']),
            '; '.join(coq_call(c) for c in h['calls'])))
    body.append(';\n'.join(rows))
    body.append('].')
    body.append('Eval vm_compute in (map (fun h => match h with (b, pa, o, cs) => enc_log (run d b pa o cs) end) hists).')
    rc, out = run_cases_v(name, '\n'.join(body) + '\n', scratch, timeout=timeout)
    if rc != 0:
        return None, out
    m = re.search(r'=\s*(\[.*\])\s*:\s*list \(list Z\)', out, re.S)
    if not m:
        return None, out
    txt = m.group(1).replace('%Z', '').replace('\n', ' ')
    logs = []
    for inner in re.findall(r'\[([^\[\]]*)\]', txt):
        logs.append([int(t) for t in inner.split(';') if t.strip()])
    return logs, out


def split_events(toks):
    """token list -> list of events (tuples)"""
    evs, i = [], 0
    while i < len(toks):
        t = toks[i]
        if t == 1:
            evs.append(tuple(toks[i:i + 4])); i += 4
        elif t == 2:
            n = toks[i + 2]
            evs.append(tuple(toks[i:i + 3 + n])); i += 3 + n
        elif t == 3:
            evs.append(tuple(toks[i:i + 12])); i += 12
        elif t == 4:
            evs.append(tuple(toks[i:i + 2])); i += 2
        elif t == 5:      # eager platform only: callback exit (kind, flag at entry, flag at exit)
            evs.append(tuple(toks[i:i + 4])); i += 4
        else:
            evs.append(('?',) + tuple(toks[i:])); break
    return evs


# ------------------------------------------------------------------ decode oracle (Coq reader on REAL packets)
def canon_int(sg, size, v):
    v &= (1 << size) - 1
    if sg and v >> (size - 1):
        v -= 1 << size
    return v


def canon_val(ft, v):
    """expected decoded value (nested python lists / ints) of a traced argument"""
    k = ft[0]
    if k == 'int':
        return canon_int(ft[1], ft[2], v)
    if k == 'real':
        return (v[2] if isinstance(v, tuple) else v) & ((1 << ft[1]) - 1)
    if k == 'str':
        return ('str', list(v[1]))
    e = ft[2] if k == 'sarr' else ft[1]
    return [canon_val(e, x) for x in v]


class Unflat:
    def __init__(self, toks):
        self.t, self.i = toks, 0

    def take(self):
        v = self.t[self.i]
        self.i += 1
        return v

    def val(self, ft):
        k = ft[0]
        if k in ('int', 'real'):
            return self.take()
        if k == 'str':
            n = self.take()
            return ('str', [self.take() for _ in range(n)])
        if k == 'uuid':
            n = self.take()
            return [self.take() for _ in range(n)]
        e = ft[2] if k == 'sarr' else ft[1]
        n = self.take()
        return [self.val(e) for _ in range(n)]

    def struct(self, st):
        return [self.val(f) for _, f in st['members']] if st is not None else []


def unflatten_packet(toks, cfg, s):
    """tokens of Decode.dec_packet_bytes -> dict, or None if the reader rejected the packet"""
    if not toks or toks[0] != 1:
        return None
    u = Unflat(toks[1:])
    ph, pc, eh = lg.ph_struct(cfg), lg.pc_struct(s), lg.eh_struct(s)
    erts = sorted_erts(s)
    res = {'ph': dict(zip([n for n, _ in ph['members']], u.struct(ph))),
           'pc': dict(zip([n for n, _ in pc['members']], u.struct(pc))), 'recs': []}
    n = u.take()
    for _ in range(n):
        rid = u.take()
        hv = dict(zip([n for n, _ in eh['members']], u.struct(eh)))
        e = erts[rid] if 0 <= rid < len(erts) else None
        if e is None:
            return None
        res['recs'].append({'id': rid, 'h': hv, 'cc': u.struct(s['cc']), 'sc': u.struct(e['sc']), 'p': u.struct(e['p'])})
    if u.i != len(u.t):
        return None
    return res


def coq_tstream_from_cfg():
    return '(tstream_of_dst d)'


def model_and_decode(cfg, s, hists, impl_packets, scratch, name, tstream_term=None, ops_term=None, timeout=900):
    """One coqc run: model logs for all histories + Coq reader applied to the real packets.
    impl_packets: list (per history) of list of byte lists.  Returns (model_logs, decoded, raw)."""
    dterm = lg.coq_dst(cfg, s)
    body = ['From Coq Require Import List ZArith String Bool.', 'Import ListNotations.',
            'From BT.Base Require Import Bits.', 'From BT.Layout Require Import Model.',
            'From BT.Tracer Require Import Model Decode Encode.',
            'Local Open Scope nat_scope.',
            'Definition d : dstm := %s.' % dterm,
            'Definition ts : tstream := %s.' % (tstream_term or coq_tstream_from_cfg()),
            'Definition rops : list (option op) := %s.' % (ops_term or '(stream_ops d)'),
            'Eval vm_compute in (ops_agree d rops, tsdl_agree d ts).',
            'Definition hists : list (nat * list val * list ans * list call) := [']
    rows = []
    for h in hists:
        rows.append('(%d, [%s], [%s], [%s])' % (
            h['buf'], '; '.join(lg.coq_val(lg.model_val(v)) for v in h['pcargs']),
            '; '.join(coq_ans(o, h.get('eager')) for o in h['oracle']),
            '; '.join(coq_call(c) for c in h['calls'])))
    body.append(';\n'.join(rows))
    body.append('].')
    body.append('Eval vm_compute in (map (fun h => match h with (b, pa, o, cs) => enc_log (run d b pa o cs) end) hists).')
    flatp = [p for ps in impl_packets for p in ps]
    body.append('Definition packets : list (list Z) := [%s].' % ';\n'.join(
        '[%s]' % '; '.join('%d%%Z' % b for b in p) for p in flatp))
    body.append('Eval vm_compute in (map (dec_packet_bytes ts) packets).')
    rc, out = run_cases_v(name, '\n'.join(body) + '\n', scratch, timeout=timeout)
    if rc != 0:
        return None, None, out
    ms = re.findall(r'=\s*(\[.*?\])\s*:\s*list \(list Z\)', out, re.S)
    if len(ms) != 2:
        return None, None, out
    mb = re.search(r'=\s*\((true|false),\s*(true|false)\)', out)
    model_and_decode.last_agree = (mb.group(1) == 'true', mb.group(2) == 'true') if mb else (None, None)

    def parse(txt):
        txt = txt.replace('%Z', '').replace('\n', ' ').replace('(', '').replace(')', '')
        if re.fullmatch(r'\[\s*\]', txt):
            return []
        return [[int(t) for t in inner.split(';') if t.strip()] for inner in re.findall(r'\[([^\[\]]*)\]', txt)]
    logs, dec = parse(ms[0]), parse(ms[1])
    # regroup decoded packets per history
    grouped, i = [], 0
    for ps in impl_packets:
        grouped.append(dec[i:i + len(ps)])
        i += len(ps)
    return logs, grouped, out


def packets_of(events):
    return [list(e[3:]) for e in events if e[0] == 2]


def replay_clock(events, oracle, clock_bits):
    """Reconstruct, from the callback log and the oracle alone, the value returned by every clock
    callback (in order) — independent of the tracer."""
    clk, vals, oi = 0, [], 0
    for e in events:
        if e[0] == 1:
            a = oracle[oi] if oi < len(oracle) else (False, None, None, 1)
            oi += 1
            if e[1] == 3:
                clk += a[3]
                vals.append(clk & ((1 << clock_bits) - 1))
    return vals


# ------------------------------------------------------------------ real op trees (cgen) -> Coq terms
class OpShapeError(Exception):
    pass


import threading
_CAPTURE_LOCK = threading.Lock()


def capture_ds_ops(bcfg):
    """Run the REAL cgen.gen_src and capture the _DsOps mapping it hands to barectf.c.j2."""
    import barectf.template as btt
    from bt import bcgen
    captured = {}
    orig = btt._Template.render

    def wrapped(self, **kw):
        if 'ds_ops' in kw:
            captured['ds_ops'] = kw['ds_ops']
        return orig(self, **kw)
    with bt.GEN_LOCK:
        orig = btt._Template.render
        cg = bcgen._CodeGen(bcfg)
        btt._Template.render = wrapped
        try:
            cg.gen_src('barectf.h', 'barectf-bitfield.h')
        finally:
            btt._Template.render = orig
    return cg, captured['ds_ops']


def coq_on(x):
    return 'None' if x is None else '(Some %d)' % x


def norm_seq(cg, ops):
    """[_AlignOp?, op]* -> list of Coq op terms; fail closed on any other shape."""
    from bt import bc
    out, i = [], 0
    while i < len(ops):
        al = 1
        op = ops[i]
        if type(op).__name__ == '_AlignOp':
            al = op.value
            if i + 1 >= len(ops) or ops[i + 1].ft is not op.ft:
                raise OpShapeError('align operation not followed by the operation it aligns')
            i += 1
            op = ops[i]
        out.append(norm_op(cg, op, al))
        i += 1
    return out


def norm_op(cg, op, al):
    from bt import bc
    tn = type(op).__name__
    ft = op.ft
    if tn == '_WriteOp':
        if isinstance(ft, bc._BitArrayFieldType):
            if al != (ft.alignment if ft.alignment > 1 else 1):
                raise OpShapeError('align value %d differs from field type alignment %d' % (al, ft.alignment))
            skip = op._templates.serialize is cg._serialize_write_skip_save_statements_templ
            return '(OBits %d %s %d %s)' % (al, 'KSkip' if skip else 'KWrite', ft.size, coq_on(op.offset_in_byte))
        if type(ft) is bc.StringFieldType:
            return '(OStr %d)' % al
        if type(ft) is bc.StaticArrayFieldType and op._templates.serialize is cg._serialize_write_uuid_statements_templ:
            return '(OUuid %d)' % al
        raise OpShapeError('unexpected write operation for %r' % type(ft).__name__)
    if tn == '_CompoundOp':
        if type(ft) is bc.StructureFieldType:
            sub = list(op.subops)
            sal = 1
            if sub and type(sub[0]).__name__ == '_AlignOp' and sub[0].ft is ft:
                sal = sub[0].value
                sub = sub[1:]
            if al != 1:
                raise OpShapeError('structure preceded by an external align operation')
            return '(OBlock %d [%s])' % (sal, '; '.join(norm_seq(cg, sub)))
        if isinstance(ft, bc._ArrayFieldType):
            body = norm_seq(cg, list(op.subops))
            if len(body) != 1:
                raise OpShapeError('array body is not a single (aligned) operation')
            ln = ft.length if type(ft) is bc.StaticArrayFieldType else None
            return '(OArr %d %s %s)' % (al, coq_on(ln), body[0])
    raise OpShapeError('unknown operation class %s' % tn)


def real_ops_term(bcfg, stream_name):
    """Coq term: list (option op) in the order of Encode.stream_ops."""
    cg, ds_ops = capture_ds_ops(bcfg)
    dst = [d for d in ds_ops if d.name == stream_name][0]
    o = ds_ops[dst]

    def opt(x):
        return 'None' if x is None else '(Some %s)' % norm_op(cg, x, 1)
    items = [opt(o.pkt_header_op), opt(o.pkt_ctx_op), opt(o.er_header_op), opt(o.er_common_ctx_op)]
    for ert in sorted(dst.event_record_types, key=lambda e: e.id):
        eo = o.er_ops[ert]
        items += [opt(eo.spec_ctx_op), opt(eo.payload_op)]
    return '[%s]' % '; '.join(items)


# ------------------------------------------------------------------ real metadata (TSDL) -> Coq terms
def tsdl_type_term(t, tsdl):
    if isinstance(t, tsdl.Enum):
        t = t.container
    if isinstance(t, tsdl.Integer):
        a = t.attrs
        return '(TInt %s %d %d)' % ('true' if str(a.get('signed', 'false')) in ('true', '1') else 'false', int(a['size']), int(a.get('align', 1)))
    if isinstance(t, tsdl.FloatingPoint):
        a = t.attrs
        return '(TFloat %d %d)' % (int(a['exp_dig']) + int(a['mant_dig']), int(a.get('align', 1)))
    if isinstance(t, tsdl.String):
        return 'TStr'
    if isinstance(t, tsdl.Array):
        return '(TArr %d %s)' % (t.length, tsdl_type_term(t.elem, tsdl))
    if isinstance(t, tsdl.Sequence):
        return '(TSeq %s %s)' % (lg.coq_str(t.length), tsdl_type_term(t.elem, tsdl))
    raise ValueError('unsupported TSDL type %r' % (t,))


def tsdl_struct_term(t, tsdl):
    if t is None:
        return 'None'
    if not isinstance(t, tsdl.Struct):
        raise ValueError('root type is not a struct')
    return '(mk_ts %d [%s])' % (int(t.align or 1), '; '.join('(%s, %s)' % (lg.coq_str(f.name), tsdl_type_term(f.type, tsdl)) for f in t.fields))


def real_tstream_term(metadata_text, sid, has_stream_id):
    """Coq tstream term built ONLY from the real metadata text (CTF reader's view)."""
    import tsdl
    doc = tsdl.parse(metadata_text)
    tr = doc.block('trace')
    bo = str(tr.attrs['byte_order']).upper()
    ph = tr.types.get('packet.header')
    streams = doc.all('stream')
    st = [b for b in streams if int(b.attrs.get('id', 0)) == sid] if has_stream_id else streams
    st = st[0]
    evs = [b for b in doc.all('event') if (int(b.attrs.get('stream_id', 0)) == sid if has_stream_id else True)]

    def o(t):
        return 'None' if t is None else '(Some %s)' % tsdl_struct_term(t, tsdl)
    ev_terms = ['(mk_tev %d %s %s)' % (int(e.attrs['id']), o(e.types.get('context')), o(e.types.get('fields'))) for e in evs]
    return '(mk_tst %s %s %s %s %s [%s])' % (bo, o(ph), tsdl_struct_term(st.types['packet.context'], tsdl),
                                            o(st.types.get('event.header')), o(st.types.get('event.context')),
                                            '; '.join(ev_terms))


# ------------------------------------------------------------------ direct probe of the generated size functions
def is_dyn_ft(ft):
    k = ft[0]
    if k in ('str', 'darr'):
        return True
    if k == 'sarr':
        return is_dyn_ft(ft[2])
    return False


def dyn_args(ca, st, vals):
    """arguments of the members the generated _er_size_* function takes (only_dyn=True)"""
    out = []
    names = [n for n, _ in st['members']]
    for (n, f), v in zip(st['members'], vals):
        is_len = n.startswith('__') and n.endswith('_len') and n[2:-4] in names
        if is_dyn_ft(f) or is_len:
            out.append(ca.lit(f, v))
    return out


def probe_sizes(cfg, s, workdir, rng, nprobe=24, prefix='barectf_'):
    """Calls the REAL static _er_size_<dst>_<ert>() functions (by including barectf.c) with ctx->at set
    to chosen positions; returns list of dicts (ert index, at, vals, impl size, layout-arithmetic size)."""
    erts = sorted_erts(s)
    ca = lg.CArgs()
    lines, probes = [], []
    hb = lg.header_bits(cfg, s, [])
    for ei, e in enumerate(erts):
        for k in range(nprobe):
            at = rng.choice([hb, hb, rng.randrange(0, 64), rng.randrange(0, 4096), 8 * rng.randrange(0, 64)])
            vals = [lg.rand_struct_vals(rng, st, 5) for st in scopes(cfg, s, e)]
            args = []
            for st, v in zip(scopes(cfg, s, e), vals):
                args += dyn_args(ca, st, v)
            lines.append('\tsctx.parent.at = %dU; printf("%%u\\n", (unsigned) _er_size_%s_%s(&sctx%s));' % (
                at, s['name'], e['name'], ''.join(', ' + a for a in args)))
            probes.append({'ert': ei, 'at': at, 'vals': vals,
                           'expected': lg.record_end(cfg, s, e, vals, at) - at})
    src = ['#include "barectf.c"', '#include <stdio.h>', '\n'.join(ca.decls),
           'int main(void)\n{\n\tstatic struct %s%s_ctx sctx;' % (prefix, s['name']), '\n'.join(lines), '\treturn 0;\n}']
    with open(os.path.join(workdir, 'probe.c'), 'w') as f:
        f.write('\n'.join(src) + '\n')
    rc, out = bt.cc(['-w', '-O0', 'probe.c', '-o', 'probe'], cwd=workdir)
    if rc != 0:
        return None, 'size probe does not compile: ' + out[-600:]
    p = subprocess.run([os.path.join(workdir, 'probe')], capture_output=True, text=True, timeout=60)
    vals = p.stdout.split()
    if p.returncode != 0 or len(vals) != len(probes):
        return None, 'size probe failed: rc %s, %d/%d lines' % (p.returncode, len(vals), len(probes))
    for pr, v in zip(probes, vals):
        pr['impl'] = int(v)
    return probes, None


def probe_sizes32(cfg, s, workdir, rng, nprobe=10, prefix='barectf_', name='wrap32'):
    """uint32_t wrap-around of the size pass (S12): the REAL static _er_size_<dst>_<ert>() functions are called with
    ctx->at within a few thousand bits of 2^32, so that the additions and the _ALIGN macro wrap; the value returned is
    compared with Layout/Wrap32.v er_size32 (the 32-bit size pass of the model, tied by Wrap32Proofs.v to the unbounded
    one: equal below 2^32, equal modulo 2^32 beyond) evaluated by vm_compute on the model's own parts of the record.
    Returns (list of dicts, error)."""
    erts = sorted_erts(s)
    ca = lg.CArgs()
    lines, probes = [], []
    W = 2 ** 32
    for ei, e in enumerate(erts):
        for k in range(nprobe):
            at = W - rng.choice([1, 7, 8, 9, 63, 64, 65, rng.randrange(1, 64), 8 * rng.randrange(1, 64), rng.randrange(1, 6000)])
            vals = [lg.rand_struct_vals(rng, st, 5) for st in scopes(cfg, s, e)]
            args = []
            for st, v in zip(scopes(cfg, s, e), vals):
                args += dyn_args(ca, st, v)
            lines.append('\tsctx.parent.at = %uU; printf("%%u\\n", (unsigned) _er_size_%s_%s(&sctx%s));' % (
                at, s['name'], e['name'], ''.join(', ' + a for a in args)))
            probes.append({'ert': ei, 'at': at, 'vals': vals,
                           'true_size_bits': lg.record_end(cfg, s, e, vals, at) - at})
    src = ['#include "barectf.c"', '#include <stdio.h>', '\n'.join(ca.decls),
           'int main(void)\n{\n\tstatic struct %s%s_ctx sctx;' % (prefix, s['name']), '\n'.join(lines), '\treturn 0;\n}']
    with open(os.path.join(workdir, 'probe32.c'), 'w') as f:
        f.write('\n'.join(src) + '\n')
    rc, out = bt.cc(['-w', '-O0', 'probe32.c', '-o', 'probe32'], cwd=workdir)
    if rc != 0:
        return None, 'wrap-around size probe does not compile: ' + out[-600:]
    p = subprocess.run([os.path.join(workdir, 'probe32')], capture_output=True, text=True, timeout=60)
    outv = p.stdout.split()
    if p.returncode != 0 or len(outv) != len(probes):
        return None, 'wrap-around size probe failed: rc %s, %d/%d lines' % (p.returncode, len(outv), len(probes))
    for pr, v in zip(probes, outv):
        pr['impl'] = int(v)
    # model side
    body = ['From Coq Require Import List ZArith NArith String Bool.', 'Import ListNotations.',
            'From BT.Base Require Import Bits.', 'From BT.Layout Require Import Model Wrap32.',
            'From BT.Tracer Require Import Model.',
            'Local Open Scope nat_scope.',
            'Definition d : dstm := %s.' % lg.coq_dst(cfg, s),
            'Definition probes : list (nat * N * list val) := [']
    body.append(';\n'.join('(%d, %d%%N, [%s])' % (pr['ert'], pr['at'], '; '.join(lg.coq_val(lg.model_val(v)) for v in pr['vals']))
                           for pr in probes))
    body.append('].')
    body.append('Definition one (p : nat * N * list val) : Z := match p with (i, a, args) => '
                'match nth_error (d_erts d) i with Some e => match er_size32 (rec_parts d e 0%Z args) a with '
                'Some n => Z.of_N n | None => (-1)%Z end | None => (-2)%Z end end.')
    body.append('Eval vm_compute in (map one probes).')
    rc, out = run_cases_v(name, '\n'.join(body) + '\n', workdir, timeout=300)
    m = re.search(r'=\s*\[(.*)\]\s*:\s*list Z', out, re.S)
    if rc != 0 or not m:
        return None, 'wrap-around size probe: the model side did not evaluate: ' + out[-600:]
    mv = [int(x.replace('%Z', '').replace('(', '').replace(')', '').strip()) for x in m.group(1).split(';') if x.strip()]
    if len(mv) != len(probes):
        return None, 'wrap-around size probe: %d model values for %d probes' % (len(mv), len(probes))
    for pr, v in zip(probes, mv):
        pr['model32'] = v
    return probes, None


S12_CONFIG = """--- !<tag:barectf.org,2020/3/config>
trace:
  type:
    $include: [stdint.yaml]
    native-byte-order: le
    data-stream-types:
      ds:
        $is-default: true
        event-record-types:
          ev:
            payload-field-type:
              class: struct
              members:
                - arr:
                    field-type:
                      class: dynamic-array
                      element-field-type: uint8
"""

S12_MAIN = r"""
#include <stdio.h>
#include <stdlib.h>
#include <string.h>
#include "barectf.h"
#define CANARY 4096
static int closed;
static int full(void *d) { (void) d; return 0; }
static void op(void *d) { barectf_ds_open_packet((struct barectf_ds_ctx *) d); }
static void cl(void *d) { barectf_ds_close_packet((struct barectf_ds_ctx *) d); closed++; }
int main(int argc, char **argv)
{
	struct barectf_platform_callbacks cbs;
	struct barectf_ds_ctx ctx;
	size_t n = (size_t) strtoul(argv[1], NULL, 0), j;
	uint8_t *arr = (uint8_t *) calloc(n, 1), *buf = (uint8_t *) malloc(256 + CANARY);
	int ok = 1;
	(void) argc;
	if (!arr || !buf) { printf("nomem\n"); return 3; }
	memset(&cbs, 0, sizeof cbs);
	cbs.is_backend_full = full; cbs.open_packet = op; cbs.close_packet = cl;
	memset(buf, 0, 256); memset(buf + 256, 0xCC, CANARY);
	barectf_init(&ctx, buf, 256, cbs, &ctx);
	barectf_ds_open_packet(&ctx);
	barectf_ds_trace_ev(&ctx, (uint32_t) n, arr);
	for (j = 0; j < CANARY; j++) if (buf[256 + j] != 0xCC) ok = 0;
	printf("%u %d %d\n", (unsigned) barectf_discarded_event_records_count(&ctx), closed, ok);
	return 0;
}
"""


def demo_s12(workdir, nelem=2 ** 29):
    """The uint32 wrap of the record size on the REAL generated tracer: a dynamic array of `nelem` uint8 elements
    (8 * nelem bits) traced into a 256-byte packet.  Returns dict(discarded, closed, untouched) or dict(error)."""
    d = os.path.join(workdir, 's12')
    os.makedirs(d, exist_ok=True)
    with open(os.path.join(d, 'config.yaml'), 'w') as f:
        f.write(S12_CONFIG)
    try:
        with open(os.path.join(d, 'config.yaml')) as f:
            bcfg = bt.barectf.configuration_from_file(f)
        bt.generate(bcfg, d)
    except Exception as exc:
        return {'error': 'generation failed: %r' % (exc,)}
    with open(os.path.join(d, 'main.c'), 'w') as f:
        f.write(S12_MAIN)
    rc, out = bt.cc(['-w', '-O1', '-g', '-fsanitize=address', '-I.', 'main.c', 'barectf.c', '-o', 'demo'], cwd=d)
    if rc != 0:
        return {'error': 'does not compile: ' + out[-400:]}
    try:
        p = subprocess.run([os.path.join(d, 'demo'), str(nelem)], capture_output=True, text=True, timeout=180)
    except subprocess.TimeoutExpired:
        return {'error': 'timeout'}
    res = {'elements': nelem, 'packet_bytes': 256}
    toks = p.stdout.split()
    if 'AddressSanitizer' in p.stderr:
        m = re.search(r'ERROR: AddressSanitizer: (\S+) on address.*?\n(\w+) of size (\d+)', p.stderr, re.S)
        res.update(sanitizer=(m.group(1) + ', ' + m.group(2) + ' of size ' + m.group(3)) if m else p.stderr[:200],
                   where=(re.search(r'#0 \S+ in (\S+)', p.stderr) or [None, '?'])[1])
        return res
    if toks == ['nomem']:
        return {'error': 'not enough memory for the %d-element array' % nelem}
    if p.returncode != 0 or len(toks) != 3:
        return {'error': 'rc %s, output %r' % (p.returncode, (p.stdout + p.stderr)[-200:])}
    res.update(discarded=int(toks[0]), packets_closed=int(toks[1]), bytes_after_buffer_untouched=toks[2] == '1')
    return res


# ------------------------------------------------------------------ 32-bit arithmetic probe of _reserve_er_space
def reserve_reference(psize, off, at, er, fulls):
    """Decision of _reserve_er_space in UNBOUNDED arithmetic for a state with off <= at <= psize (what the
    model's `reserve` computes with gt_diff32 on such states): returns (ret, callbacks, discards, at)."""
    cbs, disc, fi = '', 0, 0
    if er > psize - off:
        return 0, cbs, 1, at
    if at == psize:
        cbs += 'F'
        full = fulls[fi]; fi += 1
        if full:
            return 0, cbs, 1, at
        cbs += 'O'; at = off
    if er > psize - at:
        cbs += 'C'; at = psize
        cbs += 'F'
        full = fulls[fi]; fi += 1
        if full:
            return 0, cbs, 1, at
        cbs += 'O'; at = off
        if er > psize - at:        # the newly opened packet is too small (cannot happen with the probe's stub callbacks)
            return 0, cbs, 1, at
    return 1, cbs, 0, at


def probe_reserve(workdir, rng, prefix='barectf_', nrandom=400):
    """Calls the REAL static _reserve_er_space() (by including barectf.c, NDEBUG) on hand-built contexts whose
    positions range over the whole uint32_t domain (no buffer is touched by that function; the callbacks are
    stubs that mimic an effective open / close) and compares every decision with the unbounded-arithmetic
    reference.  Catches wrap-around slips that no run with a megabyte-sized buffer can reach."""
    M = 2 ** 32 - 1
    tuples = []
    sizes = [64, 4096, 2 ** 31 - 8, 2 ** 31, 2 ** 31 + 8, 2 ** 32 - 64, 2 ** 32 - 8]
    for psize in sizes:
        for off in sorted({0, 8, 64, min(416, psize)}):
            if off > psize:
                continue
            ats = sorted({off, off + 8, psize // 2, psize - 9, psize - 8, psize - 1, psize})
            for at in ats:
                if not (off <= at <= psize):
                    continue
                rem = psize - at
                ers = {0, 1, 8, rem - 1, rem, rem + 1, psize - off - 1, psize - off, psize - off + 1,
                       2 ** 31, M - at, M - at + 1, M - at + 8, M, 2 ** 31 + 64}
                for er in ers:
                    if 0 <= er <= M:
                        for fulls in ((0, 0), (1, 0), (0, 1)):
                            tuples.append((psize, off, at, er, fulls))
    for _ in range(nrandom):
        psize = rng.choice([rng.randrange(8, 2 ** 16), rng.randrange(2 ** 30, 2 ** 32)])
        off = rng.randrange(0, min(psize, 4096) + 1)
        at = rng.choice([off, psize, rng.randrange(off, psize + 1)])
        er = rng.choice([rng.randrange(0, 2 ** 32), max(0, min(M, psize - at + rng.randrange(-2, 3))), max(0, min(M, M - at + rng.randrange(0, 64)))])
        tuples.append((psize, off, at, er, (rng.randrange(2), rng.randrange(2))))
    rows = ',\n'.join('\t{%uU, %uU, %uU, %uU, %d, %d}' % (a, b, c, e, f[0], f[1]) for a, b, c, e, f in tuples)
    src = r"""
#define NDEBUG
#include "barectf.c"
#include <stdio.h>
#include <string.h>
static struct %(p)sctx pctx;
static char cbs[16]; static int ncb, nfull; static int fulls[2];
static int p_full(void *d) { (void) d; cbs[ncb++] = 'F'; return fulls[nfull < 2 ? nfull++ : 1]; }
static void p_open(void *d) { (void) d; cbs[ncb++] = 'O'; pctx.at = pctx.off_content; pctx.packet_is_open = 1; }
static void p_close(void *d) { (void) d; cbs[ncb++] = 'C'; pctx.at = pctx.packet_size; pctx.packet_is_open = 0; }
static const struct { uint32_t psize, off, at, er; int f0, f1; } T[] = {
%(rows)s
};
int main(void)
{
	unsigned long i;
	for (i = 0; i < sizeof(T) / sizeof(T[0]); i++) {
		int ret;
		memset(&pctx, 0, sizeof(pctx));
		pctx.cbs.is_backend_full = p_full; pctx.cbs.open_packet = p_open; pctx.cbs.close_packet = p_close;
		pctx.packet_size = T[i].psize; pctx.off_content = T[i].off; pctx.at = T[i].at;
		pctx.packet_is_open = T[i].at != T[i].psize; pctx.is_tracing_enabled = 1; pctx.in_tracing_section = 1;
		fulls[0] = T[i].f0; fulls[1] = T[i].f1; ncb = 0; nfull = 0; memset(cbs, 0, sizeof(cbs));
		ret = _reserve_er_space(&pctx, T[i].er);
		printf("%%d %%s. %%u %%u\n", ret, cbs, (unsigned) pctx.events_discarded, (unsigned) pctx.at);
	}
	return 0;
}
""" % {'p': prefix, 'rows': rows}
    with open(os.path.join(workdir, 'rprobe.c'), 'w') as f:
        f.write(src)
    rc, out = bt.cc(['-w', '-O0', 'rprobe.c', '-o', 'rprobe'], cwd=workdir)
    if rc != 0:
        return None, 'reservation probe does not compile: ' + out[-600:]
    p = subprocess.run([os.path.join(workdir, 'rprobe')], capture_output=True, text=True, timeout=60)
    lines = p.stdout.splitlines()
    if p.returncode != 0 or len(lines) != len(tuples):
        return None, 'reservation probe failed: rc %s, %d/%d lines' % (p.returncode, len(lines), len(tuples))
    res = []
    for t, l in zip(tuples, lines):
        ret, cb, disc, at = l.split()
        impl = (int(ret), cb[:-1], int(disc), int(at))
        res.append({'packet_size': t[0], 'off_content': t[1], 'at': t[2], 'er_size': t[3], 'backend_full_answers': list(t[4]),
                    'impl': impl, 'expected': reserve_reference(*t)})
    return res, None


# ------------------------------------------------------------------ probe of the size re-computation after a packet switch
def probe_switch(cfg, s, workdir, rng, prefix='barectf_', max_cases=300):
    """Calls the REAL tracing functions (by including barectf.c, NDEBUG) in states built like this: real init, real
    opening of a packet (position q), then ctx->at moved to a later position p of the open packet, with a packet size
    B such that the record does not fit the rest of the packet, its size AT P fits an empty packet and its size AT Q
    does not (the size depends on the position through alignment padding).  p ranges over every bit offset up to 64 and
    every byte offset up to 2048 bits from q, so that every residue of p - q modulo the alignments is met.  Expected
    (layout arithmetic, as the Coq model's trace_recheck): packet switch, record discarded and counted, position q,
    nothing written after the buffer.  Returns (list of case dicts, error)."""
    erts = sorted_erts(s)
    ca = lg.CArgs()
    pc_user = {'minal': 8, 'members': list(s['pc_extra'])}
    pcvals = lg.rand_struct_vals(rng, pc_user, 3) if pc_user['members'] else []
    pc_args = ''.join(', ' + ca.lit(f, v) for (n, f), v in zip(pc_user['members'], pcvals))
    q = lg.header_bits(cfg, s, pcvals)
    cases, calls = [], []
    for ei, e in enumerate(erts):
        for _k in range(2):
            vals = [lg.rand_struct_vals(rng, st, 4) for st in scopes(cfg, s, e)]
            fq = lg.record_end(cfg, s, e, vals, q) - q
            mine = []
            for d in list(range(1, 65)) + list(range(72, 2049, 8)):
                pp = q + d
                fp = lg.record_end(cfg, s, e, vals, pp) - pp
                if fp >= fq:
                    continue
                lo, hi = max(pp, q + fp), min(pp + fp, q + fq)
                B = (lo + 7) // 8 * 8
                if B >= hi:
                    continue
                mine.append({'ert': ei, 'vals': vals, 'p': pp, 'q': q, 'size_at_p': fp, 'size_at_q': fq, 'packet_bits': B})
            if mine:
                args = []
                for st, v in zip(scopes(cfg, s, e), vals):
                    args += lg.c_call_args(ca, st, v)
                for m in mine:
                    m['fn'] = len(calls)
                calls.append('static void call_%d(void) { %s%s_trace_%s(&sctx%s); }' % (
                    len(calls), prefix, s['name'], e['name'], ''.join(', ' + a for a in args)))
                cases += mine
    if not cases:
        return [], None
    if len(cases) > max_cases:
        cases = [cases[i] for i in sorted(rng.sample(range(len(cases)), max_cases))]
    d = {'p': prefix, 'st': s['name'], 'pcargs': pc_args, 'decls': '\n'.join(ca.decls), 'calls': '\n'.join(calls),
         'table': ', '.join('call_%d' % i for i in range(len(calls))),
         'rows': ',\n'.join('\t{%d, %uU, %uU}' % (c['fn'], c['p'], c['packet_bits']) for c in cases)}
    if s['clock']:
        d['clock'] = 'static %s p_clock(void *d) { (void) d; return (%s) ++clk; }' % (s['clock']['ctype'], s['clock']['ctype'])
        d['set_clock'] = 'cbs.%s_clock_get_value = p_clock;' % s['clock']['name']
    else:
        d['clock'] = d['set_clock'] = ''
    src = r"""
#define NDEBUG
#include "barectf.c"
#include <stdio.h>
#include <stdlib.h>
#include <string.h>
#define CANARY 8192
static struct %(p)s%(st)s_ctx sctx;
static unsigned long long clk;
%(decls)s
static int p_full(void *d) { (void) d; return 0; }
static void p_open(void *d) { (void) d; %(p)s%(st)s_open_packet(&sctx%(pcargs)s); }
static void p_close(void *d) { (void) d; %(p)s%(st)s_close_packet(&sctx); }
%(clock)s
%(calls)s
static void (*const CALLS[])(void) = { %(table)s };
static const struct { int fn; uint32_t p, bits; } T[] = {
%(rows)s
};
int main(void)
{
	unsigned long i, j;
	for (i = 0; i < sizeof(T) / sizeof(T[0]); i++) {
		struct %(p)splatform_callbacks cbs;
		uint32_t n = T[i].bits / 8, q;
		uint8_t *buf = (uint8_t *) malloc(n + CANARY);
		int ok = 1;
		memset(&cbs, 0, sizeof(cbs));
		cbs.is_backend_full = p_full; cbs.open_packet = p_open; cbs.close_packet = p_close;
		%(set_clock)s
		memset(buf, 0, n); memset(buf + n, 0xCC, CANARY);
		memset(&sctx, 0, sizeof(sctx));
		%(p)sinit(&sctx, buf, n, cbs, NULL);
		p_open(NULL);
		q = sctx.parent.at;
		sctx.parent.at = T[i].p;
		CALLS[T[i].fn]();
		for (j = 0; j < CANARY; j++) if (buf[n + j] != 0xCC) ok = 0;
		printf("%%u %%u %%u %%u %%d %%d %%d\n", (unsigned) q, (unsigned) sctx.parent.at, (unsigned) sctx.parent.packet_size,
			(unsigned) sctx.parent.events_discarded, sctx.parent.packet_is_open, sctx.parent.in_tracing_section, ok);
		free(buf);
	}
	return 0;
}
""" % d
    with open(os.path.join(workdir, 'sprobe.c'), 'w') as f:
        f.write(src)
    rc, out = bt.cc(['-w', '-O0', 'sprobe.c', '-o', 'sprobe'], cwd=workdir)
    if rc != 0:
        return None, 'packet switch probe does not compile: ' + out[-600:]
    pr = subprocess.run([os.path.join(workdir, 'sprobe')], capture_output=True, text=True, timeout=120)
    lines = pr.stdout.splitlines()
    if len(lines) != len(cases):
        return None, 'packet switch probe failed: rc %s, %d/%d lines' % (pr.returncode, len(lines), len(cases))
    for c, l in zip(cases, lines):
        qi, at, psz, disc, isopen, insec, ok = [int(x) for x in l.split()]
        c['impl'] = {'q': qi, 'at': at, 'packet_size': psz, 'discarded': disc, 'packet_is_open': isopen,
                     'in_tracing_section': insec, 'bytes_after_buffer_untouched': bool(ok)}
        c['expected'] = {'q': c['q'], 'at': c['q'], 'packet_size': c['packet_bits'], 'discarded': 1, 'packet_is_open': 1,
                         'in_tracing_section': 0, 'bytes_after_buffer_untouched': True}
    return cases, None
