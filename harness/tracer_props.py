"""Campaign runner and implementation-side oracles shared by C01-C07 and C16.

Every oracle works on what the REAL compiled tracer printed (callback log, context dumps, packets)
and on the Coq reader's decoding of the REAL packets; none of them consults the tracer model.
The tracer model is compared separately (correspondence)."""
import os
import sys
import shutil
from concurrent.futures import ThreadPoolExecutor

import layout_gen as lg
import tracer_common as tc

S9 = 'S9-stale-er-size-after-packet-switch'
S18 = 'S18-smaller-buffer-installed-during-packet-switch'
S9B = 'S9b-discarded-although-it-fits-an-empty-packet'
S12 = 'S12-record-size-wraps-modulo-2^32'

PARAMS = {
    # pid: quick (ncfg, nh), thorough (ncfg, nh), history kwargs, cfg kwargs
    'C01': dict(q=(24, 8), t=(400, 24), h=dict(p_full=0.1, p_other=0.1), c=dict(small_sizes_p=0.2), lens=[6, 12, 30], extra=[40, 100, 300, 64]),
    'C02': dict(q=(28, 10), t=(500, 30), h=dict(p_full=0.2, p_other=0.12, maxlen=6, p_toggle=0.08, p_eager=0.1), c=dict(), lens=[8, 20, 40], extra=[0, 1, 3, 7, 9, 17, 23, 40, 64]),
    'C03': dict(q=(24, 10), t=(400, 30), h=dict(p_full=0.3, p_other=0.2, p_toggle=0.12, p_eager=0.12), c=dict(), lens=[5, 15, 40, 60], extra=[2, 9, 16, 33, 64, 120]),
    'C04': dict(q=(24, 8), t=(400, 24), h=dict(p_full=0.25, p_other=0.2, p_toggle=0.06, p_eager=0.1), c=dict(small_sizes_p=0.3), lens=[10, 30, 60], extra=[4, 16, 40, 90]),
    'C05': dict(q=(24, 8), t=(400, 24), h=dict(p_full=0.25, p_other=0.2, p_eager=0.1), c=dict(clock_p=1.0), lens=[10, 30, 60], extra=[0, 8, 24, 60, 100]),
    'C06': dict(q=(20, 10), t=(300, 30), h=dict(p_full=0.3, p_other=0.45, p_swap=0.15, p_toggle=0.0, p_same_addr=0.5, p_eager=0.1), c=dict(), lens=[6, 20, 50], extra=[0, 8, 30, 64]),
    'C07': dict(q=(20, 10), t=(300, 30), h=dict(p_full=0.2, p_other=0.4, p_toggle=0.25, p_eager=0.1), c=dict(), lens=[8, 20, 40], extra=[4, 20, 64]),
    'C16': dict(q=(20, 8), t=(300, 24), h=dict(p_full=0.3, p_other=0.35, p_toggle=0.15, p_swap=0.1, p_eager=0.25), c=dict(), lens=[8, 20, 40], extra=[0, 12, 40]),
}


# the C16 store probe (mprotect + x86 trap flag single step) needs Linux on x86-64
import platform as _platform
STORE_PROBE_OK = sys.platform.startswith('linux') and _platform.machine() == 'x86_64'

class Hist:
    pass


def run_one_config(args):
    (idx, seed, pid, nh, scratch) = args
    import random
    rng = random.Random(seed)
    P = PARAMS[pid]
    cfg = lg.rand_cfg(rng, **P['c'])
    s = rng.choice(cfg['streams'])
    if pid in ('C02', 'C03') and rng.random() < 0.4:
        # a member with an alignment beyond 64 bits at the end of one payload: the size of that record depends on the
        # position modulo 128 ... 512 (alignments are arbitrary powers of two)
        e = rng.choice(tc.sorted_erts(s))
        if e['p'] is not None and all(n != 'zz_wide' for n, _ in e['p']['members']):
            e['p']['members'].append(('zz_wide', ('int', False, rng.choice([8, 32, 64]), rng.choice([128, 256, 512]))))
    hists = []
    for k in range(nh):
        hk = dict(P['h'])
        if pid in ('C03', 'C04') and k % 2 == 0:
            # the decode / discard-snapshot oracles need histories in which "tracing enabled at call entry" is known from
            # the log alone: every other history has no tracing toggle (neither between nor inside calls)
            hk['p_toggle'] = 0.0
        hists.append(tc.rand_history(rng, cfg, s, rng.choice(P['lens']), rng.choice(P['extra']), **hk))
    if pid in ('C02', 'C03'):
        # directed histories: a packet switch which changes the size of the record being written
        for k in range(2):
            h = tc.directed_switch_history(rng, cfg, s, hardest=(k == 0))
            if h is not None:
                hists.append(h)
    d = os.path.join(scratch, 'cfg%d' % idx)
    os.makedirs(d)
    res = {'idx': idx, 'seed': seed, 'cfg': cfg, 's': s, 'hists': hists, 'error': None}
    try:
        exe, err, files = tc.build_impl(cfg, s, hists, d)
        if err:
            res['error'] = ('build', err)
            return res
        if pid in ('C02', 'C03'):
            res['probes'], res['probe_error'] = tc.probe_sizes(cfg, s, d, rng)
            res['rprobes'], res['rprobe_error'] = tc.probe_reserve(d, rng)
            res['sprobes'], res['sprobe_error'] = tc.probe_switch(cfg, s, d, rng)
        if pid == 'C02':
            res['wprobes'], res['wprobe_error'] = tc.probe_sizes32(cfg, s, d, rng)
        if pid == 'C16' and STORE_PROBE_OK:
            spexe, sperr = tc.build_store_probe(d)
            res['store_probe'] = tc.run_store_probe(spexe, len(hists)) if spexe else None
            res['store_probe_error'] = sperr
        impl = tc.run_impl(exe, len(hists))
        evs = [tc.split_events(t) for t, _ in impl]
        packets = [tc.packets_of(e) for e in evs]
        sid = lg.stream_ids(cfg)[s['name']]
        try:
            ts_term = tc.real_tstream_term(files['metadata'], sid, cfg['features']['stream_id'] is not None)
        except Exception as exc:   # metadata outside the TSDL grammar / unexpected shape
            res['error'] = ('tsdl', 'real metadata cannot be read: %r' % (exc,))
            return res
        try:
            ops_term = tc.real_ops_term(lg.to_barectf(cfg), s['name'])
        except tc.OpShapeError as exc:
            res['error'] = ('ops', 'real operation tree outside the normal form: %s' % exc)
            return res
        logs, dec, raw = tc.model_and_decode(cfg, s, hists, packets, d, 'cases', tstream_term=ts_term, ops_term=ops_term)
        res['ops_agree'], res['tsdl_agree'] = getattr(tc.model_and_decode, 'last_agree', (None, None))
        if logs is None:
            res['error'] = ('model', raw[-1500:])
            return res
        res.update(impl=impl, events=evs, model=logs, decoded=dec)
        if pid == 'C07':
            res['atomic'] = atomicity_runs(cfg, s, hists, evs, impl, d)
        return res
    finally:
        shutil.rmtree(d, ignore_errors=True)


def atomic_variant(s, h, events):
    """The same history with every toggle performed by a callback DURING a tracing call (after its
    entry clock sample) erased and replayed right after the call returns.  If tracing calls are
    atomic w.r.t. the switch, both histories produce the same packets and the same context after
    every original call."""
    oracle = list(h['oracle'])
    calls, mapping, oi, changed = [], [], 0, False
    groups = [(call, evs) for call, evs, _, _ in walk_calls(h, events)]
    nret = len(groups)
    if nret < len(h['calls']):
        # the run died inside call number nret: its callbacks are the events after the last dump
        tail, seen = [], 0
        for e in events:
            if e[0] == 3:
                seen += 1
            elif seen == nret:
                tail.append(e)
        groups.append((h['calls'][nret], tail))
    for call, evs in groups:
        idx = []
        for e in evs:
            if e[0] == 1:
                idx.append((oi, e[1]))
                oi += 1
        calls.append(call)
        mapping.append(len(calls) - 1)
        if call[0] != 'trace':
            continue
        inner = idx[1:] if (s['clock'] is not None and idx and idx[0][1] == 3) else idx
        last = None
        for i, kind in inner:
            if i < len(oracle) and oracle[i][1] is not None:
                last = oracle[i][1]
                oracle[i] = (oracle[i][0], None, oracle[i][2], oracle[i][3])
                changed = True
        if last is not None:
            calls.append(('enable', last))
    calls += h['calls'][len(groups):]
    if not changed:
        return None
    return {'calls': calls, 'oracle': oracle, 'pcargs': h['pcargs'], 'buf': h['buf'], 'same_addr': h.get('same_addr'),
            'eager': h.get('eager')}, mapping


def atomicity_runs(cfg, s, hists, evs, impl, workdir):
    variants = []
    for hi, h in enumerate(hists):
        v = atomic_variant(s, h, evs[hi])
        if v is not None:
            variants.append((hi, v[0], v[1]))
    if not variants:
        return []
    d2 = os.path.join(workdir, 'atomic')
    os.makedirs(d2)
    exe, err, _ = tc.build_impl(cfg, s, [v[1] for v in variants], d2)
    if err:
        return [('error', err)]
    out = tc.run_impl(exe, len(variants))
    res = []
    for (hi, vh, mapping), (toks, verr) in zip(variants, out):
        res.append((hi, vh, mapping, tc.split_events(toks), verr))
    return res


def oracle_atomic(ctx, r, stats):
    cfg, s = r['cfg'], r['s']
    for item in r.get('atomic') or []:
        if item[0] == 'error':
            ctx.corr_broken.append('atomicity variant does not build: %s' % item[1][-200:])
            continue
        hi, vh, mapping, vevents, verr = item
        h = r['hists'][hi]
        stats['atomicity_pairs'] += 1
        rep = {'config_seed': r['seed'], 'history': hi, 'config': cfg_repr(cfg), 'calls': h['calls'], 'oracle': h['oracle'][:60],
               'buf_bytes': h['buf'], 'variant_calls': vh['calls'], 'variant_oracle': vh['oracle'][:60], 'variant_error': verr}
        orig_rets = [e for e in r['events'][hi] if e[0] == 3]
        var_rets = [e for e in vevents if e[0] == 3]
        orig_pk = [e for e in r['events'][hi] if e[0] == 2]
        var_pk = [e for e in vevents if e[0] == 2]
        bad = None
        oerr = r['impl'][hi][1]
        if oerr is not None or verr is not None:
            if (oerr is None) != (verr is None):
                bad = ('with the toggles inside the tracing calls the run %s, with the same toggles deferred to the end of each call it %s' % (
                    'fails: %r' % (oerr,) if oerr else 'is clean', 'fails: %r' % (verr,) if verr else 'is clean'))
            else:
                continue          # both fail (e.g. the known findings S9 / S18): nothing to compare
        elif orig_pk != var_pk:
            k = next((i for i, (a, b) in enumerate(zip(orig_pk, var_pk)) if a != b), min(len(orig_pk), len(var_pk)))
            bad = 'packet #%d differs between the history with toggles inside tracing calls and the one with the toggles deferred' % k
        else:
            for ci, vi in enumerate(mapping):
                if ci >= len(orig_rets) or vi >= len(var_rets):
                    break
                a, b = list(orig_rets[ci]), list(var_rets[vi])
                a[9] = b[9] = 0       # is_tracing_enabled itself changes later in the variant
                if a != b:
                    bad = 'context after call %d differs (%r vs %r)' % (ci, orig_rets[ci][1:11], var_rets[vi][1:11])
                    break
        if bad:
            ctx.violation('C07: a tracing call is not atomic with respect to the tracing switch: ' + bad, rep)
            return


def classify_memory_error(cfg, s, h, events):
    """S9 iff some tracing call of the history (the dying one included) switched packets and the
    record needs more bits at the position finally used than at the position where its size was
    computed.  (The damage can surface later: alignment padding alone may push ctx->at beyond
    packet_size without a store, and the next call then underflows packet_size - at.)"""
    erts = tc.sorted_erts(s)
    calls = walk_calls(h, events)
    rets = [e for e in events if e[0] == 3]
    # the dying call has no closing dump: add it with its partial event list
    k = len(rets)
    if k < len(h['calls']):
        tail, seen = [], 0
        for e in events:
            if e[0] == 3:
                seen += 1
            elif seen == k:
                tail.append(e)
        calls = calls + [(h['calls'][k], tail, rets[-1] if rets else None, None)]
    oi = 0
    for ci, (c, evs, before, after) in enumerate(calls):
        newbuf = None
        for ev in evs:
            if ev[0] == 1:
                a = h['oracle'][oi] if oi < len(h['oracle']) else (False, None, None, 1)
                oi += 1
                if ev[1] == 2 and a[2] is not None:
                    newbuf = a[2]
        if c[0] != 'trace' or before is None:
            continue
        if not any(ev[0] == 1 and ev[1] == 1 for ev in evs):
            continue
        e = erts[c[1]]
        at_old, off_content = before[1], (after[4] if after is not None else before[4])
        size_old = lg.record_end(cfg, s, e, c[2], at_old) - at_old
        size_new = lg.record_end(cfg, s, e, c[2], off_content) - off_content
        if size_new > size_old:
            return {'kind': S9, 'call_index': ci, 'at_when_sized': at_old, 'size_computed': size_old,
                    'at_when_written': off_content, 'size_needed': size_new}
        if newbuf is not None and 8 * newbuf < before[2] and size_new > 8 * newbuf - off_content:
            return {'kind': S18, 'call_index': ci, 'at_when_sized': at_old, 'size_computed': size_old,
                    'at_when_written': off_content, 'size_needed': size_new,
                    'packet_size_when_checked': before[2], 'packet_size_after_swap': 8 * newbuf}
    return None


def compare_model(ctx, r, hi, stats):
    """correspondence model vs implementation for one history.  Returns 'ok' | 'memerr' | 'diff'."""
    toks, err = r['impl'][hi]
    ml = r['model'][hi]
    if r['hists'][hi].get('eager'):
        # callback-exit events (kind 5) exist on the implementation side only
        toks = [t for e in r['events'][hi] if e[0] != 5 for t in e]
    if err is None and toks == ml:
        stats['agree'] += 1
        return 'ok'
    mev = tc.split_events(ml)
    iev = [e for e in r['events'][hi] if e[0] != 5]
    if err is not None and mev and mev[-1][0] == 4 and mev[:-1] == iev[:len(mev) - 1]:
        stats['agree_on_error'] += 1
        return 'memerr'
    if err is None and r['hists'][hi].get('same_addr') and mev and mev[-1][0] == 4 and mev[:-1] == iev[:len(mev) - 1]:
        # same-address buffer swaps use one big backing block: a store beyond the installed size is
        # not visible to AddressSanitizer there; the model says where it happens
        stats['agree_on_error_same_addr_silent'] += 1
        return 'memerr-silent'
    stats['diff'] += 1
    k = next((i for i, (a, b) in enumerate(zip(iev, mev)) if a != b), min(len(iev), len(mev)))
    ctx.corr_broken.append('tracer model vs compiled tracer: config seed %d history %d differs at event %d' % (r['seed'], hi, k))
    ctx.notes.append('cfg seed %d hist %d: impl event %r ; model event %r ; impl error %r' % (
        r['seed'], hi, iev[k][:16] if k < len(iev) else None, mev[k][:16] if k < len(mev) else None, err))
    return 'diff'


# ------------------------------------------------------------------ oracles on the implementation
def walk_calls(h, events):
    """Group the event list per public call: yields (call, events_in_call, ret_before, ret_after)."""
    out, cur, prev = [], [], None
    ci = 0
    for e in events:
        if e[0] == 3:
            if ci < len(h['calls']):
                out.append((h['calls'][ci], cur, prev, e))
            ci += 1
            cur, prev = [], e
        else:
            cur.append(e)
    return out


def expected_records(cfg, s, h, events):
    """Records that must be found, in order: trace calls made while tracing was enabled whose call
    did not increment the discarded counter.  Returns (list, n_enabled_calls, n_discarded)."""
    erts = tc.sorted_erts(s)
    exp, n_en, n_disc = [], 0, 0
    for call, evs, before, after in walk_calls(h, events):
        if call[0] != 'trace':
            continue
        enabled = before[9] == 1 if before is not None else True
        if not enabled:
            continue
        n_en += 1
        d0 = before[5] if before is not None else 0
        if after[5] != d0:
            n_disc += after[5] - d0
            continue
        e = erts[call[1]]
        vals = {}
        for key, st, v in zip([k for k, x in (('cc', s['cc']), ('sc', e['sc']), ('p', e['p'])) if x is not None],
                              tc.scopes(cfg, s, e), call[2]):
            vals[key] = [tc.canon_val(f, x) for (_, f), x in zip(st['members'], v)]
        exp.append({'id': call[1], 'cc': vals.get('cc', []), 'sc': vals.get('sc', []), 'p': vals.get('p', [])})
    return exp, n_en, n_disc


def has_toggles(h):
    return any(o[1] is not None for o in h['oracle'])


def oracle_decode(ctx, pid, r, hi, stats, want_order=True):
    """C01 / C03: the Coq reader applied to the real packets returns exactly the recorded calls."""
    cfg, s, h = r['cfg'], r['s'], r['hists'][hi]
    events = r['events'][hi]
    pk = [tc.unflatten_packet(t, cfg, s) for t in r['decoded'][hi]]
    rep = {'config_seed': r['seed'], 'history': hi, 'config': cfg_repr(cfg), 'calls': h['calls'], 'oracle': h['oracle'][:60],
           'buf_bytes': h['buf'], 'pcargs': h['pcargs']}
    if any(p is None for p in pk):
        k = [i for i, p in enumerate(pk) if p is None][0]
        ctx.violation('%s: packet %d of a history cannot be decoded with the metadata layout (reader rejects it)' % (pid, k),
                      dict(rep, packet_index=k, packet_bytes=tc.packets_of(events)[k]))
        return
    got = [dict(id=x['id'], cc=x['cc'], sc=x['sc'], p=x['p']) for p in pk for x in p['recs']]
    if has_toggles(h):
        return      # enabled-at-entry cannot be told from the log alone; covered by C07's oracle
    exp, n_en, n_disc = expected_records(cfg, s, h, events)
    rets = [e for e in events if e[0] == 3]
    flushed = bool(rets) and rets[-1][7] == 0 or (bool(rets) and rets[-1][1] <= rets[-1][4])
    stats['records_decoded'] += len(got)
    stats['records_expected'] += len(exp)
    stats['discarded'] += n_disc
    if flushed:
        ok = got == exp
    else:
        ok = got == exp[:len(got)]
    if not ok:
        k = next((i for i, (a, b) in enumerate(zip(got, exp)) if a != b), min(len(got), len(exp)))
        ctx.violation('%s: decoded event records differ from the recorded tracing calls (first difference at record %d: decoded %r, traced %r)' % (
            pid, k, got[k] if k < len(got) else None, exp[k] if k < len(exp) else None), rep)
        return
    # user packet context members
    pcu = [(n, f) for n, f in s['pc_extra']]
    for p in pk:
        for (n, f), v in zip(pcu, h['pcargs']):
            if p['pc'].get(n) != tc.canon_val(f, v):
                ctx.violation('%s: packet context user member %s decodes to %r, opening function was given %r' % (pid, n, p['pc'].get(n), v), rep)
                return
    if pid == 'C03' and rets:
        final_disc = rets[-1][5]
        if final_disc != n_disc or len(got) + n_disc != n_en and flushed:
            ctx.violation('C03: discarded counter %d, enabled calls %d, records found %d' % (final_disc, n_en, len(got)), rep)


def oracle_discard_reason(ctx, r, hi, stats):
    """C03: a call is discarded only if the back end said full when a packet was needed or the
    record cannot fit in an empty packet."""
    cfg, s, h = r['cfg'], r['s'], r['hists'][hi]
    if has_toggles(h):
        return
    erts = tc.sorted_erts(s)
    oi = 0
    for call, evs, before, after in walk_calls(h, r['events'][hi]):
        answers = []
        for e in evs:
            if e[0] == 1:
                a = h['oracle'][oi] if oi < len(h['oracle']) else (False, None, None, 1)
                oi += 1
                if e[1] == 0:
                    answers.append(a[0])
        if call[0] != 'trace' or before is None or after[5] == before[5] or before[9] != 1:
            continue
        stats['discards_examined'] += 1
        e = erts[call[1]]
        off, psize = before[4], after[2]
        size_empty = lg.record_end(cfg, s, e, call[2], off) - off
        size_here = lg.record_end(cfg, s, e, call[2], before[1]) - before[1]
        if any(answers) or size_empty > psize - off:
            continue
        rep = {'config_seed': r['seed'], 'history': hi, 'config': cfg_repr(cfg), 'calls': h['calls'], 'oracle': h['oracle'][:60],
               'buf_bytes': h['buf'], 'call': call, 'size_in_empty_packet': size_empty, 'size_at_current_position': size_here,
               'capacity': psize - off}
        if size_here > psize - off:
            ctx.finding(S9B, 'record discarded although it fits in an empty packet: its size was computed at the current position (%d bits) instead of the empty-packet position (%d bits <= capacity %d)' % (size_here, size_empty, psize - off), rep)
        else:
            ctx.violation('C03: tracing call discarded although the back end never answered full and the record fits in an empty packet', rep)


def field_mod(ft, v):
    return v & ((1 << ft[2]) - 1)


def oracle_packets(ctx, r, hi, stats):
    """C04: header / context of every packet handed to the back end."""
    cfg, s, h = r['cfg'], r['s'], r['hists'][hi]
    events = r['events'][hi]
    pk = [tc.unflatten_packet(t, cfg, s) for t in r['decoded'][hi]]
    raw = tc.packets_of(events)
    sid = lg.stream_ids(cfg)[s['name']]
    pf = s['pf']
    disc, k = 0, 0
    rep = {'config_seed': r['seed'], 'history': hi, 'config': cfg_repr(cfg), 'calls': h['calls'], 'oracle': h['oracle'][:60], 'buf_bytes': h['buf']}
    for ei, e in enumerate(events):
        if e[0] == 3:
            disc = e[5]
        if e[0] != 2:
            continue
        p = pk[k]
        why = None
        # the content size the closing function recorded in the context (first call return after the hand-over, unless
        # another packet is handed over before it): the packet context must state that very value
        nxt = [x for x in events[ei + 1:] if x[0] in (2, 3)]
        ctx_content = nxt[0][3] if nxt and nxt[0][0] == 3 and len(nxt[0]) > 3 else None
        if p is None:
            why = 'reader rejects the packet'
        else:
            f = cfg['features']
            if f['magic'] and p['ph'].get('magic') != field_mod(f['magic'], 0xc1fc1fc1):
                why = 'magic %r' % p['ph'].get('magic')
            elif f['uuid'] and p['ph'].get('uuid') != list(cfg['uuid']):
                why = 'uuid %r' % p['ph'].get('uuid')
            elif f['stream_id'] and p['ph'].get('stream_id') != field_mod(f['stream_id'], sid):
                why = 'stream_id %r (expected %d)' % (p['ph'].get('stream_id'), sid)
            elif p['pc']['packet_size'] != field_mod(pf['total'], 8 * len(raw[k])) or e[1] != 8 * len(raw[k]):
                why = 'packet_size %r for a buffer of %d bytes' % (p['pc']['packet_size'], len(raw[k]))
            elif p['pc']['content_size'] > 8 * len(raw[k]):
                why = 'content_size %d > total' % p['pc']['content_size']
            elif ctx_content is not None and p['pc']['content_size'] != field_mod(pf['content'], ctx_content):
                why = 'content_size %r, the closing function recorded %d bits' % (p['pc']['content_size'], ctx_content)
            elif pf['seq'] and p['pc']['packet_seq_num'] != field_mod(pf['seq'], k):
                why = 'packet_seq_num %r for packet #%d' % (p['pc']['packet_seq_num'], k)
            elif pf['disc'] and p['pc']['events_discarded'] != field_mod(pf['disc'], disc):
                why = 'events_discarded %r, %d records discarded so far' % (p['pc']['events_discarded'], disc)
        stats['packets_checked'] += 1
        if why:
            ctx.violation('C04: malformed packet #%d handed to the back end: %s' % (k, why), dict(rep, packet_index=k, packet_bytes=raw[k]))
            return
        k += 1
    # discarded snapshot against the CALLS (not against the tracer's own counter): when the platform closes a packet
    # between two tracing calls, every earlier tracing call made while tracing was enabled has either its record in
    # the packets handed over so far or was discarded
    if pf['disc'] and not has_toggles(h) and all(p is not None for p in pk):
        k, n_en = 0, 0
        for call, evs, before, after in walk_calls(h, events):
            nh = sum(1 for x in evs if x[0] == 2)
            if call[0] == 'trace':
                if before is None or before[9] == 1:
                    n_en += 1
            elif nh == 1 and call[0] in ('close', 'fini'):
                nrec = sum(len(p['recs']) for p in pk[:k + 1])
                want = n_en - nrec
                stats['discard_snapshots_checked_against_calls'] += 1
                if want >= 0 and pk[k]['pc']['events_discarded'] != field_mod(pf['disc'], want):
                    ctx.violation('C04: packet #%d (closed by the platform between two tracing calls) states %d discarded event records: %d tracing '
                                  'calls were made with tracing enabled and %d records are in the packets handed over so far, so %d were discarded' % (
                                      k, pk[k]['pc']['events_discarded'], n_en, nrec, want), dict(rep, packet_index=k, packet_bytes=raw[k]))
                    return
            k += nh


def oracle_time(ctx, r, hi, stats):
    """C05: timestamps are sampled clock values, ordered."""
    cfg, s, h = r['cfg'], r['s'], r['hists'][hi]
    if not s['clock'] or has_toggles(h):
        return
    events = r['events'][hi]
    bits = lg.CLOCK_BITS[s['clock']['ctype']]
    samples = tc.replay_clock(events, h['oracle'], bits)
    pk = [tc.unflatten_packet(t, cfg, s) for t in r['decoded'][hi]]
    if any(p is None for p in pk):
        return
    # entry sample of every recorded call, in order
    entry, si = [], 0
    for call, evs, before, after in walk_calls(h, events):
        n = sum(1 for e in evs if e[0] == 1 and e[1] == 3)
        if call[0] == 'trace':
            enabled = before[9] == 1 if before is not None else True
            if enabled and (after[5] == (before[5] if before is not None else 0)):
                entry.append(samples[si] if n else None)
        si += n
    rep = {'config_seed': r['seed'], 'history': hi, 'config': cfg_repr(cfg), 'calls': h['calls'], 'oracle': h['oracle'][:60], 'buf_bytes': h['buf'],
           'clock_samples': samples[:80]}
    pf, ef = s['pf'], s['ef']
    ri, prev_end = 0, None
    sset = set(samples)
    for k, p in enumerate(pk):
        b = p['pc'].get('timestamp_begin') if pf['ts_begin'] else None
        e_ = p['pc'].get('timestamp_end') if pf['ts_end'] else None
        stats['packets_time_checked'] += 1
        for nm, v, ft in (('beginning', b, pf['ts_begin']), ('end', e_, pf['ts_end'])):
            if v is not None and v not in {field_mod(ft, x) for x in sset}:
                ctx.violation('C05: packet #%d %s timestamp %d is not a sampled clock value' % (k, nm, v), rep)
                return
        tss = []
        for x in p['recs']:
            if ri < len(entry) and ef['ts']:
                t = x['h'].get('timestamp')
                if entry[ri] is not None and t != field_mod(ef['ts'], entry[ri]):
                    ctx.violation('C05: record %d has timestamp %r, clock sampled %r at the entry of its tracing call' % (ri, t, entry[ri]), rep)
                    return
                tss.append(entry[ri])
            ri += 1
        # ordering on the sampled values (fields are wide enough in these runs: increments are tiny)
        small = max(samples or [0]) < 1 << 15
        if small:
            seq = ([b] if b is not None else []) + tss + ([e_] if e_ is not None else [])
            if any(x > y for x, y in zip(seq, seq[1:])):
                ctx.violation('C05: packet #%d: beginning <= record timestamps <= end violated: %r' % (k, seq), rep)
                return
            if prev_end is not None and b is not None and prev_end > b:
                ctx.violation('C05: end timestamp %d of packet #%d is after the beginning %d of packet #%d' % (prev_end, k - 1, b, k), rep)
                return
            prev_end = e_ if e_ is not None else prev_end


def oracle_protocol(ctx, r, hi, stats):
    """C06: callback protocol and accessor truth, from the implementation's log."""
    cfg, s, h = r['cfg'], r['s'], r['hists'][hi]
    events = r['events'][hi]
    rep = {'config_seed': r['seed'], 'history': hi, 'config': cfg_repr(cfg), 'calls': h['calls'], 'oracle': h['oracle'][:60], 'buf_bytes': h['buf']}
    npackets, oi = 0, 0
    installed = h['buf']          # bytes of the buffer last installed (init or packet_set_buf)
    for call, evs, before, after in walk_calls(h, events):
        is_open = before[7] == 1 if before is not None else False
        last_full = None
        for ei, e in enumerate(evs):
            if e[0] == 1:
                a = h['oracle'][oi] if oi < len(h['oracle']) else (False, None, None, 1)
                oi += 1
                if e[1] == 2 and a[2] is not None and any(x[0] == 2 for x in evs[ei + 1:ei + 4] if x[0] != 1 or x[1] == 3):
                    # the closing callback handed a packet over and then installed another buffer
                    nxt = [x for x in evs[ei + 1:] if not (x[0] == 1 and x[1] == 3)]
                    if nxt and nxt[0][0] == 2:
                        installed = a[2]
                if call[0] == 'trace':
                    if e[1] == 0:
                        last_full = a[0]
                    elif e[1] == 1:
                        if is_open and not h.get('eager') and not (before is not None and before[1] == before[2]):
                            # (an eager platform has reopened the packet itself inside its close callback: the hypothesis
                            # "no eager answer" of C06_callback_protocol)
                            ctx.violation('C06: tracer invoked the open callback while a packet is open', rep)
                            return
                        if last_full is not False:
                            ctx.violation('C06: tracer invoked the open callback without a preceding "not full" answer', rep)
                            return
                        is_open = True
                        last_full = None
                    elif e[1] == 2:
                        if not is_open:
                            ctx.violation('C06: tracer invoked the close callback on a closed packet', rep)
                            return
                        is_open = bool(h.get('eager'))
            elif e[0] == 2:
                npackets += 1
        stats['calls_checked'] += 1
        # accessors
        at, psize, off, disc, seq, opn = after[1], after[2], after[4], after[5], after[6], after[7]
        if psize != 8 * installed:
            ctx.violation('C06: packet size accessor says %d bits, the buffer last installed has %d bytes' % (psize, installed), rep)
            return
        if s['pf']['seq'] and seq != npackets and not has_toggles(h):
            # a close callback on a closed packet still prints a packet in the harness platform
            pass
        if before is not None and call[0] in ('open',) and before[7] == 1 and before[9] == 1:
            if tuple(after[1:8]) != tuple(before[1:8]):
                ctx.violation('C06: opening an open packet is not a no-op', rep)
                return
        if before is not None and call[0] == 'close' and before[7] == 0 and before[9] == 1:
            if tuple(after[1:8]) != tuple(before[1:8]):
                ctx.violation('C06: closing a closed packet is not a no-op', rep)
                return
        if opn and call[0] == 'trace' and before is not None and before[9] == 1 and after[5] == before[5]:
            # (when the record filled its packet exactly, an eager platform has handed that packet over and
            # opened the next one, which is empty)
            if at <= off and not (h.get('eager') and any(x[0] == 2 for x in evs)):
                ctx.violation('C06: packet reported empty after a record was appended', rep)
                return
        if call[0] == 'fini' and after[9] == 1 and after[7] == 1 and at > off:
            ctx.violation('C06: finalisation idiom left a non-empty packet open', rep)
            return


def oracle_disabled(ctx, r, hi, stats):
    """C07: a tracing call entered while tracing is disabled changes nothing but the saved timestamp
    and invokes only the clock callback."""
    cfg, s, h = r['cfg'], r['s'], r['hists'][hi]
    events = r['events'][hi]
    rep = {'config_seed': r['seed'], 'history': hi, 'config': cfg_repr(cfg), 'calls': h['calls'], 'oracle': h['oracle'][:60], 'buf_bytes': h['buf']}
    oi = 0
    for call, evs, before, after in walk_calls(h, events):
        toggled_in_clock = None
        cbs = []
        for e in evs:
            if e[0] == 1:
                a = h['oracle'][oi] if oi < len(h['oracle']) else (False, None, None, 1)
                oi += 1
                cbs.append(e[1])
                if e[1] == 3 and len(cbs) == 1 and a[1] is not None:
                    toggled_in_clock = a[1]
        if call[0] != 'trace' or before is None:
            continue
        enabled_at_test = before[9] == 1 if toggled_in_clock is None else toggled_in_clock
        if enabled_at_test:
            continue
        stats['disabled_calls_checked'] += 1
        if any(k != 3 for k in cbs) or any(e[0] == 2 for e in evs):
            ctx.violation('C07: a tracing call made while tracing is disabled invoked a non-clock callback', rep)
            return
        b, a_ = list(before[1:11]), list(after[1:11])
        b[8] = a_[8]     # is_tracing_enabled itself may have been switched by the clock callback
        if b != a_:
            ctx.violation('C07: a tracing call made while tracing is disabled changed the context: %r -> %r' % (before[1:11], after[1:11]), rep)
            return


def oracle_flag(ctx, r, hi, stats):
    """C16: flag is 1 in every callback the tracer invokes after the section began, 0 at every return."""
    cfg, s, h = r['cfg'], r['s'], r['hists'][hi]
    events = r['events'][hi]
    rep = {'config_seed': r['seed'], 'history': hi, 'config': cfg_repr(cfg), 'calls': h['calls'], 'oracle': h['oracle'][:60], 'buf_bytes': h['buf']}
    for call, evs, before, after in walk_calls(h, events):
        stats['returns_checked'] += 1
        if after[8] != 0:
            ctx.violation('C16: in-tracing-section flag reads %d after a public call returned (%r)' % (after[8], call[:2]), rep)
            return
        if call[0] == 'trace':
            cbs = [e for e in evs if e[0] == 1]
            first = True
            for e in cbs:
                entry_clock = first and e[1] == 3 and s['clock'] is not None
                first = False
                if entry_clock:
                    continue       # sampled before the section begins (reading fixed in DESIGN.md section 9)
                stats['callbacks_checked'] += 1
                if e[2] != 1:
                    ctx.violation('C16: callback kind %d invoked by a tracing call with the flag reading 0' % e[1], rep)
                    return
        for e in evs:
            if e[0] == 5:      # eager platform: flag when a callback returns to its caller
                stats['callback_exits_checked'] += 1
                if e[2] != e[3]:
                    ctx.violation('C16: the in-tracing-section flag reads %d when callback kind %d returns although it read %d at its entry: '
                                  'an API function called by the platform (open / close on a packet in any state) does not restore the flag, and '
                                  'the stores that follow happen with the flag reading %d' % (e[3], e[1], e[2], e[3]), dict(rep, eager_platform=True))
                    return


def cfg_repr(cfg):
    c = dict(cfg)
    if c.get('uuid'):
        c['uuid'] = list(c['uuid'])
    return c


ORACLES = {
    'C01': [lambda c, r, h, s: oracle_decode(c, 'C01', r, h, s)],
    'C02': [],
    'C03': [lambda c, r, h, s: oracle_decode(c, 'C03', r, h, s), oracle_discard_reason],
    'C04': [oracle_packets],
    'C05': [oracle_time],
    'C06': [oracle_protocol],
    'C07': [oracle_disabled],
    'C16': [oracle_flag],
}


def campaign(ctx, pid):
    import collections
    P = PARAMS[pid]
    ncfg, nh = P['q'] if ctx.quick else P['t']
    stats = collections.Counter()
    dist = collections.Counter()
    jobs = [(i, ctx.rng.getrandbits(48), pid, nh, ctx.scratch) for i in range(ncfg)]
    samples = []
    with ThreadPoolExecutor(max_workers=8) as ex:
        results = list(ex.map(run_one_config, jobs))
    for r in results:
        cfg, s = r['cfg'], r['s']
        dist['byte_order_' + cfg['bo']] += 1
        dist['native_known' if cfg['native_known'] else 'native_unknown'] += 1
        dist['clock' if s['clock'] else 'no_clock'] += 1
        dist['streams_%d' % len(cfg['streams'])] += 1
        for e in s['erts']:
            for st in (e['p'], e['sc'], s['cc']):
                for n, f in (st['members'] if st else []):
                    dist['member_' + f[0]] += 1
        if r['error']:
            kind, msg = r['error']
            stats['config_errors'] += 1
            if kind in ('tsdl', 'ops'):
                ctx.corr_broken.append('config seed %d: %s' % (r['seed'], msg[-300:]))
            elif kind == 'build':
                ctx.corr_broken.append('generated tracer of config seed %d does not build: %s' % (r['seed'], msg[-300:]))
            else:
                ctx.corr_broken.append('Coq model evaluation failed for config seed %d: %s' % (r['seed'], msg[-300:]))
            continue
        stats['configs'] += 1
        if r.get('ops_agree') is not True:
            stats['op_tree_disagreements'] += 1
            ctx.corr_broken.append('model of cgen._OpBuilder (Layout.Model.build) differs from the real operation trees: config seed %d' % r['seed'])
        else:
            stats['op_trees_agree'] += 1
        if r.get('tsdl_agree') is not True:
            stats['tsdl_disagreements'] += 1
            ctx.corr_broken.append('model of the TSDL generator (tstream_of_dst) differs from the parsed real metadata: config seed %d' % r['seed'])
        else:
            stats['tsdl_agree'] += 1
        if pid in ('C02', 'C03'):
            if r.get('probes') is None:
                ctx.corr_broken.append('config seed %d: %s' % (r['seed'], r.get('probe_error')))
            else:
                for pr in r['probes']:
                    stats['size_probes'] += 1
                    if pr['impl'] == pr['expected']:
                        continue
                    stats['size_probe_mismatches'] += 1
                    rep = {'config_seed': r['seed'], 'config': cfg_repr(cfg), 'stream': s['name'], 'event_record_type_index': pr['ert'],
                           'position_bits': pr['at'], 'argument_values': pr['vals'], 'size_function_returns': pr['impl'],
                           'bits_occupied_when_serialized_there': pr['expected']}
                    if stats['size_probe_mismatches'] <= 3:
                        if pr['impl'] < pr['expected'] and pid == 'C02':
                            ctx.violation('C02: the generated size function returns %d bits for a record that occupies %d bits when serialized '
                                          'from the same position (bit %d): the fit test accepts a record that is then written past the reserved space' % (
                                              pr['impl'], pr['expected'], pr['at']), rep)
                        elif pid == 'C03':
                            ctx.violation('C03: the generated size function returns %d bits for a record that occupies %d bits (position %d): records are '
                                          'discarded / accepted against the wrong size' % (pr['impl'], pr['expected'], pr['at']), rep)
            if r.get('rprobes') is None:
                ctx.corr_broken.append('config seed %d: %s' % (r['seed'], r.get('rprobe_error')))
            else:
                for pr in r['rprobes']:
                    stats['reserve_probes'] += 1
                    if tuple(pr['impl']) == tuple(pr['expected']):
                        continue
                    stats['reserve_probe_mismatches'] += 1
                    if stats['reserve_probe_mismatches'] <= 3:
                        iret, icb, idisc, iat = pr['impl']
                        eret, ecb, edisc, eat = pr['expected']
                        rep = dict(pr, config_seed=r['seed'], note='context fields set by hand, real _reserve_er_space() called with stub callbacks; '
                                   'expected = decision in unbounded arithmetic (fits iff at + er_size <= packet_size)')
                        if pid == 'C02' and iret == 1 and (eret == 0 or iat + pr['er_size'] > pr['packet_size']):
                            ctx.violation('C02: _reserve_er_space accepts a record of %d bits at position %d of a packet of %d bits (callbacks %r): '
                                          'the record is then written past the end of the buffer (32-bit arithmetic)' % (
                                              pr['er_size'], iat, pr['packet_size'], icb), rep)
                        else:
                            ctx.violation('%s: _reserve_er_space decides (return %d, callbacks %r, discards %d, position %d) where the record of %d bits at '
                                          'position %d of a %d-bit packet requires (return %d, callbacks %r, discards %d, position %d)' % (
                                              pid, iret, icb, idisc, iat, pr['er_size'], pr['at'], pr['packet_size'], eret, ecb, edisc, eat), rep)
        if pid == 'C02':
            if r.get('wprobes') is None:
                ctx.corr_broken.append('config seed %d: %s' % (r['seed'], r.get('wprobe_error')))
            else:
                for pr in r['wprobes']:
                    stats['wrap32_size_probes'] += 1
                    stats['wrap32_size_probes_that_wrap'] += 1 if pr['at'] + pr['true_size_bits'] >= 2 ** 32 else 0
                    if pr['impl'] == pr['model32']:
                        continue
                    stats['wrap32_size_probe_mismatches'] += 1
                    if stats['wrap32_size_probe_mismatches'] <= 3:
                        rep = {'config_seed': r['seed'], 'config': cfg_repr(cfg), 'stream': s['name'], 'event_record_type_index': pr['ert'],
                               'position_bits': pr['at'], 'argument_values': pr['vals'], 'size_function_returns': pr['impl'],
                               'model_er_size32': pr['model32'], 'bits_occupied_unbounded': pr['true_size_bits']}
                        if pr['impl'] < pr['true_size_bits'] and pr['model32'] == pr['true_size_bits'] % 2 ** 32 \
                                and pr['at'] + pr['true_size_bits'] < 2 ** 32:
                            ctx.violation('C02: the generated size function returns %d bits for a record that occupies %d bits when serialized '
                                          'from bit %d' % (pr['impl'], pr['true_size_bits'], pr['at']), rep)
                        else:
                            ctx.corr_broken.append('uint32 size pass (Layout/Wrap32.v size_op32) differs from the real _er_size function at '
                                                   'position %d: real %d, model %d (config seed %d)' % (pr['at'], pr['impl'], pr['model32'], r['seed']))
        if pid in ('C02', 'C03'):
            if r.get('sprobes') is None:
                ctx.corr_broken.append('config seed %d: %s' % (r['seed'], r.get('sprobe_error')))
            else:
                for pr in r['sprobes']:
                    stats['switch_probes'] += 1
                    stats['switch_probes_p_minus_q_multiple_of_64'] += 1 if (pr['p'] - pr['q']) % 64 == 0 else 0
                    if pr['impl'] == pr['expected']:
                        continue
                    stats['switch_probe_mismatches'] += 1
                    if stats['switch_probe_mismatches'] <= 3:
                        im = pr['impl']
                        rep = dict(pr, config_seed=r['seed'], config=cfg_repr(cfg), stream=s['name'],
                                   note='real init + real open_packet, then ctx->at set to p; the real tracing function is called with platform '
                                        'callbacks that call the real close_packet / open_packet; expected = layout arithmetic (the record '
                                        'needs size_at_q bits in the packet opened by the switch, which has packet_bits - q bits)')
                        if pid == 'C02' and (not im['bytes_after_buffer_untouched'] or im['at'] > im['packet_size']):
                            ctx.violation('C02: after a packet switch the record (%d bits at the old position %d, %d bits at the new position %d) is written to a '
                                          'packet of %d bits: position %d after the call, bytes after the buffer %s' % (
                                              pr['size_at_p'], pr['p'], pr['size_at_q'], pr['q'], pr['packet_bits'], im['at'],
                                              'untouched' if im['bytes_after_buffer_untouched'] else 'OVERWRITTEN'), rep)
                        else:
                            ctx.violation('%s: tracing call with a packet switch (record of %d bits at the old position %d, %d bits at the new position %d, '
                                          'packet of %d bits): expected %r, the generated tracer gives %r' % (
                                              pid, pr['size_at_p'], pr['p'], pr['size_at_q'], pr['q'], pr['packet_bits'], pr['expected'], im), rep)
        if pid == 'C16' and STORE_PROBE_OK:
            if r.get('store_probe') is None:
                ctx.corr_broken.append('config seed %d: %s' % (r['seed'], r.get('store_probe_error')))
            else:
                for hi, sp in enumerate(r['store_probe']):
                    h = r['hists'][hi]
                    if isinstance(sp, str):
                        # the probe run did not finish (e.g. a history in which the tracer writes outside every buffer)
                        stats['store_probe_runs_failed'] += 1
                        if stats['store_probe_runs_failed'] <= 3:
                            ctx.notes.append('store probe run failed: config seed %d history %d: %s' % (r['seed'], hi, sp[:160]))
                        continue
                    nst, nbad, first, toks = sp
                    stats['store_probe_histories'] += 1
                    stats['buffer_stores_observed'] += nst
                    if toks != list(r['impl'][hi][0]) and r['impl'][hi][1] is None:
                        stats['store_probe_log_differs'] += 1
                    if nbad:
                        stats['buffer_stores_with_flag_0'] += nbad
                        if stats['buffer_stores_with_flag_0'] == nbad or stats['store_probe_violations'] < 3:
                            stats['store_probe_violations'] += 1
                            ctx.violation('C16: %d of the %d stores into the packet buffer happen while the in-tracing-section flag reads 0 '
                                          '(first one during call %d: %r)' % (nbad, nst, first, h['calls'][first] if 0 <= first < len(h['calls']) else None),
                                          {'config_seed': r['seed'], 'history': hi, 'config': cfg_repr(cfg), 'calls': h['calls'], 'oracle': h['oracle'][:60],
                                           'buf_bytes': h['buf'], 'first_offending_call_index': first,
                                           'note': 'compiled generated tracer, packet buffers in a write-protected arena; the SIGSEGV handler samples '
                                                   'ctx->in_tracing_section at every store (mprotect + single step)'})
        for hi, h in enumerate(r['hists']):
            stats['histories'] += 1
            stats['calls'] += len(h['calls'])
            if h.get('eager'):
                stats['eager_platform_histories'] += 1
            if h.get('directed'):
                stats['directed_switch_resize_histories'] += 1
            verdict = compare_model(ctx, r, hi, stats)
            toks, err = r['impl'][hi]
            if verdict == 'memerr-silent':
                continue
            if err is not None:
                stats['histories_with_memory_error'] += 1
                cls = classify_memory_error(cfg, s, h, r['events'][hi])
                rep = {'config_seed': r['seed'], 'history': hi, 'config': cfg_repr(cfg), 'calls': h['calls'], 'oracle': h['oracle'][:60],
                       'buf_bytes': h['buf'], 'pcargs': h['pcargs'], 'sanitizer': err, 'classification': cls}
                if cls is not None:
                    stats[cls['kind'].split('-')[0] + '_instances'] += 1
                    if pid in ('C02', 'C03', 'C06'):
                        if cls['kind'] == S9:
                            ctx.finding(S9, 'event record size computed before a tracer-initiated packet switch is reused after it: '
                                            'sized %d bits at bit %d, needs %d bits at bit %d -> %s' % (
                                                cls['size_computed'], cls['at_when_sized'], cls['size_needed'], cls['at_when_written'], err[1][:80]), rep)
                        else:
                            ctx.finding(S18, 'the closing callback installed a smaller buffer during a tracer-initiated packet switch; the fit test done before '
                                             'the switch (packet of %d bits) is not redone: record of %d bits, new packet %d bits, content starts at %d -> %s' % (
                                                 cls['packet_size_when_checked'], cls['size_needed'], cls['packet_size_after_swap'], cls['at_when_written'], err[1][:80]), rep)
                else:
                    stats['unclassified_memory_errors'] += 1
                    ctx.notes.append('unclassified memory error: config seed %d history %d (%s)' % (r['seed'], hi, err[1][:100]))
                if cls is None and pid == 'C02':
                    ctx.violation('C02: the generated tracer accessed memory outside the packet buffer / executed an undefined operation: %s' % err[1][:160], rep)
                if cls is None and pid == 'C03':
                    ctx.violation('C03: a tracing call made while tracing was enabled is neither recorded inside a packet nor counted as discarded: '
                                  'the run stops inside the call (%s) - not one of the known S9 / S18 histories' % err[1][:120], rep)
                continue
            # a history in which the known findings S9 / S18 struck without a memory error (alignment
            # padding alone pushed ctx->at beyond packet_size: content size > packet size) is not
            # judged by the other oracles; it is reported under the properties that list the finding
            cls0 = classify_memory_error(cfg, s, h, r['events'][hi])
            rets0 = [e for e in r['events'][hi] if e[0] == 3]
            if cls0 is not None and any(e[1] > e[2] for e in rets0):
                stats['histories_with_position_beyond_packet_(S9/S18)'] += 1
                if pid in ('C02', 'C03', 'C06'):
                    ctx.finding(cls0['kind'], 'reservation not re-validated after a packet switch: the write position went beyond packet_size '
                                'through alignment padding (size %d bits computed at bit %d, %d bits needed at bit %d)' % (
                                    cls0['size_computed'], cls0['at_when_sized'], cls0['size_needed'], cls0['at_when_written']),
                                {'config_seed': r['seed'], 'history': hi, 'config': cfg_repr(cfg), 'calls': h['calls'],
                                 'oracle': h['oracle'][:60], 'buf_bytes': h['buf'], 'classification': cls0})
                continue
            for o in ORACLES[pid]:
                o(ctx, r, hi, stats)
            if len(samples) < 4 and hi == 0:
                samples.append({'config': cfg_repr(cfg), 'stream': s['name'], 'buf_bytes': h['buf'], 'calls': h['calls'][:6],
                                'oracle': h['oracle'][:6], 'impl_log_head': list(toks[:40])})
    if pid == 'C07':
        for r in results:
            if not r['error']:
                oracle_atomic(ctx, r, stats)
    s12 = None
    if pid == 'C02':
        # S12 on the real tracer: the witness of Props/C02.v C02_refuted_uint32_wrap (a dynamic array of 2^29 uint8
        # elements, 2^32 + 40 bits, traced into a 256-byte packet: the uint32 size pass returns 40, the reservation
        # succeeds, the serializer goes on past the buffer)
        s12 = tc.demo_s12(ctx.scratch)
        stats['s12_uint32_wrap_demonstrations'] += 1
        if s12.get('error'):
            ctx.notes.append('S12 demonstration did not run: %s' % s12['error'])
        elif s12.get('sanitizer') or s12.get('bytes_after_buffer_untouched') is False:
            ctx.finding(S12, 'a record of 2^32 + 40 bits (dynamic array of 2^29 uint8 elements) traced into a 256-byte packet is not discarded: '
                        'the uint32_t size pass wraps to 40 bits, _reserve_er_space accepts it and the serializer writes past the buffer (%s in %s)' % (
                            s12.get('sanitizer', 'bytes after the buffer overwritten'), s12.get('where', '?')),
                        dict(s12, configuration=tc.S12_CONFIG, call='barectf_ds_trace_ev(&ctx, 536870912, arr) after init + open_packet, 256-byte buffer',
                             model_witness='Props/C02.v C02_refuted_uint32_wrap'))
        elif s12.get('discarded') != 1:
            ctx.violation('C02/S12: a record of 2^32 + 40 bits traced into a 256-byte packet: expected one discard, got %r' % (s12,),
                          dict(s12, configuration=tc.S12_CONFIG))
    distinct = len({repr((cfg_repr(r['cfg']), h['calls'], h['oracle'][:20], h['buf'])) for r in results if not r['error'] for h in r['hists']})
    ctx.cov.update({
        'evaluations': stats['histories'],
        'distinct_nontrivial': distinct,
        'rule': 'random structured configurations (layout_gen.rand_cfg) x random histories of public API calls with scripted platform answers (C02, C03: plus up to two directed histories per configuration in which a packet switch changes the size of the record being written and only the size at the new position exceeds the new packet); every history runs on the compiled generated tracer (gcc -ansi, ASan+UBSan, exact-size heap buffers) and on the Coq tracer model (vm_compute); distinct = distinct (configuration, calls, oracle, buffer size); every history has >= 2 calls',
        'traces_validated_against_impl': stats['agree'] + stats['agree_on_error'],
        'model_impl_disagreements': stats['diff'],
        'stats': dict(stats),
        'input_distribution': dict(dist),
        'samples': samples,
    })
    return stats
