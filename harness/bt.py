"""Helpers around the real barectf generator in /repo (imported through PYTHONPATH)."""
import os
import sys
import warnings

from common import REPO, sh

warnings.filterwarnings('ignore')
if REPO not in sys.path:
    sys.path.insert(0, REPO)

import barectf  # noqa: E402
import barectf.config as bc  # noqa: E402
import barectf.cgen as bcgen  # noqa: E402

assert os.path.dirname(os.path.dirname(os.path.abspath(barectf.__file__))) == os.path.abspath(REPO), barectf.__file__


import threading
GEN_LOCK = threading.RLock()    # barectf generation is serialised (the op-tree capture patches a class attribute)


def generate(cfg, outdir):
    """Write the generated files of configuration `cfg` into outdir; returns {name: contents}."""
    os.makedirs(outdir, exist_ok=True)
    files = {}
    with GEN_LOCK:
        cg = barectf.CodeGenerator(cfg)
        gen = cg.generate_c_headers() + cg.generate_c_sources() + [cg.generate_metadata_stream()]
    for f in gen:
        files[f.name] = f.contents
        with open(os.path.join(outdir, f.name), 'w') as fh:
            fh.write(f.contents)
    return files


def simple_config(byte_order='le', unknown_native=False, prefix='barectf_', fprefix='barectf'):
    """Smallest configuration: one stream, one event with one uint8 payload member."""
    bo = bc.ByteOrder.LITTLE_ENDIAN if byte_order == 'le' else bc.ByteOrder.BIG_ENDIAN
    ert = bc.EventRecordType('ev', payload_field_type=bc.StructureFieldType(
        1, {'x': bc.StructureFieldTypeMember(bc.UnsignedIntegerFieldType(8))}))
    dst = bc.DataStreamType('default', {ert})
    cls = bc.TraceTypeWithUnknownNativeByteOrder if unknown_native else bc.TraceType
    tt = cls(bo, {dst})
    opts = bc.ConfigurationOptions(bc.ConfigurationCodeGenerationOptions(
        identifier_prefix=prefix, file_name_prefix=fprefix, default_data_stream_type=dst))
    return bc.Configuration(bc.Trace(tt), opts)


def cc(args, cwd, timeout=300, compiler='gcc'):
    rc, out = sh([compiler] + args, cwd=cwd, timeout=timeout)
    return rc, out
