"""Abstract configurations for the layout / tracer layers, and their four renderings:
the real barectf Configuration (through barectf's Python API), the Coq term of the model
configuration, the C glue driving the generated tracer, and argument values.

Abstract field type:  ('int', sg, size, al) | ('real', size, al) | ('str',) | ('sarr', n, ft) | ('darr', ft)
Abstract structure:   {'minal': a, 'members': [(name, ft)]}   (a dynamic array member `x` is preceded
                      by its length member `__x_len` = ('int', False, 32, 8), as config_parse_v3 does)
"""
import struct
import uuid as uuidm

import bt
from bt import bc

ALIGNS = [1, 1, 1, 2, 4, 8, 8, 8, 16, 32, 64, 128]
FOCUS_P = 0.25      # share of structures drawn from the focused layout generator
NAMES = ['a', 'b', 'c', 'dd', 'e_1', 'Foo', 'bar', 'x', 'y', 'zz', 'len', 'id_', 'ts', 'size', 'v', 'w',
         # names barectf itself uses for packet header / event header members: valid user member names
         'magic', 'uuid', 'stream_id', 'id', 'timestamp']


# ------------------------------------------------------------------ random generation
def rand_int_ft(rng, unsigned_only=False, small=False):
    size = rng.choice([1, 3, 5, 7, 8, 8, 13, 16, 16, 24, 31, 32, 32, 33, 48, 63, 64, 64, rng.randint(1, 64)])
    if small:
        size = rng.choice([3, 8, 8, 16, 32, 13])
    sg = False if unsigned_only else rng.random() < 0.4
    mode = rng.random()
    if not small and mode > 0.88:
        # boundary of the memcpy fast path of serialize-write-bit-array-statements.j2: a standard size (8, 16, 32, 64)
        # with an alignment below 8 bits, i.e. a field which may start inside a byte and must go through the bit-field macros
        return ('int', sg, rng.choice([8, 8, 16, 32, 64]), rng.choice([1, 1, 2, 4]))
    if mode < 0.45:
        al = 8 if size % 8 == 0 else 1          # barectf's default
    else:
        al = rng.choice(ALIGNS)
    return ('int', sg, size, al)


def rand_leaf_ft(rng):
    r = rng.random()
    if r < 0.6:
        return rand_int_ft(rng)
    if r < 0.75:
        size = rng.choice([32, 64])
        al = rng.choice([8, 8, size, size, 1, 16, 128, 4])
        return ('real', size, al)
    return ('str',)


def rand_ft(rng, depth=0, allow_dyn=True):
    r = rng.random()
    if depth < 3 and r < 0.22:
        n = rng.choice([0, 1, 2, 2, 3])
        return ('sarr', n, rand_ft(rng, depth + 1, False))
    if allow_dyn and depth == 0 and r < 0.36:
        e = rand_ft(rng, 1, False)
        return ('darr', e)
    return rand_leaf_ft(rng)


def rand_struct(rng, maxm=5, allow_empty=True):
    if FOCUS_P and rng.random() < FOCUS_P:
        return rand_struct_focus(rng)
    n = rng.randint(0 if allow_empty else 1, maxm)
    names = rng.sample(NAMES, n)
    members = []
    for nm in names:
        ft = rand_ft(rng)
        if ft[0] == 'darr':
            members.append(('__%s_len' % nm, ('int', False, 32, 8)))
        members.append((nm, ft))
    return {'minal': rng.choice([1, 1, 1, 8, 4, 32, 64]), 'members': members}


def rand_struct_focus(rng):
    """Layouts aimed at the statically tracked in-byte offset of the C generator: sub-byte members
    around (possibly empty) arrays whose elements have a byte-multiple alignment but a size that is
    not a multiple of 8, strings followed by sub-byte members, unaligned members after aligned ones."""
    def sub():
        return ('int', rng.random() < 0.4, rng.choice([1, 3, 5, 7, 11, 13]), rng.choice([1, 1, 1, 2, 4]))

    def odd_aligned():
        return ('int', rng.random() < 0.3, rng.choice([3, 5, 12, 17, 20, 33]), rng.choice([8, 8, 16, 32]))
    def std_unaligned():
        # standard size, alignment below a byte: looks like a memcpy candidate, must be bit-packed
        return ('int', rng.random() < 0.4, rng.choice([8, 8, 16, 32, 64]), rng.choice([1, 1, 2, 4]))
    names = rng.sample(NAMES, 6)
    members = []
    for nm in names[:rng.randint(3, 6)]:
        r = rng.random()
        if r < 0.3:
            members.append((nm, sub() if rng.random() < 0.6 else std_unaligned()))
        elif r < 0.5:
            members.append((nm, ('sarr', rng.choice([0, 0, 1, 2]), odd_aligned() if rng.random() < 0.6 else (sub() if rng.random() < 0.6 else std_unaligned()))))
        elif r < 0.7:
            members.append(('__%s_len' % nm, ('int', False, 32, 8)))
            members.append((nm, ('darr', odd_aligned() if rng.random() < 0.7 else sub())))
        elif r < 0.8:
            members.append((nm, ('str',)))
        elif r < 0.9:
            members.append((nm, odd_aligned()))
        else:
            members.append((nm, ('sarr', rng.choice([0, 1, 2]), ('sarr', rng.choice([0, 1, 2]), odd_aligned()))))
    return {'minal': rng.choice([1, 1, 8, 32]), 'members': members}


def rand_feature_ft(rng, minbits=8, default_p=0.5):
    """Feature field types are unsigned integers; sub-byte / unaligned ones included."""
    if rng.random() < default_p:
        return ('int', False, 64, 8)
    size = rng.choice([s for s in [8, 16, 32, 64, 12, 20, 27, 33, 40, 64, 5, 9] if s >= minbits])
    al = rng.choice([1, 8, 8, 16, 32, 2, 4]) if rng.random() < 0.6 else (8 if size % 8 == 0 else 1)
    return ('int', False, size, al)


def rand_cfg(rng, clock_p=0.5, nstreams=None, max_erts=3, unknown_native_p=0.3, rich=True, small_sizes_p=0.0):
    bo = 'be' if rng.random() < 0.35 else 'le'
    # a big-endian TraceType (known native order) cannot run on this little-endian host
    native_known = False if bo == 'be' else rng.random() > unknown_native_p
    nstreams = nstreams or rng.choice([1, 1, 1, 2])
    has_uuid = rng.random() < 0.5
    feats = {
        'magic': ('int', False, 32, rng.choice([8, 8, 32, 16])) if rng.random() < 0.7 else None,
        'uuid': has_uuid,
        'stream_id': rand_feature_ft(rng, 8) if (nstreams > 1 or rng.random() < 0.6) else None,
    }
    streams = []
    for si in range(nstreams):
        clock = None
        if rng.random() < clock_p:
            clock = {'name': 'clk%d' % si, 'ctype': rng.choice(['uint64_t', 'uint32_t', 'uint64_t', 'uint16_t', 'unsigned long long'])}
        nerts = rng.randint(1, max_erts)
        pf = {
            'total': rand_feature_ft(rng, 32), 'content': rand_feature_ft(rng, 32),
            'ts_begin': rand_feature_ft(rng, 16) if clock and rng.random() < 0.7 else None,
            'ts_end': rand_feature_ft(rng, 16) if clock and rng.random() < 0.7 else None,
            'disc': rand_feature_ft(rng, 8) if rng.random() < 0.7 else None,
            'seq': rand_feature_ft(rng, 8) if rng.random() < 0.6 else None,
        }
        ef = {
            'id': rand_feature_ft(rng, 8) if (nerts > 1 or rng.random() < 0.7) else None,
            'ts': rand_feature_ft(rng, 16) if clock and rng.random() < 0.75 else None,
        }
        pc_extra = []
        small_sizes = rng.random() < small_sizes_p
        if small_sizes:
            # total / content size field types of 13 ... 20 bits, bit-packed: the stated sizes then have set bits in
            # the partial last byte of the field, next to the following (late-written) member.  Buffers of such a
            # stream are capped by rand_history (cfg['small_sizes']) so that every size still fits its field
            pf['total'] = ('int', False, rng.choice([13, 14, 15, 17, 20]), rng.choice([1, 1, 2, 4, 8]))
            pf['content'] = ('int', False, rng.choice([13, 14, 15, 17, 20]), rng.choice([1, 1, 1, 2, 4]))
        if rich and rng.random() < 0.4 and not small_sizes:
            st = rand_struct(rng, 2)
            pc_extra = [(('u_' + n) if not n.startswith('__') else ('__u_' + n[2:]), f) for n, f in st['members']]
        erts = []
        for ei in range(nerts):
            erts.append({'name': 'ev%d' % ei,
                         'sc': rand_struct(rng, 3) if rich and rng.random() < 0.35 else None,
                         'p': rand_struct(rng, 5) if rng.random() < 0.9 else None})
        if not ef['id'] and not ef['ts']:
            # a valid event record type has at least one member (config_parse_v3._create_ert), and a
            # record of zero bits cannot be represented in a CTF stream (S13 in DESIGN.md): without
            # header members every event record type gets a sized payload member
            for e in erts:
                if e['p'] is None:
                    e['p'] = {'minal': 1, 'members': []}
                e['p']['members'].insert(0, ('k0', rand_int_ft(rng)))
        streams.append({'name': 'st%d' % si, 'clock': clock, 'pf': pf, 'ef': ef, 'pc_extra': pc_extra, 'small_sizes': small_sizes,
                        'cc': rand_struct(rng, 3) if rich and rng.random() < 0.35 else None, 'erts': erts})
    return {'bo': bo, 'native_known': native_known,
            'uuid': bytes(rng.randrange(256) for _ in range(16)) if has_uuid else None,
            'features': feats, 'streams': streams}


# ------------------------------------------------------------------ abstract -> barectf objects
def mk_ft(ft, lens):
    k = ft[0]
    if k == 'int':
        cls = bc.SignedIntegerFieldType if ft[1] else bc.UnsignedIntegerFieldType
        return cls(ft[2], ft[3])
    if k == 'real':
        return bc.RealFieldType(ft[1], ft[2])
    if k == 'str':
        return bc.StringFieldType()
    if k == 'sarr':
        return bc.StaticArrayFieldType(ft[1], mk_ft(ft[2], lens))
    if k == 'darr':
        return bc.DynamicArrayFieldType(lens.pop(), mk_ft(ft[1], lens))
    raise ValueError(ft)


def mk_members(members):
    import collections
    out = collections.OrderedDict()
    pending = []
    for name, ft in members:
        if name.startswith('__') and name.endswith('_len'):
            o = bc.UnsignedIntegerFieldType(ft[2], ft[3])
            pending.append(o)
            out[name] = bc.StructureFieldTypeMember(o)
        else:
            out[name] = bc.StructureFieldTypeMember(mk_ft(ft, pending))
    return out


def mk_struct(st):
    if st is None:
        return None
    return bc.StructureFieldType(st['minal'], mk_members(st['members']))


def mk_uint(ft):
    return None if ft is None else bc.UnsignedIntegerFieldType(ft[2], ft[3])


def to_barectf(cfg, prefix='barectf_', fprefix='barectf'):
    bo = bc.ByteOrder.LITTLE_ENDIAN if cfg['bo'] == 'le' else bc.ByteOrder.BIG_ENDIAN
    dsts, ctypes = set(), {}
    for s in cfg['streams']:
        clk = None
        if s['clock']:
            clk = bc.ClockType(s['clock']['name'])
            ctypes[clk] = s['clock']['ctype']
        erts = {bc.EventRecordType(e['name'], None, mk_struct(e['sc']), mk_struct(e['p'])) for e in s['erts']}
        pf = s['pf']
        feats = bc.DataStreamTypeFeatures(
            bc.DataStreamTypePacketFeatures(mk_uint(pf['total']), mk_uint(pf['content']), mk_uint(pf['ts_begin']),
                                            mk_uint(pf['ts_end']), mk_uint(pf['disc']), mk_uint(pf['seq'])),
            bc.DataStreamTypeEventRecordFeatures(mk_uint(s['ef']['id']), mk_uint(s['ef']['ts'])))
        dsts.add(bc.DataStreamType(s['name'], erts, clk, feats,
                                   mk_members(s['pc_extra']) if s['pc_extra'] else None, mk_struct(s['cc'])))
    f = cfg['features']
    tfeats = bc.TraceTypeFeatures(mk_uint(f['magic']),
                                  bc.DEFAULT_FIELD_TYPE if f['uuid'] else None, mk_uint(f['stream_id']))
    cls = bc.TraceType if cfg['native_known'] else bc.TraceTypeWithUnknownNativeByteOrder
    tt = cls(bo, dsts, uuidm.UUID(bytes=cfg['uuid']) if cfg['uuid'] else None, tfeats)
    opts = bc.ConfigurationOptions(bc.ConfigurationCodeGenerationOptions(
        identifier_prefix=prefix, file_name_prefix=fprefix, clock_type_c_types=ctypes))
    return bc.Configuration(bc.Trace(tt), opts)


# ------------------------------------------------------------------ derived structures (as config.py builds them)
def ph_struct(cfg):
    f = cfg['features']
    ms = []
    if f['magic']:
        ms.append(('magic', f['magic']))
    if f['uuid']:
        ms.append(('uuid', ('uuid',)))
    if f['stream_id']:
        ms.append(('stream_id', f['stream_id']))
    return {'minal': 8, 'members': ms}


def pc_struct(s):
    pf = s['pf']
    ms = [('packet_size', pf['total']), ('content_size', pf['content'])]
    for n, k in (('timestamp_begin', 'ts_begin'), ('timestamp_end', 'ts_end'), ('events_discarded', 'disc'),
                 ('packet_seq_num', 'seq')):
        if pf[k]:
            ms.append((n, pf[k]))
    return {'minal': 8, 'members': ms + list(s['pc_extra'])}


def eh_struct(s):
    ms = []
    if s['ef']['id']:
        ms.append(('id', s['ef']['id']))
    if s['ef']['ts']:
        ms.append(('timestamp', s['ef']['ts']))
    return {'minal': 8, 'members': ms}


def stream_ids(cfg):
    names = sorted(s['name'] for s in cfg['streams'])
    return {n: i for i, n in enumerate(names)}


def ert_ids(s):
    names = sorted(e['name'] for e in s['erts'])
    return {n: i for i, n in enumerate(names)}


CLOCK_BITS = {'uint8_t': 8, 'uint16_t': 16, 'uint32_t': 32, 'uint64_t': 64, 'unsigned long long': 64,
              'unsigned int': 32, 'unsigned long': 64}


# ------------------------------------------------------------------ Coq rendering
def coq_str(s):
    return '"%s"%%string' % s


def coq_ft(ft):
    k = ft[0]
    if k == 'int':
        return '(FInt %s %d %d)' % ('true' if ft[1] else 'false', ft[2], ft[3])
    if k == 'real':
        return '(FReal %d %d)' % (ft[1], ft[2])
    if k == 'str':
        return 'FStr'
    if k == 'uuid':
        return 'FUuid'
    if k == 'sarr':
        return '(FSArr %d %s)' % (ft[1], coq_ft(ft[2]))
    if k == 'darr':
        return '(FDArr %s %s)' % (coq_str(ft[2]) if len(ft) > 2 else coq_str('?'), coq_ft(ft[1]))
    raise ValueError(ft)


def with_len_names(members):
    """attach to every dynamic array its length member name (the preceding __x_len)"""
    out, last_len = [], None
    for n, f in members:
        if n.startswith('__') and n.endswith('_len'):
            last_len = n
            out.append((n, f))
        elif f[0] == 'darr':
            out.append((n, ('darr', f[1], last_len)))
        else:
            out.append((n, f))
    return out


def coq_struct(st):
    ms = with_len_names(st['members'])
    return '(mk_sft %d [%s])' % (st['minal'], '; '.join('(%s, %s)' % (coq_str(n), coq_ft(f)) for n, f in ms))


def coq_opt(x, f):
    return 'None' if x is None else '(Some %s)' % f(x)


def coq_val(v):
    if isinstance(v, tuple) and v[0] == 'str':
        return '(VStr [%s])' % '; '.join('%d%%Z' % b for b in v[1])
    if isinstance(v, list):
        return '(VArr [%s])' % '; '.join(coq_val(x) for x in v)
    return '(VInt (%d))' % v


def coq_dst(cfg, s):
    sid = stream_ids(cfg)[s['name']]
    ph = ph_struct(cfg)
    phv = []
    for n, _ in ph['members']:
        if n == 'magic':
            phv.append(0xc1fc1fc1)
        elif n == 'uuid':
            phv.append(list(cfg['uuid']))
        else:
            phv.append(sid)
    eids = ert_ids(s)
    erts = sorted(s['erts'], key=lambda e: eids[e['name']])
    erts_c = '; '.join('(mk_ert %d %s %s)' % (eids[e['name']], coq_opt(e['sc'], coq_struct), coq_opt(e['p'], coq_struct))
                       for e in erts)
    return '(mk_dst %s %s (Some %s) [%s] %s (Some %s) %s [%s] %s %d)' % (
        cfg['bo'].upper(), 'true' if cfg['native_known'] else 'false', coq_struct(ph),
        '; '.join(coq_val(v) for v in phv), coq_struct(pc_struct(s)), coq_struct(eh_struct(s)),
        coq_opt(s['cc'], coq_struct), erts_c, 'true' if s['clock'] else 'false',
        CLOCK_BITS[s['clock']['ctype']] if s['clock'] else 64)


# ------------------------------------------------------------------ argument values
def c_int_type(ft):
    size = ft[2]
    w = 8 if size <= 8 else 16 if size <= 16 else 32 if size <= 32 else 64
    return w, ft[1]


def rand_int_val(rng, ft):
    w, sg = c_int_type(ft)
    lo, hi = (-(1 << (w - 1)), (1 << (w - 1)) - 1) if sg else (0, (1 << w) - 1)
    r = rng.random()
    if r < 0.3:
        return rng.choice([lo, hi, 0, 1, hi - 1, lo + 1, -1 if sg else hi, (1 << (ft[2] - 1)) if not sg else -(1 << (ft[2] - 1))][:8])
    if r < 0.5:
        return rng.randint(max(lo, -300), min(hi, 300))
    return rng.randint(lo, hi)


def real_natural(ft):
    # documented C type of a real field type is float / double whatever its alignment
    # (S1 in DESIGN.md was repaired by a fix: commit; the harness follows the documentation)
    return True


def rand_val(rng, ft, maxlen=4):
    """Returns the model value.  Reals: the bit pattern that ends up in the union."""
    k = ft[0]
    if k == 'int':
        return rand_int_val(rng, ft)
    if k == 'real':
        if real_natural(ft):
            if rng.random() < 0.4:   # NaN / inf / denormal / zero patterns
                pats32 = [0x7fc00000, 0x7f800000, 0xff800000, 0x00000001, 0x80000000, 0x7fa00001, 0x3f800000]
                pats64 = [0x7ff8000000000000, 0x7ff0000000000000, 0xfff0000000000000, 1, 0x8000000000000000,
                          0x7ff4000000000001, 0x3ff0000000000000]
                return rng.choice(pats32 if ft[1] == 32 else pats64)
            return rng.getrandbits(ft[1])
        # S1: the parameter is uint64_t and is CONVERTED to float/double: pass a small exact integer
        kint = rng.randint(0, 1 << 20)
        if ft[1] == 32:
            return ('realconv', kint, struct.unpack('<I', struct.pack('<f', float(kint)))[0])
        return ('realconv', kint, struct.unpack('<Q', struct.pack('<d', float(kint)))[0])
    if k == 'str':
        n = rng.choice([0, 0, 1, 2, 3, 5, 8, 13, rng.randint(0, 40)])
        return ('str', [rng.choice([rng.randint(1, 127), rng.randint(128, 255)]) for _ in range(n)])
    if k == 'sarr':
        return [rand_val(rng, ft[2], maxlen) for _ in range(ft[1])]
    if k == 'darr':
        n = rng.choice([0, 1, 2, 3, maxlen])
        return [rand_val(rng, ft[1], maxlen) for _ in range(n)]
    raise ValueError(ft)


def rand_struct_vals(rng, st, maxlen=4):
    vals, by_name = [], {}
    ms = st['members']
    # dynamic array lengths first
    dyn = {}
    for n, f in ms:
        if f[0] == 'darr':
            dyn[n] = rand_val(rng, f, maxlen)
    out = []
    for i, (n, f) in enumerate(ms):
        if n.startswith('__') and n.endswith('_len') and n[2:-4] in dyn:
            out.append(len(dyn[n[2:-4]]))
        elif f[0] == 'darr':
            out.append(dyn[n])
        else:
            out.append(rand_val(rng, f, maxlen))
    return out


def model_val(v):
    """strip harness-only annotations: the Coq value"""
    if isinstance(v, tuple) and v[0] == 'realconv':
        return v[2]
    if isinstance(v, tuple) and v[0] == 'str':
        return v
    if isinstance(v, list):
        return [model_val(x) for x in v]
    return v


# ------------------------------------------------------------------ C rendering of arguments
class CArgs:
    """Collects static tables (arrays, pointer tables, float patterns) and renders call arguments."""

    def __init__(self):
        self.decls = []
        self.n = 0

    def fresh(self):
        self.n += 1
        return 't%d' % self.n

    def c_elem_type(self, ft):
        k = ft[0]
        if k == 'int':
            w, sg = c_int_type(ft)
            return '%sint%d_t' % ('' if sg else 'u', w)
        if k == 'real':
            if real_natural(ft):
                return 'float' if ft[1] == 32 else 'double'
            return 'uint64_t'
        if k == 'str':
            return 'const char *'
        if k in ('sarr', 'darr'):
            e = ft[2] if k == 'sarr' else ft[1]
            t = self.c_elem_type(e)
            return 'const %s *' % t if not t.endswith('*') else '%s const *' % t
        raise ValueError(ft)

    def lit(self, ft, v):
        k = ft[0]
        if k == 'int':
            w, sg = c_int_type(ft)
            if sg:
                if v == -(1 << 63):
                    return '(-9223372036854775807LL - 1)'
                return '((int%d_t) %dLL)' % (w, v)
            return '((uint%d_t) %dULL)' % (w, v)
        if k == 'real':
            if isinstance(v, tuple):
                return '((uint64_t) %dULL)' % v[1]
            name = self.fresh()
            if ft[1] == 32:
                self.decls.append('static const union { uint32_t u; float f; } %s = { 0x%xU };' % (name, v))
            else:
                self.decls.append('static const union { uint64_t u; double f; } %s = { 0x%xULL };' % (name, v))
            return '%s.f' % name
        if k == 'str':
            return '"%s"' % ''.join('\\%03o' % b for b in v[1])
        if k in ('sarr', 'darr'):
            e = ft[2] if k == 'sarr' else ft[1]
            name = self.fresh()
            et = self.c_elem_type(e)
            items = [self.lit(e, x) for x in v]
            if e[0] == 'real' and real_natural(e):
                # union members are not constant expressions: fill through a bit-pattern table
                ut = 'uint32_t' if e[1] == 32 else 'uint64_t'
                self.decls.append('static const %s %s_u[] = { %s 0 };' % (ut, name, ''.join('0x%xU%s, ' % (x, '' if e[1] == 32 else 'LL') for x in v)))
                return '((const %s *) (const void *) %s_u)' % (et, name)
            if not items:
                items = ['0']
            self.decls.append('static %s%s %s[] = { %s };' % ('' if et.endswith('*') else 'const ', et + (' const' if et.endswith('*') else ''), name, ', '.join(items)))
            return name
        raise ValueError(ft)


def c_call_args(ca, st, vals):
    """C argument list (strings) for the members of a structure, in member order."""
    return [ca.lit(f, v) for (n, f), v in zip(st['members'], vals)]


# ------------------------------------------------------------------ position arithmetic (harness-side helper)
def align_up(at, a):
    return (at + a - 1) // a * a


def ft_align(ft):
    k = ft[0]
    if k == 'int':
        return ft[3]
    if k == 'real':
        return ft[2]
    if k in ('str', 'uuid'):
        return 8
    return ft_align(ft[2] if k == 'sarr' else ft[1])


def struct_align(st):
    return max([st['minal']] + [ft_align(f) for _, f in st['members']])


def end_of(ft, v, at):
    """position after writing value v of field type ft starting at `at` (layout arithmetic only)"""
    k = ft[0]
    if k == 'int':
        return align_up(at, ft[3]) + ft[2]
    if k == 'real':
        return align_up(at, ft[2]) + ft[1]
    if k == 'uuid':
        return align_up(at, 8) + 128
    if k == 'str':
        return align_up(at, 8) + 8 * (len(v[1]) + 1)
    e = ft[2] if k == 'sarr' else ft[1]
    at = align_up(at, ft_align(ft))
    for x in v:
        at = end_of(e, x, at)
    return at


def struct_end(st, vals, at):
    at = align_up(at, struct_align(st))
    for (n, f), v in zip(st['members'], vals):
        at = end_of(f, v, at)
    return at


def header_bits(cfg, s, pcargs):
    ph = ph_struct(cfg)
    at = struct_end(ph, [0 if f[0] != 'uuid' else [0] * 16 for _, f in ph['members']], 0)
    pc = pc_struct(s)
    nfeat = len(pc['members']) - len(s['pc_extra'])
    return struct_end(pc, [0] * nfeat + list(pcargs), at)


def record_end(cfg, s, e, vals, at):
    """end position of an event record written from `at` (vals: user scope values)"""
    eh = eh_struct(s)
    at = struct_end(eh, [0] * len(eh['members']), at)
    for st, v in zip([x for x in (s['cc'], e['sc'], e['p']) if x is not None], vals):
        at = struct_end(st, v, at)
    return at
