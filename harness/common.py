"""Shared machinery of the barectf verification checks.

Stages (see DESIGN.md 2.4): gen (translators) -> coq build -> audit ->
correspondence / oracle (per property module) -> verdict + evidence.
"""
import fcntl
import hashlib
import json
import os
import random
import re
import shutil
import subprocess
import sys
import tempfile
import time

VERIF = os.path.dirname(os.path.dirname(os.path.abspath(__file__)))
REPO = os.environ.get('VERIF_REPO', '/repo')
COQ = os.path.join(VERIF, 'coq')
THEORIES = os.path.join(COQ, 'theories')
GEN = os.path.join(THEORIES, 'Gen')
BUILD = os.path.join(VERIF, 'build')
OUT = os.path.join(VERIF, 'out')
PY = '/venv/bin/python'
NCPU = 16

ENV = dict(os.environ)
ENV['PYTHONPATH'] = REPO
ENV.setdefault('PYTHONHASHSEED', '0')
ENV['PYTHONWARNINGS'] = 'ignore'
ENV['EFFICIOS_BARECTF_VERIF'] = '1'

TRUSTED_BASE = [
    'Coq 8.16.1 kernel (coqc), including vm_compute (used for finite sweeps and for evaluating models on correspondence cases); native_compute is not used',
    'no axiom declared by the development; Print Assumptions output of each property theorem is recorded below (expected: Closed under the global context)',
    'translators in /verif/tools (yaml2coq.py, j2coq.py, cdecl_scan.py, py2coq.py, c2coq.py, opt2coq.py) and the PyYAML / Jinja2 / Python ast parsers under them',
    'correspondence harness in /verif/harness (generators, C drivers, comparators); gcc/clang, libc, the x86-64 CPU',
    'hand-written Gallina models are tied to /repo only by the correspondence runs reported in this file',
]

GREP_GATE = re.compile(
    r'\b(Admitted|admit|Axiom|Axioms|Parameter|Parameters|Conjecture|Admit Obligations|'
    r'Unset Guard Checking|Unset Positivity Checking|Unset Universe Checking|bypass_check|'
    r'native_compute|type-in-type|impredicative-set)\b')
AXIOM_WHITELIST = {
    'functional_extensionality_dep', 'proof_irrelevance', 'classic', 'JMeq_eq',
    'Eqdep.Eq_rect_eq.eq_rect_eq', 'eq_rect_eq',
}


def sh(cmd, timeout=600, cwd=None, env=None, input=None):
    """Run a command; returns (rc, stdout+stderr)."""
    try:
        p = subprocess.run(cmd, shell=isinstance(cmd, str), cwd=cwd, env=env or ENV,
                           stdout=subprocess.PIPE, stderr=subprocess.STDOUT,
                           timeout=timeout, input=input, text=True)
        return p.returncode, p.stdout
    except subprocess.TimeoutExpired as e:
        out = e.stdout or ''
        if isinstance(out, bytes):
            out = out.decode('utf-8', 'replace')
        return 124, out + '\n[timeout after %ss]' % timeout


def write_if_changed(path, text):
    os.makedirs(os.path.dirname(path), exist_ok=True)
    try:
        with open(path) as f:
            if f.read() == text:
                return False
    except FileNotFoundError:
        pass
    with open(path, 'w') as f:
        f.write(text)
    return True


class Lock:
    def __init__(self, name='build'):
        os.makedirs(BUILD, exist_ok=True)
        self.path = os.path.join(BUILD, '.%s.lock' % name)

    def __enter__(self):
        self.f = open(self.path, 'w')
        fcntl.flock(self.f, fcntl.LOCK_EX)
        return self

    def __exit__(self, *a):
        fcntl.flock(self.f, fcntl.LOCK_UN)
        self.f.close()


# ---------------------------------------------------------------- translators

def run_translators():
    """Regenerate coq/theories/Gen/*.v from /repo.  Returns {name: None | error}."""
    status = {}
    tools = os.path.join(VERIF, 'tools')
    for tool, outs in TRANSLATORS:
        path = os.path.join(tools, tool)
        if not os.path.exists(path):
            continue
        rc, out = sh([PY, '-W', 'ignore', path, REPO, GEN], timeout=300)
        err = None if rc == 0 else out.strip().splitlines()[-1:] and out.strip()[-2000:]
        for o in outs:
            status[o] = err
            if err is not None:
                # fail closed: a Gen file that cannot be regenerated must not keep
                # an older translation alive
                stub = '(* translator %s failed: see check output *)\nDefinition translation_failed_%s := tt.\n' % (tool, o)
                write_if_changed(os.path.join(GEN, o + '.v'), stub)
    return status


TRANSLATORS = [
    ('yaml2coq.py', ['Schemas3', 'Schemas2']),
    ('j2coq.py', ['TemplatePlan', 'MetaGuards']),
    ('cdecl_scan.py', ['Decls']),
    ('py2coq.py', ['PyFuns', 'Consts']),
    ('c2coq.py', ['CSkelFuns']),
    ('opt2coq.py', ['OpTemplates']),
]


# ---------------------------------------------------------------- coq build

def all_v_files():
    res = []
    for root, _, files in os.walk(THEORIES):
        for f in sorted(files):
            if f.endswith('.v'):
                res.append(os.path.relpath(os.path.join(root, f), COQ))
    return sorted(res)


def coq_build(timeout=3000):
    """Full .vo build of the development (make -k).  Returns (ok_files, failed, log)."""
    files = all_v_files()
    proj = '-Q theories BT\n' + '\n'.join(files) + '\n'
    changed = write_if_changed(os.path.join(COQ, '_CoqProject'), proj)
    if changed or not os.path.exists(os.path.join(COQ, 'Makefile')):
        rc, out = sh('coq_makefile -f _CoqProject -o Makefile', cwd=COQ, timeout=120)
        if rc != 0:
            return [], files, out
    rc, out = sh('timeout %d make -k -j%d 2>&1' % (timeout, NCPU), cwd=COQ, timeout=timeout + 30)
    # a target is good only if make considers it up to date (stale .vo files of
    # dependents of a failed file do not count)
    rc2, dry = sh('make -n -k 2>&1', cwd=COQ, timeout=120)
    stale = set(re.findall(r'(theories/[A-Za-z0-9_/]+\.v)\b', dry))
    ok, failed = [], []
    for f in files:
        vo = os.path.join(COQ, f[:-2] + '.vo')
        if os.path.exists(vo) and f not in stale:
            ok.append(f)
        else:
            failed.append(f)
    return ok, failed, out


def coq_cone(vfile):
    """Transitive dependencies (project .v files) of a theory file, via coqdep."""
    rc, out = sh('coqdep -Q theories BT ' + ' '.join(all_v_files()), cwd=COQ, timeout=120)
    deps = {}
    for line in out.splitlines():
        m = re.match(r'^(\S+)\.vo\b[^:]*:\s*(.*)$', line)
        if not m:
            continue
        tgt = m.group(1) + '.v'
        ds = [d[:-3] + '.v' for d in m.group(2).split() if d.endswith('.vo')]
        deps[tgt] = ds
    seen, todo = [], [vfile]
    while todo:
        f = todo.pop()
        if f in seen:
            continue
        seen.append(f)
        todo.extend(deps.get(f, []))
    return sorted(seen)


STMT = re.compile(r'^\s*(Theorem|Lemma|Corollary|Example|Fact|Proposition|Remark)\s+([A-Za-z0-9_\']+)', re.M)


def count_statements(files):
    n, names = 0, []
    for f in files:
        with open(os.path.join(COQ, f)) as fh:
            txt = fh.read()
        for m in STMT.finditer(txt):
            n += 1
            names.append(m.group(2))
    return n, names


def grep_gate(files):
    bad = []
    for f in files:
        with open(os.path.join(COQ, f)) as fh:
            for i, line in enumerate(fh, 1):
                code = re.sub(r'\(\*.*?\*\)', '', line)
                if GREP_GATE.search(code):
                    bad.append('%s:%d: %s' % (f, i, line.strip()))
    return bad


def print_assumptions(props_file):
    """Re-run coqc on a Props file (tiny) and parse every Print Assumptions block.
    Returns (ok, {theorem: text}, raw)."""
    tmp = tempfile.mkdtemp(prefix='bverif-pa-')
    try:
        rc, out = sh(['coqc', '-Q', 'theories', 'BT', '-o', os.path.join(tmp, os.path.basename(props_file)[:-2] + '.vo'), props_file],
                     cwd=COQ, timeout=600)
    finally:
        shutil.rmtree(tmp, ignore_errors=True)
    with open(os.path.join(COQ, props_file)) as fh:
        src = fh.read()
    wanted = re.findall(r'Print Assumptions\s+([A-Za-z0-9_\']+)\s*\.', src)
    blocks, res = re.split(r'(?m)^(?=Closed under the global context|Axioms:)', out), {}
    blocks = [b for b in blocks if b.startswith('Closed under') or b.startswith('Axioms:')]
    ok = rc == 0 and len(blocks) == len(wanted) and len(wanted) > 0
    for name, b in zip(wanted, blocks):
        res[name] = b.strip()
        if b.startswith('Axioms:'):
            axs = re.findall(r'(?m)^([A-Za-z0-9_\.\']+)\s*:', b[len('Axioms:'):])
            for a in axs:
                if a not in AXIOM_WHITELIST and a.split('.')[-1] not in AXIOM_WHITELIST:
                    ok = False
    return ok, res, out


def run_cases_v(name, body, scratch, timeout=900):
    """Compile a generated cases file against the built development; returns (rc, stdout)."""
    path = os.path.join(scratch, name + '.v')
    with open(path, 'w') as f:
        f.write(body)
    rc, out = sh('ulimit -s unlimited; coqc -Q %s BT %s' % (THEORIES, path),
                 cwd=scratch, timeout=timeout)
    return rc, out


def parse_bool_list(out):
    """Parse the result of `Eval vm_compute in (l : list bool)` printed by coqc."""
    m = re.search(r'=\s*\[(.*?)\]\s*:\s*list bool', out, re.S)
    if not m:
        return None
    body = m.group(1).strip()
    if not body:
        return []
    return [t.strip() == 'true' for t in body.split(';')]


# ---------------------------------------------------------------- known findings

def load_known():
    p = os.path.join(VERIF, 'known_findings.json')
    if not os.path.exists(p):
        return {'findings': [], 'fixed': []}
    with open(p) as f:
        return json.load(f)


# ---------------------------------------------------------------- context

class Ctx:
    def __init__(self, pid, tier, seed, replay=None):
        self.pid, self.tier, self.seed, self.replay = pid, tier, seed, replay
        self.rng = random.Random(seed)
        self.scratch = tempfile.mkdtemp(prefix='bverif-%s-' % pid)
        self.cov = {}
        self.violations = []      # (what, replay dict, found_input)
        self.known_hits = []
        self.notes = []
        self.t0 = time.time()
        self.known = [k for k in load_known().get('findings', []) if k.get('property') == pid]
        self.proof_broken = []    # names of theorems / files that no longer check
        self.corr_broken = []     # names of correspondences that disagree
        self.obligations = 0
        self.discharged = 0
        self.assumptions = {}
        self.translators = {}

    quick = property(lambda s: s.tier == 'quick')

    def pick(self, q, t):
        return q if self.tier == 'quick' else t

    def violation(self, what, replay, found_input=True):
        self.violations.append((what, replay, found_input))

    def finding(self, key, what, replay):
        """A deviation keyed by a finding identifier: KNOWN-FINDING if listed, VIOLATION otherwise."""
        for k in self.known:
            if k.get('key') == key:
                if key not in [h[0] for h in self.known_hits]:
                    self.known_hits.append((key, k.get('what', what)))
                return True
        self.violation(what, dict(replay, finding_key=key))
        return False

    def cleanup(self):
        shutil.rmtree(self.scratch, ignore_errors=True)


def finish(ctx, level='proof', checker_cmd=None, extra_assumptions=None):
    """Write evidence, print verdict lines, return exit code."""
    os.makedirs(os.path.join(VERIF, 'evidence'), exist_ok=True)
    os.makedirs(os.path.join(OUT, 'replays'), exist_ok=True)
    rc = 0
    lines = []
    for key, what in ctx.known_hits:
        lines.append('KNOWN-FINDING: property=%s %s: %s' % (ctx.pid, key, what))
    # a broken proof / correspondence with no concrete failing input
    concrete = [v for v in ctx.violations if v[2]]
    if (ctx.proof_broken or ctx.corr_broken) and not concrete:
        ctx.violations.append(('proof or correspondence no longer checks: %s' %
                               ', '.join(ctx.proof_broken + ctx.corr_broken),
                               {'unchecked': ctx.proof_broken + ctx.corr_broken,
                                'notes': ctx.notes[-20:]}, False))
    for i, (what, replay, found) in enumerate(ctx.violations):
        rp = os.path.join(OUT, 'replays', '%s-%d.json' % (ctx.pid, i))
        with open(rp, 'w') as f:
            json.dump({'property': ctx.pid, 'what': what, 'seed': ctx.seed, 'tier': ctx.tier,
                       'replay': replay,
                       'unchecked': ctx.proof_broken + ctx.corr_broken}, f, indent=1, default=str)
        tail = '' if found else ' no-failing-input-found'
        lines.append('VIOLATION property=%s replay=%s %s%s' % (ctx.pid, rp, what.replace('\n', ' ')[:300], tail))
        rc = 1
        if i >= 19:
            break
    cov = dict(ctx.cov)
    cov.setdefault('obligations', ctx.obligations)
    cov.setdefault('discharged', ctx.discharged)
    cov.setdefault('checker_cmd', checker_cmd or 'cd /verif/coq && coq_makefile -f _CoqProject -o Makefile && make -j16 (full .vo build) ; coqc Props/%s.v (Print Assumptions)' % ctx.pid)
    cov.setdefault('trusted_base', TRUSTED_BASE)
    cov['print_assumptions'] = ctx.assumptions
    cov['translators'] = {k: ('ok' if v is None else 'FAILED: ' + str(v)[:300]) for k, v in ctx.translators.items()}
    cov['proof_broken'] = ctx.proof_broken
    cov['correspondence_broken'] = ctx.corr_broken
    cov['known_findings_seen'] = [k for k, _ in ctx.known_hits]
    cov.setdefault('samples', [])
    ev = {
        'property_id': ctx.pid, 'tier': ctx.tier, 'seed': ctx.seed, 'level': level,
        'coverage': cov,
        'assumptions': (extra_assumptions or []) + ctx.notes[:40],
        'wall_s': round(time.time() - ctx.t0, 2),
        'violations': len(ctx.violations),
    }
    with open(os.path.join(VERIF, 'evidence', ctx.pid + '.json'), 'w') as f:
        json.dump(ev, f, indent=1, default=str)
    for l in lines:
        print(l)
    print('%s: %s (obligations %d/%d, wall %.1fs)' % (
        ctx.pid, 'OK' if rc == 0 else 'FAILED', ctx.discharged, ctx.obligations, time.time() - ctx.t0))
    sys.stdout.flush()
    return rc


def prepare(ctx, props_file=None):
    """gen + coq build + audit for one property.  Fills ctx.obligations etc."""
    props_file = props_file or 'theories/Props/%s.v' % ctx.pid
    with Lock():
        ctx.translators = run_translators()
        ok, failed, log = coq_build()
    cone = coq_cone(props_file)
    n, names = count_statements(cone)
    ctx.obligations = n
    broken = [f for f in cone if f in failed]
    for g, err in ctx.translators.items():
        if err is not None and ('theories/Gen/%s.v' % g) in cone:
            ctx.proof_broken.append('translator for Gen/%s failed (fail-closed): %s' % (g, str(err)[-300:]))
    if broken:
        # name the first failing file and the error coqc printed for it
        for f in broken:
            m = re.search(r'File "\./%s", line (\d+).*?\n(.*?)(?=\nmake|\nCOQC|\Z)' % re.escape(f), log, re.S)
            if m:
                ctx.proof_broken.append('%s line %s: %s' % (f, m.group(1), ' '.join(m.group(2).split())[:400]))
            elif not any(d in broken for d in coq_cone(f) if d != f):
                ctx.proof_broken.append('%s does not compile' % f)
        if not ctx.proof_broken:
            ctx.proof_broken.append('%s does not compile' % broken[0])
        okfiles = [f for f in cone if f not in broken]
        ctx.discharged = count_statements(okfiles)[0]
    else:
        ctx.discharged = n
        gate = grep_gate(cone)
        if gate:
            ctx.proof_broken.append('grep gate: ' + '; '.join(gate[:5]))
        okpa, res, raw = print_assumptions(props_file)
        ctx.assumptions = res
        if not okpa:
            ctx.proof_broken.append('Print Assumptions audit failed for %s: %s' % (props_file, raw[-500:]))
    ctx.cov['cone_files'] = cone
    return not ctx.proof_broken
