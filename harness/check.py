#!/venv/bin/python
"""./check <ID> [--tier quick|thorough] [--replay FILE]   |   ./check --setup"""
import argparse
import importlib
import os
import sys
import traceback

sys.path.insert(0, os.path.dirname(os.path.abspath(__file__)))
import common  # noqa: E402


def main():
    ap = argparse.ArgumentParser()
    ap.add_argument('pid', nargs='?')
    ap.add_argument('--tier', default=os.environ.get('VERIF_TIER', 'quick'))
    ap.add_argument('--replay')
    ap.add_argument('--setup', action='store_true')
    a = ap.parse_args()
    if a.setup:
        with common.Lock():
            st = common.run_translators()
            ok, failed, log = common.coq_build()
        for k, v in st.items():
            print('translator %s: %s' % (k, 'ok' if v is None else 'FAILED ' + str(v)[-300:]))
        print('coq: %d files built, %d failed' % (len(ok), len(failed)))
        if failed:
            print(log[-3000:])
            print('failed:', failed)
        return 1 if failed or any(v is not None for v in st.values()) else 0
    seed = int(os.environ.get('VERIF_SEED', '20261001'))
    tier = a.tier if a.tier in ('quick', 'thorough') else 'quick'
    ctx = common.Ctx(a.pid, tier, seed, a.replay)
    try:
        mod = importlib.import_module('props.' + a.pid.lower())
        try:
            mod.run(ctx)
        except Exception:
            tb = traceback.format_exc()
            print(tb)
            ctx.corr_broken.append('check harness raised: ' + tb.strip().splitlines()[-1])
            ctx.notes.append(tb[-1500:])
        level = getattr(mod, 'LEVEL', 'proof')
        return common.finish(ctx, level=level)
    finally:
        ctx.cleanup()


if __name__ == '__main__':
    sys.exit(main())
