"""A small recursive-descent parser for CTF 1.8 TSDL metadata (text form), written from the
specification (CTF 1.8, section 7 and appendix C) -- it shares nothing with barectf.

    doc = tsdl.parse(text)              # raises TsdlError on anything outside the grammar
    doc.blocks                          # [Block] in file order
    doc.block('trace') / doc.all('clock') / doc.all('stream') / doc.all('event')
    blk.attrs['byte_order']             # attribute values: int | Str | Ident
    blk.types['packet.header']          # type assignments (`name := type;`): Type objects

AST
    Block(kind, attrs, types, items)    kind: trace | env | clock | stream | event | callsite
                                        items: [(name, value-or-type)] in source order
    Str(str)                            string literal, decoded
    Ident(str)                          unquoted word(s): le, native, true, clock.clk.value, UTF8
    Integer(attrs) FloatingPoint(attrs) String(attrs)         attrs: {name: int | Str | Ident}
    Struct(fields, align, name)         fields: [Field(name, type)]
    Enum(container, entries, name)      entries: [(label: str, lo: int, hi: int)]
    Variant(tag, fields, name)
    Array(elem, length: int)            `T name[4]`
    Sequence(elem, length: str)         `T name[len_field]`
    TypeRef(name)                       reference to an alias (e.g. `uint32_t`)
Nested declarators `T x[2][n]` give Array(Sequence(T, 'n'), 2): outermost dimension first, as
CTF defines it.  Type aliases (`typealias T := name;`, `typedef`) are recorded in doc.aliases.

String literals follow appendix C.1.5 (C99 6.4.5): a raw new-line inside a literal is an error;
parse(text, strict=False) accepts it and records a warning in doc.warnings instead.
"""
import collections
import re


class TsdlError(Exception):
    def __init__(self, msg, line=None):
        super().__init__('%s (line %s)' % (msg, line) if line else msg)
        self.msg, self.line = msg, line


class Str(str):
    pass


class Ident(str):
    pass


Field = collections.namedtuple('Field', 'name type')


class Type:
    def __repr__(self):
        return '%s(%s)' % (type(self).__name__, ', '.join('%s=%r' % kv for kv in self.__dict__.items()))

    def __eq__(self, other):
        return type(self) is type(other) and self.__dict__ == other.__dict__


class Integer(Type):
    def __init__(self, attrs):
        self.attrs = attrs


class FloatingPoint(Type):
    def __init__(self, attrs):
        self.attrs = attrs


class String(Type):
    def __init__(self, attrs):
        self.attrs = attrs


class Struct(Type):
    def __init__(self, fields, align=None, name=None):
        self.fields, self.align, self.name = fields, align, name


class Enum(Type):
    def __init__(self, container, entries, name=None):
        self.container, self.entries, self.name = container, entries, name


class Variant(Type):
    def __init__(self, tag, fields, name=None):
        self.tag, self.fields, self.name = tag, fields, name


class Array(Type):
    def __init__(self, elem, length):
        self.elem, self.length = elem, length


class Sequence(Type):
    def __init__(self, elem, length):
        self.elem, self.length = elem, length


class TypeRef(Type):
    def __init__(self, name):
        self.name = name


class Block:
    def __init__(self, kind, line):
        self.kind, self.line = kind, line
        self.attrs = collections.OrderedDict()
        self.types = collections.OrderedDict()
        self.items = []

    def __repr__(self):
        return 'Block(%s, attrs=%r, types=%r)' % (self.kind, dict(self.attrs), list(self.types))


class Document:
    def __init__(self):
        self.blocks, self.aliases, self.warnings = [], collections.OrderedDict(), []

    def all(self, kind):
        return [b for b in self.blocks if b.kind == kind]

    def block(self, kind):
        bs = self.all(kind)
        if len(bs) != 1:
            raise TsdlError('expected exactly one %s block, found %d' % (kind, len(bs)))
        return bs[0]


# ----------------------------------------------------------------------------- lexer

TOKEN_RE = re.compile(r'''
    (?P<ws>[ \t\r\n]+)
  | (?P<comment>/\*.*?\*/|//[^\n]*)
  | (?P<id>[A-Za-z_][A-Za-z0-9_]*)
  | (?P<int>0[xX][0-9a-fA-F]+|[0-9]+)(?P<suffix>[uUlL]*)
  | (?P<str>L?")
  | (?P<chr>L?')
  | (?P<punct>:=|\.\.\.|->|[{};:=,.\[\]()<>+\-*])
''', re.S | re.X)

SIMPLE_ESC = {"'": 39, '"': 34, '?': 63, '\\': 92, 'a': 7, 'b': 8, 'f': 12, 'n': 10, 'r': 13, 't': 9, 'v': 11}


def read_string(text, i, quote, strict, warnings, line):
    """text[i] is the first character after the opening quote; returns (decoded, next index)."""
    out = []
    n = len(text)
    while True:
        if i >= n:
            raise TsdlError('unterminated string literal', line)
        c = text[i]
        if c == quote:
            return ''.join(out), i + 1
        if c == '\n':
            if strict:
                raise TsdlError('new-line character inside a string literal', line)
            warnings.append('new-line character inside a string literal (line %d)' % line)
            out.append(c)
            i += 1
            continue
        if c != '\\':
            out.append(c)
            i += 1
            continue
        i += 1
        if i >= n:
            raise TsdlError('unterminated escape sequence', line)
        e = text[i]
        if e in SIMPLE_ESC:
            out.append(chr(SIMPLE_ESC[e]))
            i += 1
        elif e in '01234567':
            j = i
            while j < n and j < i + 3 and text[j] in '01234567':
                j += 1
            out.append(chr(int(text[i:j], 8)))
            i = j
        elif e == 'x':
            j = i + 1
            while j < n and text[j] in '0123456789abcdefABCDEF':
                j += 1
            if j == i + 1:
                raise TsdlError('\\x without hexadecimal digits', line)
            out.append(chr(int(text[i + 1:j], 16)))
            i = j
        elif e in 'uU':
            k = 4 if e == 'u' else 8
            h = text[i + 1:i + 1 + k]
            if len(h) != k or any(ch not in '0123456789abcdefABCDEF' for ch in h):
                raise TsdlError('malformed universal character name', line)
            out.append(chr(int(h, 16)))
            i += 1 + k
        else:
            raise TsdlError('unknown escape sequence \\%s' % e, line)


def lex(text, strict, warnings):
    toks = []
    i, n, line = 0, len(text), 1
    while i < n:
        m = TOKEN_RE.match(text, i)
        if not m:
            raise TsdlError('unexpected character %r' % text[i], line)
        kind = m.lastgroup
        if kind == 'suffix':
            kind = 'int'
        if m.group('ws') is not None or m.group('comment') is not None:
            line += m.group(0).count('\n')
            i = m.end()
            continue
        if m.group('str') is not None:
            s, j = read_string(text, m.end(), '"', strict, warnings, line)
            toks.append(('str', s, line))
            line += text[i:j].count('\n')
            i = j
            continue
        if m.group('chr') is not None:
            s, j = read_string(text, m.end(), "'", strict, warnings, line)
            if len(s) != 1:
                raise TsdlError('character constant of length %d' % len(s), line)
            toks.append(('int', ord(s), line))
            i = j
            continue
        if m.group('id') is not None:
            toks.append(('id', m.group('id'), line))
        elif m.group('int') is not None:
            t = m.group('int')
            if t.lower().startswith('0x'):
                v = int(t, 16)
            elif len(t) > 1 and t.startswith('0'):
                if any(c in '89' for c in t):
                    raise TsdlError('malformed octal constant %s' % t, line)
                v = int(t, 8)
            else:
                v = int(t)
            toks.append(('int', v, line))
        else:
            toks.append(('p', m.group('punct'), line))
        i = m.end()
    toks.append(('eof', None, line))
    return toks


# ----------------------------------------------------------------------------- parser

BLOCKS = ('trace', 'env', 'clock', 'stream', 'event', 'callsite')
TYPE_KW = ('integer', 'floating_point', 'string', 'struct', 'enum', 'variant')
C_TYPE_WORDS = ('void', 'char', 'short', 'int', 'long', 'float', 'double', 'signed', 'unsigned', '_Bool', '_Complex', '_Imaginary', 'const')


class Parser:
    def __init__(self, text, strict=True):
        self.doc = Document()
        self.toks = lex(text, strict, self.doc.warnings)
        self.i = 0

    # --- token helpers
    @property
    def tok(self):
        return self.toks[self.i]

    def err(self, msg):
        raise TsdlError(msg + ', found %r' % (self.tok[1],), self.tok[2])

    def at(self, kind, val=None):
        t = self.tok
        return t[0] == kind and (val is None or t[1] == val)

    def accept(self, kind, val=None):
        if self.at(kind, val):
            self.i += 1
            return self.toks[self.i - 1][1]
        return None

    def expect(self, kind, val=None):
        if not self.at(kind, val):
            self.err('expected %s' % (val if val is not None else kind))
        self.i += 1
        return self.toks[self.i - 1][1]

    # --- grammar
    def parse(self):
        while not self.at('eof'):
            if self.at('id') and self.tok[1] in BLOCKS and self.toks[self.i + 1][:2] == ('p', '{'):
                self.doc.blocks.append(self.block())
            elif self.at('id', 'typealias'):
                self.typealias(self.doc.aliases)
            elif self.at('id', 'typedef'):
                self.typedef(self.doc.aliases)
            elif self.at('id') and self.tok[1] in ('struct', 'enum', 'variant'):
                t = self.type_spec()
                if getattr(t, 'name', None):
                    self.doc.aliases['%s %s' % (type(t).__name__.lower(), t.name)] = t
                self.expect('p', ';')
            else:
                self.err('expected a top-level declaration')
        return self.doc

    def block(self):
        line = self.tok[2]
        b = Block(self.expect('id'), line)
        self.expect('p', '{')
        while not self.accept('p', '}'):
            if self.at('id', 'typealias'):
                self.typealias(self.doc.aliases)
                continue
            if self.at('id', 'typedef'):
                self.typedef(self.doc.aliases)
                continue
            name = self.dotted_name()
            if self.accept('p', ':='):
                t = self.type_spec()
                if name in b.types:
                    self.err('duplicate type assignment %s' % name)
                b.types[name] = t
                b.items.append((name, t))
            else:
                self.expect('p', '=')
                v = self.value()
                if name in b.attrs:
                    self.err('duplicate attribute %s' % name)
                b.attrs[name] = v
                b.items.append((name, v))
            self.expect('p', ';')
        self.expect('p', ';')
        return b

    def dotted_name(self):
        parts = [self.expect('id')]
        while self.accept('p', '.'):
            parts.append(self.expect('id'))
        return '.'.join(parts)

    def integer(self):
        neg = False
        while self.at('p', '-') or self.at('p', '+'):
            if self.accept('p', '-'):
                neg = not neg
            else:
                self.accept('p', '+')
        v = self.expect('int')
        return -v if neg else v

    def value(self):
        if self.at('str'):
            return Str(self.expect('str'))
        if self.at('int') or self.at('p', '-') or self.at('p', '+'):
            return self.integer()
        if self.at('id'):
            return Ident(self.dotted_name())
        self.err('expected a value')

    def attr_body(self):
        attrs = collections.OrderedDict()
        self.expect('p', '{')
        while not self.accept('p', '}'):
            k = self.expect('id')
            self.expect('p', '=')
            if k in attrs:
                self.err('duplicate attribute %s' % k)
            attrs[k] = self.value()
            self.expect('p', ';')
        return attrs

    def type_spec(self):
        if not self.at('id'):
            self.err('expected a type')
        kw = self.tok[1]
        if kw == 'integer':
            self.i += 1
            return Integer(self.attr_body())
        if kw == 'floating_point':
            self.i += 1
            return FloatingPoint(self.attr_body())
        if kw == 'string':
            self.i += 1
            return String(self.attr_body() if self.at('p', '{') else collections.OrderedDict())
        if kw == 'struct':
            self.i += 1
            name = self.accept('id') if self.at('id') and not self.at('id', 'align') else None
            if not self.at('p', '{'):
                if name is None:
                    self.err('expected a structure body')
                return TypeRef('struct ' + name)
            fields = self.field_list()
            align = None
            if self.accept('id', 'align'):
                self.expect('p', '(')
                align = self.integer()
                self.expect('p', ')')
            return Struct(fields, align, name)
        if kw == 'variant':
            self.i += 1
            name = self.accept('id')
            tag = None
            if self.accept('p', '<'):
                tag = self.dotted_name()
                self.expect('p', '>')
            if not self.at('p', '{'):
                return TypeRef('variant ' + (name or '?'))
            return Variant(tag, self.field_list(), name)
        if kw == 'enum':
            self.i += 1
            name = self.accept('id')
            container = None
            if self.accept('p', ':'):
                container = self.type_spec()
            if not self.at('p', '{'):
                if name is None:
                    self.err('expected an enumeration body')
                return TypeRef('enum ' + name)
            self.expect('p', '{')
            entries = []
            nxt = 0
            while not self.at('p', '}'):
                if self.at('str'):
                    label = self.expect('str')
                else:
                    label = self.expect('id')
                if self.accept('p', '='):
                    lo = self.integer()
                    hi = lo
                    if self.accept('p', '...'):
                        hi = self.integer()
                else:
                    lo = hi = nxt
                if hi < lo:
                    self.err('enumeration range %d ... %d is empty' % (lo, hi))
                nxt = hi + 1
                entries.append((label, lo, hi))
                if not self.accept('p', ','):
                    break
            self.expect('p', '}')
            return Enum(container, entries, name)
        # alias reference: one or more identifier words (`unsigned long`, `uint32_t`)
        words = [self.expect('id')]
        while self.at('id') and self.tok[1] in C_TYPE_WORDS and words[-1] in C_TYPE_WORDS:
            words.append(self.expect('id'))
        return TypeRef(' '.join(words))

    def field_list(self):
        fields = []
        self.expect('p', '{')
        while not self.accept('p', '}'):
            if self.at('id', 'typealias'):
                self.typealias(self.doc.aliases)
                continue
            if self.at('id', 'typedef'):
                self.typedef(self.doc.aliases)
                continue
            base = self.type_spec()
            while True:
                name, t = self.declarator(base)
                if any(f.name == name for f in fields):
                    self.err('duplicate field %s' % name)
                fields.append(Field(name, t))
                if not self.accept('p', ','):
                    break
            self.expect('p', ';')
        return fields

    def declarator(self, base):
        name = self.expect('id')
        dims = []
        while self.accept('p', '['):
            if self.at('int'):
                dims.append(self.expect('int'))
            else:
                dims.append(self.dotted_name())
            self.expect('p', ']')
        t = base
        for d in reversed(dims):
            t = Array(t, d) if isinstance(d, int) else Sequence(t, d)
        return name, t

    def typealias(self, aliases):
        self.expect('id', 'typealias')
        t = self.type_spec()
        self.expect('p', ':=')
        words = [self.expect('id')]
        while self.at('id'):
            words.append(self.expect('id'))
        while self.accept('p', '*'):
            words.append('*')
        self.expect('p', ';')
        aliases[' '.join(words)] = t

    def typedef(self, aliases):
        self.expect('id', 'typedef')
        t = self.type_spec()
        name, t = self.declarator(t)
        self.expect('p', ';')
        aliases[name] = t


def parse(text, strict=True):
    return Parser(text, strict).parse()


def check_header(text):
    """A CTF 1.8 text metadata stream starts with the magic comment."""
    return text.startswith('/* CTF 1.8')
